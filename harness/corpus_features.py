#!/venv/bin/python
"""corpus_features.py: for every pinned corpus file, count the syntactic features the size options act on, and write
corpus/FEATURES.json: for each feature the files in which it is most frequent.  The quick tier of C17 measures those files in
addition to its 1-in-20 sample, so that a change to the handling of one feature is measured where the feature is dense."""
import ast, os, sys, json, collections
sys.path.insert(0, os.path.dirname(os.path.dirname(os.path.abspath(__file__))))
from harness import common


def features(tree):
    c = collections.Counter()
    strs = set()
    for n in ast.walk(tree):
        if isinstance(n, ast.AnnAssign):
            c['annotated_assignment'] += 1
            if isinstance(n.value, ast.Constant):
                c['annotated_assignment_literal_value'] += 1
        elif isinstance(n, ast.ClassDef):
            c['class_annotations'] += sum(1 for x in n.body if isinstance(x, ast.AnnAssign))
            c['object_base'] += sum(1 for b in n.bases if isinstance(b, ast.Name) and b.id == 'object')
        elif isinstance(n, (ast.FunctionDef, ast.AsyncFunctionDef, ast.Lambda)):
            a = n.args
            c['positional_only_parameters'] += len(a.posonlyargs)
            c['argument_annotations'] += sum(1 for x in a.posonlyargs + a.args + a.kwonlyargs if x.annotation is not None)
            c['parameters'] += len(a.posonlyargs + a.args + a.kwonlyargs)
        elif isinstance(n, ast.Constant):
            if isinstance(n.value, (str, bytes)):
                strs.add((type(n.value).__name__, n.value))
                if isinstance(n.value, bytes):
                    c['bytes_literals'] += 1
            elif isinstance(n.value, float):
                c['float_literals'] += 1
            elif n.value is None or n.value is True or n.value is False:
                c['name_constants'] += 1
        elif isinstance(n, (ast.Global, ast.Nonlocal)):
            c['global_nonlocal_statements'] += 1
        elif isinstance(n, ast.Return) and (n.value is None or (isinstance(n.value, ast.Constant) and n.value.value is None)):
            c['return_none'] += 1
        elif isinstance(n, ast.Pass):
            c['pass_statements'] += 1
        elif isinstance(n, ast.Raise) and isinstance(n.exc, ast.Call) and not n.exc.args and not n.exc.keywords:
            c['raise_with_empty_brackets'] += 1
        elif isinstance(n, ast.BinOp) and isinstance(n.left, ast.Constant) and isinstance(n.right, ast.Constant):
            c['literal_arithmetic'] += 1
        elif isinstance(n, ast.JoinedStr):
            c['f_strings'] += 1
            for v in n.values:
                if isinstance(v, ast.FormattedValue):
                    c['string_literals_inside_fstring_fields'] += sum(1 for x in ast.walk(v.value) if isinstance(x, ast.Constant) and isinstance(x.value, (str, bytes)))
                    c['fstring_fields_with_format_spec'] += 1 if v.format_spec is not None else 0
        elif isinstance(n, (ast.ListComp, ast.SetComp, ast.DictComp, ast.GeneratorExp)):
            c['comprehensions'] += 1
        elif isinstance(n, ast.Try):
            c['try_statements'] += 1
        elif isinstance(n, ast.Assert):
            c['asserts'] += 1
        elif isinstance(n, ast.Subscript) and isinstance(n.slice, ast.Constant) and isinstance(n.slice.value, str):
            c['string_subscripts'] += 1
        elif isinstance(n, ast.Dict):
            c['dict_string_keys'] += sum(1 for k in n.keys if isinstance(k, ast.Constant) and isinstance(k.value, str))
        elif isinstance(n, ast.keyword) and isinstance(n.value, ast.Constant):
            c['keyword_literal_arguments'] += 1
        elif isinstance(n, (ast.With, ast.AsyncWith)):
            c['with_statements'] += 1
        elif isinstance(n, ast.NamedExpr):
            c['walrus'] += 1
        elif isinstance(n, ast.Match):
            c['match_statements'] += 1
        elif isinstance(n, (ast.AsyncFunctionDef, ast.Await)):
            c['async_constructs'] += 1
        elif isinstance(n, ast.Starred):
            c['starred'] += 1
        elif isinstance(n, ast.Compare) and len(n.ops) > 1:
            c['comparison_chains'] += 1
    c['distinct_string_literals'] = len(strs)
    # the same plain import more than once in one body
    for n in ast.walk(tree):
        body = getattr(n, 'body', None)
        if isinstance(body, list):
            names = collections.Counter()
            for st in ast.walk(ast.Module(body=[x for x in body if isinstance(x, ast.stmt)], type_ignores=[])):
                if isinstance(st, ast.Import):
                    for a in st.names:
                        if a.asname is None:
                            names[a.name] += 1
            c['repeated_plain_imports'] = max(c['repeated_plain_imports'], sum(v - 1 for v in names.values() if v > 1))
    for n in tree.body:
        if isinstance(n, (ast.Import, ast.ImportFrom)):
            c['module_level_imports'] += 1
    return c


def main():
    per = {}
    for fname, root, prefix in (('PINNED.sha256', common.STDLIB, ''), ('PINNED_SITE.sha256', '/venv/lib/python3.12/site-packages', 'site-packages/')):
        for line in open(os.path.join(common.VERIF, 'corpus', fname)):
            rel = line.rstrip('\n').split('  ', 1)[1]
            try:
                tree = ast.parse(open(os.path.join(root, rel), 'rb').read())
            except Exception:
                continue
            per[prefix + rel] = features(tree)
    feats = sorted({k for c in per.values() for k in c})
    out = {}
    for f in feats:
        ranked = sorted(per, key=lambda r: (-per[r][f], r))
        out[f] = [r for r in ranked[:4] if per[r][f] > 0] + [r for r in ranked if r.startswith('site-packages/') and per[r][f] > 0][:3]
    json.dump(out, open(os.path.join(common.VERIF, 'corpus', 'FEATURES.json'), 'w'), indent=1, sort_keys=True)
    print(len(feats), 'features;', len({r for v in out.values() for r in v}), 'distinct files')


if __name__ == '__main__':
    main()
