"""C13, C14, C15: theorems over the regenerated CLI model + correspondence with the real tool + direct oracles."""
import os, collections
from harness import common, cli_leg

TRUSTED = [
    'Coq 8.16.1 kernel (coqc, vm_compute used in table lemmas and Examples); no native_compute',
    'Print Assumptions: every C13/C14/C15 theorem is closed under the global context (no axioms)',
    'translator/cli.py: reads __main__.py, minify() signature and RemoveAnnotationsOptions.__init__ into Gen/Cli.v (fail-closed)',
    'Model/CliBase.v: meanings given to Python primitives (truthiness, split/strip, utf8, open/read/write as effects)',
    'Proofs/CliSpec.v: documented meaning of the flags, transcribed by hand from help strings and docs/source',
    'argparse itself (store_true/store_false/append semantics, mutually exclusive group) is modelled by args_of, not verified',
    'correspondence leg: Gen/Cli.v evaluated with vm_compute must predict stdout/writes/exit of `python -m python_minifier` on every scenario',
]
ASSUME = [
    'writes to an opened destination succeed completely (short writes / ENOSPC / crash between truncate and write are not modelled)',
    'api is an arbitrary function of (source bytes, filename, options): minify is deterministic (C11)',
    'the minified text contains no lone surrogates (utf8 is total in the model; CPython would raise UnicodeEncodeError)',
]


def size_rule(src, r, env_force):
    if r[0] != 'ok':
        return None
    b = r[1].encode('utf-8')
    if env_force:
        return b
    return src if len(b) > len(src) else b


def emitted(sc, ob):
    """the byte strings the tool wrote, with the source each derives from: list of (where, written, source)"""
    out = []
    if sc['paths'] == ['-']:
        src = sc.get('stdin', b'')
        if sc.get('output'):
            a = ob['after'].get(sc['output'])
            if a:
                out.append(('--output', a[1], src))
        else:
            out.append(('stdout', ob['stdout'], src))
        return out
    for rel, ent in ob['after'].items():
        if ent[0] != 'file':
            continue
        b = ob['before'].get(rel)
        if rel == sc.get('output'):
            srcs = [ob['before'][p][1] for p in sc['paths'] if p in ob['before'] and ob['before'][p][0] == 'file']
            if srcs:
                out.append(('--output', ent[1], srcs[-1]))
        elif b is not None and b != ent:
            out.append(('in-place ' + rel, ent[1], b[1]))
    if '--in-place' in sc.get('flags', []) and ob['exit'] == 0:
        # a successful in-place run: EVERY selected module holds what the API returns for it (under the size rule), also the ones left unchanged
        done = {w for w, _a, _b in out}
        for rel in visit_order(sc, ob):
            b, a = ob['before'].get(rel), ob['after'].get(rel)
            if b is not None and a is not None and b[0] == 'file' and a[0] == 'file' and ('in-place ' + rel) not in done:
                out.append(('in-place ' + rel, a[1], b[1]))
    if not sc.get('output') and '--in-place' not in sc.get('flags', []) and len(sc['paths']) == 1 and ob['exit'] == 0:
        p = sc['paths'][0]
        if p in ob['before'] and ob['before'][p][0] == 'file':
            out.append(('stdout', ob['stdout'], ob['before'][p][1]))
    return out


def rejected(sc):
    f = sc.get('flags', [])
    paths = sc['paths']
    if '-' in paths and len(paths) != 1: return True
    if '-' in paths and '--in-place' in f: return True
    if len(paths) > 1 and '--in-place' not in f: return True
    if len(paths) == 1 and paths[0] in [k.split('/')[0] for k in sc.get('files', {}) if '/' in k] and '--in-place' not in f: return True
    if '--remove-class-attribute-annotations' in f and '--no-remove-annotations' in f: return True
    if sc.get('output') and '--in-place' in f: return True
    return False


def oracle_c13(res, scs, obs):
    n = 0
    for sc, ob in zip(scs, obs):
        if rejected(sc):
            changed = {k for k in set(ob['before']) | set(ob['after']) if ob['before'].get(k) != ob['after'].get(k)}
            if ob['exit'] == 0 or changed or ob['stdout']:
                res.add_violation('c13-invalid-not-rejected', 'invalid flag combination not rejected cleanly: exit=%s changed=%s' % (ob['exit'], sorted(changed)),
                                  {'scenario': sc, 'exit': ob['exit'], 'stdout': ob['stdout']})
            n += 1
            continue
        flags = [f for f in sc.get('flags', []) if f != '--in-place']
        kw = cli_leg.documented_kwargs(flags, sc.get('pl'), sc.get('pg'))
        for where, written, src in emitted(sc, ob):
            fn = 'stdin' if sc['paths'] == ['-'] else sc['paths'][0]
            exp = size_rule(src, cli_leg.api(src, fn, kw), sc.get('env_force'))
            n += 1
            if exp is not None and written != exp:
                res.add_violation('c13-bytes-differ', 'CLI output differs from encode(minify(documented kwargs)) under the size rule (%s)' % where,
                                  {'scenario': sc, 'written': written, 'expected': exp, 'kwargs': cli_leg.kwargs_key(kw)})
    return n


def oracle_c14(res, scs, obs):
    n = 0
    for sc, ob in zip(scs, obs):
        if rejected(sc):
            continue
        kw = cli_leg.documented_kwargs([f for f in sc.get('flags', []) if f != '--in-place'], sc.get('pl'), sc.get('pg'))
        for where, written, src in emitted(sc, ob):
            n += 1
            if sc.get('env_force'):
                continue
            if len(written) > len(src):
                res.add_violation('c14-larger', 'tool emitted %d bytes for a %d byte source (%s)' % (len(written), len(src), where), {'scenario': sc, 'written': written})
            r = cli_leg.api(src, 'm.py', kw)
            if r[0] == 'ok' and len(r[1].encode('utf-8')) > len(src) and written != src:
                res.add_violation('c14-not-passthrough', 'minified would be larger but the original was not passed through (%s)' % where, {'scenario': sc, 'written': written})
        if sc.get('env_force') == '' :
            pass
    return n


def visit_order(sc, ob):
    order = []
    for pa in sc['paths']:
        if pa in ob['walk']:
            for root, files in ob['walk'][pa]:
                for f in files:
                    if f.endswith(('.py', '.pyw')):
                        order.append(os.path.join(root, f))
        else:
            order.append(pa)
    return order


def oracle_c15(res, scs, obs):
    n = 0
    for sc, ob in zip(scs, obs):
        if rejected(sc):
            continue
        n += 1
        kw = cli_leg.documented_kwargs([f for f in sc.get('flags', []) if f != '--in-place'], sc.get('pl'), sc.get('pg'))
        order = visit_order(sc, ob)
        targets = set(order) if '--in-place' in sc.get('flags', []) else set()
        if sc.get('output'):
            targets.add(sc['output'])
        # a file reached through a symlink (to a file or to a directory) is the same file as its real path
        real = ob.get('real', {})
        treal = {real.get(t, t) for t in targets}
        real_targets = {rel for rel in set(ob['before']) | set(ob['after']) if real.get(rel, rel) in treal} | targets
        failed_at = None
        for rel in sorted(set(ob['before']) | set(ob['after'])):
            b, a = ob['before'].get(rel), ob['after'].get(rel)
            if b == a:
                continue
            if rel not in real_targets:
                res.add_violation('c15-non-target-modified', 'a file that is not a selected .py/.pyw target (nor --output) changed: ' + rel, {'scenario': sc, 'file': rel})
                continue
            if rel == sc.get('output'):
                continue
            if a is None or a[0] not in ('file', 'link'):
                res.add_violation('c15-target-destroyed', 'target vanished or changed kind: ' + rel, {'scenario': sc, 'file': rel})
                continue
            pre = b[1] if b[0] == 'file' else b[2]
            post = a[1] if a[0] == 'file' else a[2]
            r = cli_leg.api(pre, rel, kw)
            if not (r[0] == 'ok' and post == r[1].encode('utf-8')):
                res.add_violation('c15-corrupt', 'target holds neither its original bytes nor the complete minified module: ' + rel, {'scenario': sc, 'file': rel, 'post': post})
        # failure: non-zero exit, failing file and all later files byte-identical
        fails = []
        for i, rel in enumerate(order):
            ent = ob['before'].get(rel)
            pre = None if ent is None else (ent[1] if ent[0] == 'file' else ent[2])
            if pre is None or cli_leg.api(pre, rel, kw)[0] != 'ok':
                fails.append(i)
        if fails:
            k = fails[0]
            if ob['exit'] == 0:
                res.add_violation('c15-failure-exit-zero', 'a file could not be read/decoded/parsed but the exit status is 0', {'scenario': sc, 'file': order[k]})
            for rel in order[k:]:
                if ob['before'].get(rel) != ob['after'].get(rel):
                    res.add_violation('c15-touched-after-failure', 'file at or after the failing position was modified: ' + rel, {'scenario': sc, 'file': rel, 'failing': order[k]})
        elif ob['exit'] != 0:
            res.add_violation('c15-spurious-failure', 'exit status %d although every selected file minifies' % ob['exit'], {'scenario': sc, 'stderr': ob['stderr']})
    return n


def run(pid, tier):
    res = common.Result(pid, tier)
    res.trusted = TRUSTED
    res.assumptions = ASSUME
    common.standard_proof_phase(res, ['cli'], 'Properties/%s.v' % pid)
    r = common.rng(pid)
    gen = {'C13': cli_leg.scenarios_c13, 'C14': cli_leg.scenarios_c14, 'C15': cli_leg.scenarios_c15}[pid]
    scs = gen(r, tier if not res.broken or tier == 'thorough' else 'search')
    obs = cli_leg.run_many(scs)
    # correspondence: the generated model must predict what the real tool did (scenarios without symlinked targets / argparse-level rejections)
    idx = [i for i, sc in enumerate(scs) if not (sc.get('output') and '--in-place' in sc.get('flags', []))
           and not any(e[0] in ('link', 'dirlink') and e[1] != 'nonexistent-target' for e in obs[i]['before'].values())]
    n_model, failing, raw = 0, None, ''
    if not any(k == 'translator' for k, _ in res.broken):
        with common.coq_lock():
            n_model, failing, raw = cli_leg.run_model([scs[i] for i in idx], [obs[i] for i in idx], pid)
        if failing is None:
            res.broken.append(('correspondence', 'model evaluation failed: ' + raw[-600:]))
        elif failing:
            j = idx[failing[0]]
            res.broken.append(('correspondence', 'Gen/Cli.v does not predict the real tool on %d of %d scenarios, first: %r -> exit %s' % (len(failing), n_model, {k: v for k, v in scs[j].items() if k not in ('files', 'stdin')}, obs[j]['exit'])))
    n_or = {'C13': oracle_c13, 'C14': oracle_c14, 'C15': oracle_c15}[pid](res, scs, obs)
    hist = collections.Counter()
    for sc, ob in zip(scs, obs):
        hist['route:' + (sc.get('route') or ('inplace' if '--in-place' in sc.get('flags', []) else 'paths'))] += 1
        hist['exit:%d' % ob['exit']] += 1
        hist['nflags:%d' % len(sc.get('flags', []))] += 1
        if sc.get('fail'):
            hist['fail:' + sc['fail']] += 1
    res.samples = [{k: (v if not isinstance(v, (bytes, dict)) else ('<%d bytes>' % len(v) if isinstance(v, bytes) else sorted(v))) for k, v in sc.items()} for sc in scs[:6]]
    distinct = len({repr(sorted((k, repr(v)) for k, v in sc.items())) for sc in scs})
    res.coverage.update({'scenarios_run_on_real_cli': len(scs), 'model_cases_compared': n_model, 'model_mismatches': 0 if not failing else len(failing),
                         'oracle_checks': n_or, 'evaluations': len(scs), 'distinct_nontrivial': distinct,
                         'rule': 'scenario = (flag subset, preserve-list spellings, route, source/tree, env override); non-trivial = the tool was actually run and its stdout/files/exit compared with the model prediction and with the API oracle',
                         'input_distribution': dict(hist)})
    return res.finish()
