"""C03, C04, C06, C09, C10, C11: renamer core theorems (Model/Renamer.v, Model/Hoist.v) + leg R/S + oracles."""
import ast, copy, collections, json, os, re, subprocess, sys, threading, warnings
from harness import common, scope_leg, progs, pyscope

TRUSTED = [
    'Coq 8.16.1 kernel; every theorem closed under the global context; premises `pick` fresh / extensional and `should` are Section hypotheses',
    'Model/Renamer.v: hand transcription of NameAssigner.__call__, allow_rename_locals/globals over the table of bindings; tied by leg R: the model (vm_compute, real name stream from Gen/NameGen.v, cost oracle tabulated from the real should_rename) must choose exactly the names the real renamer chose on every generated program',
    'translator/namegen.py (alphabets, order and filter of the name stream; interpreter keyword/builtin tables), translator/pipeline.py (statement list, gates and argument wiring of minify); for C11 translator/statesites.py (a syntactic inventory of state that outlives a call: it recognises the listed idioms only - state hidden behind an alias, a closure cell or a C extension is not seen)',
    'Model/Scope.v + Gen/ResolveNames.v (translator/resolve.py reads get_binding clause by clause, the namespace helpers, NameBinder.get_binding and the taint sources): the lookup of resolve_names on frames, proved to refine the symtable discipline (C03_lookup_refines_symtable); tied by leg A on the real namespaces of every generated program (frames = the view the model is given, owner chosen = the reference resolver, occurrence namespaces); Model/Resolve.v (reservation scopes) tied by leg R (rscope_check on the real tables)',
    'NOT modelled in Coq: which nodes bind which names in which namespace (mapper.py add_namespace, bind_names.py visitors) - compared with harness/pyscope.py by leg A (part B/N) and decided by the resolver-based alpha-equivalence oracle; harness/pyscope.py is the reference resolver, cross-checked against CPython symtable (leg S)',
]
HOIST_TRUSTED = ['Model/Hoist.v: transcription of util.insert, common_path/place_bindings, HoistedValue equality; tied by vm_compute cases against the real functions']


def case_sources(r, tier, triggers=False):
    n = {'quick': 100, 'search': 400}.get(tier, 2500)
    return list(progs.DIRECTED) + progs.programs(r, n, triggers=triggers)


def with_opts(sources, r, per=2):
    osets = scope_leg.optsets()
    out = []
    for i, s in enumerate(sources):
        if i < len(progs.DIRECTED):
            out.extend((s, o) for o in osets)         # directed shapes: every option set
            continue
        for k in range(per):
            out.append((s, osets[(i + k * 3) % len(osets)]))
    return out


# ------------------------------------------------------------------------------------------------ identifiers / interface
IDENT = {ast.Name: 'id', ast.FunctionDef: 'name', ast.AsyncFunctionDef: 'name', ast.ClassDef: 'name', ast.arg: 'arg', ast.ExceptHandler: 'name', ast.MatchAs: 'name',
         ast.MatchStar: 'name', ast.MatchMapping: 'rest', ast.Attribute: 'attr', ast.keyword: 'arg'}


def identifiers(tree):
    out = []
    for n in ast.walk(tree):
        f = IDENT.get(type(n))
        if f:
            out.append(getattr(n, f))
        elif isinstance(n, (ast.Global, ast.Nonlocal)):
            out.extend(n.names)
        elif isinstance(n, ast.alias):
            out.append((n.name, n.asname))
        elif isinstance(n, ast.ImportFrom):
            out.append(('from', n.module, n.level))
    return out


def scope_bound_sets(tree):
    r = pyscope.Resolver(tree)
    return [(s.kind, tuple(sorted(s.bound)), tuple(sorted(s.globals)), tuple(sorted(s.nonlocals))) for s in r.scopes]


def interface(tree):
    """names through which other code can reach into the module"""
    c = collections.Counter()
    r = pyscope.Resolver(tree)
    for n in ast.walk(tree):
        if isinstance(n, ast.Attribute):
            c[('attr', n.attr)] += 1
        elif isinstance(n, ast.keyword) and n.arg:
            c[('call-keyword', n.arg)] += 1
        elif isinstance(n, ast.alias):
            c[('import', n.name)] += 1
        elif isinstance(n, ast.ImportFrom):
            c[('from', n.module, n.level)] += 1
        elif isinstance(n, (ast.FunctionDef, ast.AsyncFunctionDef, ast.Lambda)):
            a = n.args
            kwable = [x.arg for x in a.args + a.kwonlyargs]
            # the first parameter of a method (no decorator or @classmethod) is documented as renamed in the signature
            c[('keyword-parameters', tuple(kwable[1:] if kwable and a.args and kwable[0] == a.args[0].arg and not a.posonlyargs and getattr(n, '_in_class', False) and getattr(n, '_plain_method', False) else kwable))] += 1
    for s in r.scopes:
        if s.kind == 'class':
            c[('class-body-names', tuple(sorted(s.bound)))] += 1
    idents = r.identities()
    for (node, f, i, name, sc, ctx), ident in zip(r.occ, idents):
        if name.startswith('__') and name.endswith('__'):
            c[('dunder', name)] += 1
        if ident[0] == 'free' and ctx == 'load' and name not in dir(__builtins__ if isinstance(__builtins__, type(ast)) else __import__('builtins')):
            c[('unbound', name)] += 1
    return c, set(r.root.bound)


def mark_methods(tree):
    """a method is a function whose enclosing SCOPE is a class body (also when nested in if/try/with inside the class)"""
    r = pyscope.Resolver(tree)
    for sc in r.scopes:
        if sc.kind == 'function' and sc.parent is not None and sc.parent.kind == 'class':
            st = sc.node
            st._in_class = True
            st._plain_method = (not st.decorator_list) or (len(st.decorator_list) == 1 and isinstance(st.decorator_list[0], ast.Name) and st.decorator_list[0].id == 'classmethod')


# ------------------------------------------------------------------------------------------------ oracles
HOIST_KINDS = ('literal-', 'alias-', 'prefix-changed', 'inserted-', 'constant-changed', 'output-does-not')


def oracle_alpha(res, pid, cases):
    n = 0
    import python_minifier
    for src, o in cases:
        n += 1
        try:
            out = python_minifier.minify(src, **o)
        except Exception as e:   # noqa
            res.add_violation(pid.lower() + '-minify-raises', 'minify raised %s' % type(e).__name__, {'source': src, 'options': o})
            continue
        a = scope_leg.alpha(src, out)
        if a and pid == 'C06' and not a[0].startswith(HOIST_KINDS):
            # a renaming problem, not a hoisting problem (C03 decides it) - unless it disappears when hoisting alone is switched off:
            # then an introduced alias is what captures / collides
            if not o.get('hoist_literals'):
                continue
            # an unbound (host-provided / builtin) name that now resolves to an introduced alias `name = <literal>`
            m_ = re.search(r"name '([^']+)' became '([^']+)'", a[1]) if a[0] == 'free-name-changed' else None
            if m_:
                try:
                    src_assigned = {t_.id for st_ in ast.walk(ast.parse(src)) if isinstance(st_, ast.Assign) for t_ in st_.targets if isinstance(t_, ast.Name)}
                    intro = {t_.id for st_ in ast.walk(ast.parse(out)) if isinstance(st_, ast.Assign) and isinstance(st_.value, ast.Constant) for t_ in st_.targets if isinstance(t_, ast.Name)} - src_assigned
                except SyntaxError:
                    intro = set()
                if m_.group(2) in intro:
                    res.add_violation('c06-alias-captures-unbound-name', 'the alias %r introduced for a hoisted literal captures the unbound name %r of the source' % (m_.group(2), m_.group(1)),
                                      {'source': src, 'options': {k: v for k, v in o.items() if v}, 'output': out})
                    continue
            try:
                a2 = scope_leg.alpha(src, python_minifier.minify(src, **dict(o, hoist_literals=False)))
            except Exception:
                a2 = ('raised', '')
            if a2:
                continue
            a = ('alias-' + a[0], a[1] + ' (only with hoist_literals on)')
        if a:
            res.add_violation('%s-%s' % (pid.lower(), a[0]), 'output is not the input up to a consistent renaming: %s (%s)' % a, {'source': src, 'options': {k: v for k, v in o.items() if v}, 'output': out})
    return n



# convert_posargs_to_args is the one structural transform that runs AFTER the names are assigned (positional-only parameters are renamed in place
# first, then lose their marker): it is kept off here, the transformed tree would otherwise not be what the renamer saw
TRANSFORMS_ON = dict(remove_annotations=True, remove_pass=True, remove_literal_statements=True, combine_imports=True, remove_object_base=True, convert_posargs_to_args=False,
                     preserve_shebang=True, remove_asserts=False, remove_debug=False, remove_explicit_return_none=True, remove_builtin_exception_brackets=True, constant_folding=True)


def oracle_on_transformed(res, pid, sources):
    """renaming / hoisting ON TOP OF the structural transforms: T = minify(S, every structural transform, no renaming, no hoisting) and
    R = minify(S, the same transforms + renaming / hoisting) must be related exactly like a source and its renamed output (the transforms
    are deterministic and run before the names are bound, so any difference is the renamer's or the hoister's: nodes created by a transform
    carry the namespace the transform gave them)"""
    import python_minifier
    from python_minifier import RemoveAnnotationsOptions
    n = 0
    variants = [dict(rename_locals=True, rename_globals=False, hoist_literals=False), dict(rename_locals=True, rename_globals=True, hoist_literals=False),
                dict(rename_locals=True, rename_globals=False, hoist_literals=True), dict(rename_locals=False, rename_globals=False, hoist_literals=True)]
    if pid == 'C06':
        variants = variants[2:] + [dict(rename_locals=True, rename_globals=True, hoist_literals=True)]
    for i, src in enumerate(sources):
        for ann in (True, RemoveAnnotationsOptions()):
            base = dict(TRANSFORMS_ON, remove_annotations=ann)
            try:
                T = python_minifier.minify(src, rename_locals=False, rename_globals=False, hoist_literals=False, **base)
                tt = ast.parse(T)
            except Exception:
                continue
            for v in variants:
                n += 1
                try:
                    R = python_minifier.minify(src, **dict(base, **v))
                except Exception as e:   # noqa
                    res.add_violation(pid.lower() + '-minify-raises', 'minify raised %s' % type(e).__name__, {'source': src, 'options': {k: str(w) for k, w in dict(base, **v).items()}})
                    continue
                if pid == 'C04':
                    try:
                        qt = ast.parse(R)
                    except SyntaxError:
                        continue
                    mark_methods(tt)
                    mark_methods(qt)
                    fp = [x for x in ast.walk(tt) if isinstance(x, (ast.FunctionDef, ast.AsyncFunctionDef))]
                    fq = [x for x in ast.walk(qt) if isinstance(x, (ast.FunctionDef, ast.AsyncFunctionDef))]
                    if len(fp) == len(fq):
                        for x, y in zip(fp, fq):
                            y._in_class, y._plain_method = getattr(x, '_in_class', False), getattr(x, '_plain_method', False)
                    (ci, bi), (co, bo) = interface(tt), interface(qt)
                    lost = (ci - co)
                    if v.get('hoist_literals'):
                        lost = collections.Counter({k: c for k, c in lost.items() if k[0] not in ('unbound',)})
                    if lost:
                        res.add_violation('c04-interface-changed:' + '+'.join(sorted({k[0] for k in lost})) + ':after-transforms',
                                          'interface names of the transformed module changed under renaming: missing %s' % sorted(map(repr, lost))[:4],
                                          {'source': src, 'options': {k: str(w) for k, w in dict(base, **v).items() if w}, 'transformed': T, 'output': R})
                    continue
                a = scope_leg.alpha(T, R)
                if a and pid == 'C06' and not a[0].startswith(HOIST_KINDS):
                    continue
                if a:
                    res.add_violation('%s-%s' % (pid.lower(), a[0]), 'with the structural transforms on, the renamed / hoisted output is not the transformed module up to a consistent renaming: %s (%s)' % a,
                                      {'source': src, 'options': {k: str(w) for k, w in dict(base, **v).items() if w}, 'transformed': T, 'output': R})
    return n

def oracle_c04(res, cases):
    import python_minifier
    n = 0
    for src, o in cases:
        try:
            out = python_minifier.minify(src, **o)
            pt, qt = ast.parse(src), ast.parse(out)
        except Exception:
            continue
        n += 1
        mark_methods(pt)
        mark_methods(qt)
        # whether a function is a "plain method" (first parameter documented as renamable) is decided on the SOURCE: in the output
        # the decorator may be spelled through an alias (`B=classmethod` ... `@B`), which must not change what is compared
        fp = [x for x in ast.walk(pt) if isinstance(x, (ast.FunctionDef, ast.AsyncFunctionDef))]
        fq = [x for x in ast.walk(qt) if isinstance(x, (ast.FunctionDef, ast.AsyncFunctionDef))]
        if len(fp) == len(fq):
            for x, y in zip(fp, fq):
                y._in_class, y._plain_method = getattr(x, '_in_class', False), getattr(x, '_plain_method', False)
        (ci, bi), (co, bo) = interface(pt), interface(qt)
        if ci != co:
            d = sorted(map(repr, (ci - co).keys()))[:4]
            kinds = sorted({k[0] for k in (ci - co).keys()} | {k[0] for k in (co - ci).keys()})
            res.add_violation('c04-interface-changed:' + '+'.join(kinds), 'interface names changed: missing %s' % d, {'source': src, 'options': {k: v for k, v in o.items() if v}, 'output': out})
        if not o.get('rename_globals'):
            if not bi <= bo:
                res.add_violation('c04-module-name-lost', 'module-level names disappeared without rename_globals: %s' % sorted(bi - bo), {'source': src, 'options': {k: v for k, v in o.items() if v}, 'output': out})
            bad = [x for x in bo - bi if not x.startswith('_')]
            if bad:
                res.add_violation('c04-new-module-name-without-underscore', 'new module-level names %s do not start with an underscore' % bad, {'source': src, 'options': {k: v for k, v in o.items() if v}, 'output': out})
    return n


TRIGGERS = ["eval('1')", "exec('pass')", 'locals()', 'globals()', 'vars()',
            # every way of REFERRING to the name counts, whatever is done with it: called with arguments, starred, not called, parenthesised
            'vars(print)', 'vars(*())', 'locals', '(eval)', 'globals ()', "[exec][0]('pass')", 'vars(**{})', "eval and 1"]


def oracle_c09(res, r, tier):
    import python_minifier
    base = case_sources(r, tier)
    n = 0
    osets = scope_leg.optsets() + [dict(scope_leg.optsets()[3], remove_builtin_exception_brackets=True, convert_posargs_to_args=True)]
    for i, src in enumerate(base):
        trig = TRIGGERS[i % len(TRIGGERS)]
        lines = src.split('\n')
        star = ['from m import *', 'from . import *', 'from .. import *', 'from .m import *', 'from a.b import *'][i % 5]
        variants = [src + 'print(%s)\n' % trig, star + '\n' + src if 'from __future__' not in src else None]
        # put the trigger into the innermost indented body, a default argument, a decorator, a comprehension
        idx = [k for k, l in enumerate(lines) if l.startswith('    ') and l.strip() and not l.strip().startswith(('global ', 'nonlocal ', 'case ', "'''", 'else', 'except', 'finally', 'elif'))]
        if idx:
            k = idx[(i * 7) % len(idx)]
            ind = lines[k][:len(lines[k]) - len(lines[k].lstrip())]
            variants.append('\n'.join(lines[:k] + [ind + 'print(%s)' % trig] + lines[k:]))
        variants.append(src + 'def zz_dflt(p=%s):\n    return [q for q in p if %s]\n' % (trig, trig))
        variants.append(src + 'class ZZ:\n    attr = %s\n    def m(self):\n        return (lambda: %s)()\n' % (trig, trig))
        # the trigger as the default of a parameter that has the trigger's own name (positional, keyword-only, lambda), as a decorator,
        # an annotation, a class base / keyword, inside an f-string, a comprehension condition, a walrus, a nested default
        bare = trig.split('(')[0]
        call = trig if '(' in trig else trig + "('1')"
        if bare.isidentifier():
            variants.append(src + 'def zz_kw(first_value, *, %s=%s):\n    second_value = first_value\n    return %s, second_value\n' % (bare, bare, bare))
            variants.append(src + 'def zz_pos(first_value, %s=%s):\n    second_value = first_value\n    return %s, second_value\n' % (bare, bare, bare))
            variants.append(src + 'zz_lam = lambda first_value, *, %s=%s: (first_value, %s)\n' % (bare, bare, bare))
            variants.append(src + 'def zz_outer(long_name):\n    def zz_inner(other_name, *, %s=%s):\n        return other_name, long_name\n    return zz_inner\n' % (bare, bare))
            variants.append(src + '@%s\ndef zz_deco(long_name):\n    return long_name\n' % bare)
            variants.append(src + 'def zz_ann(long_name: %s = None) -> %s:\n    return long_name\n' % (bare, bare))
            variants.append(src + 'class ZZB(%s, metaclass=%s):\n    pass\n' % (bare, bare))
        if bare.isidentifier():
            # the module binds the trigger's name itself, the reference is still the builtin
            variants.append('%s = %s\n' % (bare, bare) + src + 'def zz_own(long_name):\n    other_name = long_name\n    return %s, other_name\n' % call)
            variants.append(src + 'def zz_glob(long_name):\n    global %s\n    other_name = long_name\n    return %s, other_name\n' % (bare, call))
            variants.append('try:\n    %s\nexcept NameError:\n    %s = None\n' % (bare, bare) + src + 'def zz_try(long_name):\n    other_name = long_name\n    return %s, other_name\n' % call)
        if bare.isidentifier():
            # the trigger used inside a class nested in a class whose outer body binds the trigger's name (class bodies are not enclosing scopes)
            variants.append(src + 'class ZZOuter:\n    def %s(self):\n        return 1\n    class ZZInner:\n        def run(self, long_name):\n            other_name = long_name\n            return %s, other_name\n' % (bare, call))
            variants.append(src + 'def zz_fn():\n    class ZZOuter:\n        %s = None\n        class ZZInner:\n            attr = %s\n            def run(self, long_name):\n                return %s, long_name\n    return ZZOuter\n' % (bare, call, call))
        variants.append(src + 'def zz_f(long_name):\n    return f"{%s}{long_name}"\n' % call)
        variants.append(src + 'def zz_c(long_name):\n    return [item for item in long_name if %s]\n' % call)
        variants.append(src + 'def zz_w(long_name):\n    if (found := %s):\n        return found, long_name\n' % call)
        for v in variants:
            if v is None or not progs.valid(v):
                continue
            pt = ast.parse(v)
            for o in [osets[(i + j) % len(osets)] for j in range(2)]:
                n += 1
                try:
                    out = python_minifier.minify(v, **o)
                    qt = ast.parse(out)
                except Exception as e:   # noqa
                    res.add_violation('c09-minify-raises', 'minify raised %s' % type(e).__name__, {'source': v, 'options': o})
                    continue
                if identifiers(pt) != identifiers(qt) or scope_bound_sets(pt) != scope_bound_sets(qt):
                    new = sorted(set(map(str, identifiers(qt))) - set(map(str, identifiers(pt))))
                    res.add_violation('c09-names-changed' + (':hoist' if o.get('hoist_literals') and not o.get('rename_locals') else ''),
                                      'a module with a dynamic-name trigger came out with changed or new names %s' % new[:5], {'source': v, 'options': {k: w for k, w in o.items() if w}, 'output': out})
    return n


def oracle_c10_cli(res):
    """the command line spelling of the same promise: --preserve-locals / --preserve-globals hold for EVERY module of an invocation
    (several paths, a directory), in whatever order, given once or repeated, comma separated"""
    import subprocess, tempfile, shutil
    mods = {'alpha.py': "important_total = 1\nshared_counter = 2\ndef entry_point(first_value):\n    kept_local = first_value\n    other_local = kept_local\n    return kept_local, other_local, important_total\n",
            'beta.py': "shared_counter = 5\nimportant_total = 6\ndef helper(second_value):\n    kept_local = second_value * 2\n    return kept_local + shared_counter\ndef entry_point():\n    return helper(important_total)\n",
            'pkg/gamma.py': "def entry_point(third_value):\n    kept_local = [third_value]\n    temporary = kept_local\n    return temporary\nimportant_total = entry_point(3)\nshared_counter = important_total\n"}
    n = 0
    for args in (['--rename-globals', '--preserve-globals', 'important_total,entry_point', '--preserve-globals', 'shared_counter', '--preserve-locals', 'kept_local'],
                 ['--preserve-locals', 'kept_local,first_value', '--rename-globals', '--preserve-globals', 'entry_point, shared_counter ,important_total']):
        for paths in (['alpha.py', 'beta.py', 'pkg/gamma.py'], ['pkg/gamma.py', 'beta.py', 'alpha.py'], ['.']):
            d = tempfile.mkdtemp(prefix='c10cli-', dir=common.SCRATCH_ROOT)
            try:
                for rel, src in mods.items():
                    os.makedirs(os.path.dirname(os.path.join(d, rel)), exist_ok=True)
                    open(os.path.join(d, rel), 'w').write(src)
                env = dict(os.environ, PYTHONPATH=common.SRC)
                env.pop('PYMINIFY_FORCE_BEST_EFFORT', None)
                p = subprocess.run([common.PY, '-m', 'python_minifier'] + paths + ['--in-place'] + args, cwd=d, env=env, stdout=subprocess.PIPE, stderr=subprocess.PIPE, timeout=300)
                n += 1
                for rel in mods:
                    out = open(os.path.join(d, rel)).read()
                    try:
                        names = {x.id for x in ast.walk(ast.parse(out)) if isinstance(x, ast.Name)} | {x.name for x in ast.walk(ast.parse(out)) if isinstance(x, ast.FunctionDef)}
                    except SyntaxError:
                        names = set()
                    want = {'important_total', 'shared_counter', 'entry_point', 'kept_local'}
                    src_names = {x.id for x in ast.walk(ast.parse(mods[rel])) if isinstance(x, ast.Name)} | {x.name for x in ast.walk(ast.parse(mods[rel])) if isinstance(x, ast.FunctionDef)}
                    lost = sorted((want & src_names) - names)
                    if p.returncode != 0 or lost:
                        res.add_violation('c10-cli-preserved-name-renamed', 'pyminify %s %s: %s lost the preserved names %s (exit %d)' % (' '.join(paths), ' '.join(args), rel, lost, p.returncode),
                                          {'paths': paths, 'flags': args, 'module': rel, 'source': mods[rel], 'output': out})
            finally:
                shutil.rmtree(d, ignore_errors=True)
    return n


def oracle_c10(res, r, tier):
    import python_minifier
    n = oracle_c10_cli(res)
    base = case_sources(r, tier)
    for i, src in enumerate(base):
        pt = ast.parse(src)
        R = pyscope.Resolver(pt)
        locals_ = sorted({ident[2] for ident in R.identities() if ident[0] == 'local'})
        globals_ = sorted(R.root.bound)
        if not locals_ and not globals_:
            continue
        pl = [locals_[(i + k) % len(locals_)] for k in range(min(2, len(locals_)))] if locals_ else []
        pg = [globals_[(i + k) % len(globals_)] for k in range(min(2, len(globals_)))] if globals_ else []
        nonascii_l = [x for x in locals_ if not x.isascii()][:2]
        nonascii_g = [x for x in globals_ if not x.isascii()][:2]
        forms = [(pl, pg), (pl[0] if pl else None, pg[0] if pg else None), (None, None), (list(pl) + ['not_a_name', 'len'], list(pg) + [''])]
        if nonascii_l or nonascii_g:
            forms += [(nonascii_l, nonascii_g), (nonascii_l[0] if nonascii_l else None, nonascii_g[0] if nonascii_g else None)]
        for fl, fg in forms:
            o = dict(scope_leg.RENAME_OPTS, rename_locals=True, rename_globals=True, hoist_literals=(i % 2 == 0), preserve_locals=copy.deepcopy(fl), preserve_globals=copy.deepcopy(fg))
            n += 1
            try:
                out = python_minifier.minify(src, **o)
            except Exception as e:   # noqa
                res.add_violation('c10-minify-raises', 'minify raised %s with preserve lists' % type(e).__name__, {'source': src, 'preserve_locals': fl, 'preserve_globals': fg})
                continue
            try:
                st = pyscope.compare(pt, ast.parse(out))
            except pyscope.Mismatch:
                continue      # not alpha-equivalent: C03 decides that; C10 is about the spelling of preserved names
            want_l = set([fl] if isinstance(fl, str) else (fl or []))
            want_g = set([fg] if isinstance(fg, str) else (fg or []))
            lits = set()
            for node in pt.body:
                tg = None
                if isinstance(node, ast.Assign) and any(isinstance(t_, ast.Name) and t_.id == '__all__' for t_ in node.targets):
                    tg = node.value
                elif isinstance(node, (ast.AugAssign, ast.AnnAssign)) and isinstance(node.target, ast.Name) and node.target.id == '__all__':
                    tg = node.value
                if isinstance(tg, ast.List):
                    lits |= {e.value for e in tg.elts if isinstance(e, ast.Constant) and isinstance(e.value, str)}
            for a, b in st['map'].items():
                if a[0] == 'local' and a[2] in want_l and b[-1] != a[2]:
                    res.add_violation('c10-preserved-local-renamed', 'local %r is in preserve_locals but was renamed to %r' % (a[2], b[-1]), {'source': src, 'preserve_locals': fl, 'preserve_globals': fg, 'output': out})
                if a[0] == 'module' and (a[1] in want_g or a[1] in lits) and b[-1] != a[1]:
                    res.add_violation('c10-preserved-global-renamed', 'global %r is preserved (list or __all__) but was renamed to %r' % (a[1], b[-1]), {'source': src, 'preserve_locals': fl, 'preserve_globals': fg, 'output': out})
        # awslambda entrypoint
        if globals_:
            ep = globals_[i % len(globals_)]
            try:
                out = python_minifier.awslambda(src, entrypoint=ep)
                st = pyscope.compare(pt, ast.parse(python_minifier.minify(src, remove_literal_statements=False, rename_globals=True, preserve_globals=[ep], **{k: v for k, v in scope_leg.RENAME_OPTS.items() if k not in ('remove_literal_statements',)}, rename_locals=True, hoist_literals=True)))
                if ('module', ep) in st['map'] and st['map'][('module', ep)][-1] != ep:
                    res.add_violation('c10-entrypoint-renamed', 'awslambda entrypoint %r was renamed' % ep, {'source': src, 'entrypoint': ep, 'output': out})
                if ep not in pyscope.Resolver(ast.parse(out)).root.bound:
                    res.add_violation('c10-entrypoint-renamed', 'awslambda entrypoint %r does not occur in the output' % ep, {'source': src, 'entrypoint': ep, 'output': out})
                n += 1
            except pyscope.Mismatch:
                pass
            except Exception:
                pass
    return n


WORKER = r'''
import sys, json
import python_minifier
from python_minifier import RemoveAnnotationsOptions
cases = json.load(sys.stdin)
out = []
for c in cases:
    try:
        out.append(python_minifier.minify(c['source'], **c['options']))
    except Exception as e:
        out.append('RAISED ' + type(e).__name__)
json.dump(out, sys.stdout)
'''


ISOLATED = r'''
import sys, json
from concurrent.futures import ProcessPoolExecutor
import multiprocessing

def one(c):
    import python_minifier
    try:
        return python_minifier.minify(c['source'], **c['options'])
    except Exception as e:
        return 'RAISED ' + type(e).__name__

if __name__ == '__main__':
    cases = json.load(sys.stdin)
    with ProcessPoolExecutor(max_workers=12, mp_context=multiprocessing.get_context('spawn'), max_tasks_per_child=1) as ex:
        out = list(ex.map(one, cases))
    json.dump(out, sys.stdout)
'''


def run_isolated(cases):
    """every case in its own fresh interpreter: nothing a previous call left behind can influence the result"""
    import tempfile
    env = dict(os.environ, PYTHONPATH=common.SRC, PYTHONHASHSEED='0')
    with tempfile.NamedTemporaryFile('w', suffix='.py', dir=common.SCRATCH_ROOT, delete=False) as f:
        f.write(ISOLATED)
        path = f.name
    try:
        p = subprocess.run([common.PY, path], input=json.dumps(cases).encode(), stdout=subprocess.PIPE, stderr=subprocess.PIPE, env=env, timeout=3000)
    finally:
        os.remove(path)
    if p.returncode != 0:
        raise RuntimeError(p.stderr.decode()[-500:])
    return json.loads(p.stdout)


def run_worker(cases, seed):
    env = dict(os.environ, PYTHONPATH=common.SRC, PYTHONHASHSEED=str(seed))
    p = subprocess.run([common.PY, '-c', WORKER], input=json.dumps(cases).encode(), stdout=subprocess.PIPE, stderr=subprocess.PIPE, env=env, timeout=3000)
    if p.returncode != 0:
        raise RuntimeError(p.stderr.decode()[-500:])
    return json.loads(p.stdout)


def oracle_c11(res, r, tier):
    import python_minifier
    from python_minifier import RemoveAnnotationsOptions
    srcs = case_sources(r, tier)[: 60 if tier == 'quick' else 500]
    # globals declared together, __all__, hoistable literals: the shapes where set/dict order could matter
    srcs += ["def f():\n    global alpha, beta, gamma, delta\n    alpha = beta = gamma = delta = 1\n    return alpha + beta + gamma + delta\n",
             "__all__ = ['first_name', 'second_name']\nfirst_name = 1\nsecond_name = 2\nthird_name = first_name + second_name\n"]
    osets = [dict(o, convert_posargs_to_args=True) for o in scope_leg.optsets()] + [dict(rename_globals=True, remove_literal_statements=True)]
    cases = [{'source': s, 'options': osets[i % len(osets)]} for i, s in enumerate(srcs)]
    special = ["def f():\n    global alpha, beta, gamma, delta\n    alpha = beta = gamma = delta = 1\n    return alpha + beta + gamma + delta\n",
               "def g():\n    global first_value, second_value, third_value\n    first_value = second_value = third_value = 0\ndef h():\n    global third_value, second_value, first_value\n    return first_value, second_value, third_value\n",
               "__all__ = ['first_name', 'second_name']\nfirst_name = 1\nsecond_name = 2\nthird_name = first_name + second_name\n",
               "def k():\n    x_value = {'key one', 'key two', 'key three'}\n    return {name: len(name) for name in x_value}, 'key one', 'key two', 'key three', 'key one', 'key two', 'key three'\n"]
    for sp in special:
        for o in (osets[1], osets[3], dict(rename_globals=True), dict(rename_globals=True, hoist_literals=False)):
            cases.append({'source': sp, 'options': o})
    # sources that mention the special names a transform might react to, each followed by an ordinary module that the same
    # option objects are then used for (history: a reaction must not leak into the caller's objects or the module-level defaults)
    reactive = ["def probe(a: int, b: str = 's') -> int:\n    return a\nprint(probe.__annotations__, __annotations__)\n", '"""doc"""\nprint(__doc__)\n', "__all__ = ['kept_name']\nkept_name = 1\nother_name = 2\n",
                "import typing\nclass Row(typing.NamedTuple):\n    a: int\n    b: str = 'b'\n", "def f():\n    return locals(), globals(), vars()\n", "__slots__ = ('x',)\nclass K:\n    __slots__ = ('long_slot_name', 'long_slot_name')\n",
                "from dataclasses import dataclass\n@dataclass\nclass P:\n    x: int = 1\n"]
    ordinary = "def annotated(first_arg: int, second_arg: str = 's') -> int:\n    local_value: int = first_arg\n    return local_value\nclass Holder:\n    attribute: int = 1\nprint(annotated(1), 'repeated text', 'repeated text', 'repeated text')\n"
    for rs in reactive:
        for o in ({}, dict(rename_globals=True), dict(remove_literal_statements=True)):
            cases.append({'source': rs, 'options': o})
            cases.append({'source': ordinary, 'options': o})
    # numerically equal operands of different types, in both orders: a result remembered from one call must not leak into the next
    pairs = [('100.0 - 99', '100 - 99'), ('3.0 * 1000', '3 * 1000'), ('True & True', '1 & 1'), ('1 + 1', '1.0 + 1.0'), ('0 * 5', 'False * 5'), ('2 ** 10', '2.0 ** 10'), ('7 // 2', '7.0 // 2'), ('0j + 0', '0 + 0')]
    for a_, b_ in pairs:
        for first, second in ((a_, b_), (b_, a_)):
            cases.append({'source': 'STEP = %s\nLIMIT = %s\n' % (first, first), 'options': {}})
            cases.append({'source': 'STEP = %s\nOTHER = %s\n' % (second, second), 'options': {}})
    # many foldable expressions in one module: long enough for concurrent calls to interleave inside the folding
    big = ['\n'.join('SIZE_%d_%d = %d * %d + %d - %d' % (k, i, 3 + i, 7 + k, i * k, k) for i in range(120)) + '\n' for k in range(4)]
    # a source nested far deeper than the interpreter's default recursion limit allows, and one comfortably below it
    big.append('deep = ' + ' + '.join('term_%d' % i for i in range(800)) + '\n')
    big.append('deeper = ' + ' + '.join('term_%d' % i for i in range(3000)) + '\n')
    big.append('shallow = ' + ' + '.join('term_%d' % i for i in range(60)) + '\n')
    for b_ in big:
        cases.append({'source': b_, 'options': {}})
    n = 0
    seeds = [0, 1, 2, 3, 4, 5, 'random', 'random'] if tier == 'quick' else list(range(24)) + ['random'] * 8
    from concurrent.futures import ThreadPoolExecutor
    with ThreadPoolExecutor(8) as ex:
        outs = list(ex.map(lambda sd: run_worker(cases, sd), seeds))
    ref = outs[0]
    iso = run_isolated(cases)
    for c, a, b in zip(cases, ref, iso):
        n += 1
        if a != b:
            res.add_violation('c11-history-dependent', 'the result of a call made after other calls in the same process differs from the result of the same call in a fresh interpreter',
                              {'source': c['source'], 'options': c['options'], 'got': a, 'fresh': b})
    ref = iso
    for sd, o in zip(seeds[1:], outs[1:]):
        for c, a, b in zip(cases, ref, o):
            n += 1
            if a != b:
                res.add_violation('c11-hash-seed', 'output differs between PYTHONHASHSEED=%s and %s' % (seeds[0], sd), {'source': c['source'], 'options': c['options'], 'a': a, 'b': b})
    # history: in this process, after unrelated and related calls, sharing argument objects between calls
    shared_l, shared_g = ['keep_me'], ['keep_too']
    ann = RemoveAnnotationsOptions()
    def process_state():
        # only what can change the RESULT of a later minify call: the recursion limit (deep sources), the environment (PYMINIFY_* switches), float/int conversion limits
        return (sys.getrecursionlimit(), sorted(os.environ.items()), sys.get_int_max_str_digits() if hasattr(sys, 'get_int_max_str_digits') else None)
    state0 = process_state()
    defaults0 = repr((python_minifier.minify.__defaults__, python_minifier.minify.__kwdefaults__, [vars(x) for x in (python_minifier.minify.__defaults__ or ()) if hasattr(x, '__dict__')]))
    for i, c in enumerate(cases):
        o = dict(c['options'])
        pl0, pg0 = copy.deepcopy(shared_l), copy.deepcopy(shared_g)
        o['preserve_locals'], o['preserve_globals'], o['remove_annotations'] = shared_l, shared_g, ann
        ann0 = repr(ann)
        try:
            got = python_minifier.minify(c['source'], **o)
        except Exception as e:   # noqa
            got = 'RAISED ' + type(e).__name__
        n += 1
        if shared_l != pl0 or shared_g != pg0 or repr(ann) != ann0:
            res.add_violation('c11-argument-mutated', 'minify changed a caller-owned argument: preserve_locals %r -> %r, preserve_globals %r -> %r' % (pl0, shared_l, pg0, shared_g),
                              {'source': c['source'], 'options': c['options'], 'before': [pl0, pg0], 'after': [list(shared_l), list(shared_g)]})
            shared_l[:] = pl0
            shared_g[:] = pg0
        state1 = process_state()
        if state1 != state0:
            changed = [k for k, a_, b_ in zip(('recursion limit', 'environment', 'int max str digits'), state0, state1) if a_ != b_]
            res.add_violation('c11-process-state-changed', 'a minify call left process-wide interpreter state changed: %s' % changed, {'source': c['source'][:400], 'options': c['options'], 'changed': changed})
            state0 = state1
        if 'remove_annotations' not in c['options']:
            # the same call relying on the module-level default option object, against a call with a fresh one
            try:
                d1 = python_minifier.minify(c['source'], **c['options'])
                d2 = python_minifier.minify(c['source'], remove_annotations=RemoveAnnotationsOptions(), **c['options'])
            except Exception:
                d1 = d2 = None
            n += 1
            if d1 != d2:
                res.add_violation('c11-history-dependent', 'the result with the default option object differs from the result with a fresh, equal option object (state leaked from an earlier call)',
                                  {'source': c['source'], 'options': c['options'], 'got': d1, 'fresh': d2})
        defaults1 = repr((python_minifier.minify.__defaults__, python_minifier.minify.__kwdefaults__, [vars(x) for x in (python_minifier.minify.__defaults__ or ()) if hasattr(x, '__dict__')]))
        if defaults1 != defaults0:
            res.add_violation('c11-default-argument-mutated', 'a module-level default argument object of minify() changed during a call', {'source': c['source'], 'options': c['options'], 'before': defaults0, 'after': defaults1})
            defaults0 = defaults1
        fresh = dict(c['options'], preserve_locals=list(pl0), preserve_globals=list(pg0), remove_annotations=RemoveAnnotationsOptions())
        try:
            want = python_minifier.minify(c['source'], **fresh)
        except Exception as e:   # noqa
            want = 'RAISED ' + type(e).__name__
        if got != want:
            res.add_violation('c11-history-dependent', 'result depends on what was minified before / on reused argument objects', {'source': c['source'], 'options': c['options'], 'got': got, 'fresh': want})
    # threads
    results = {}

    def work(k):
        results[k] = []
        for c in cases[k::8]:
            try:
                results[k].append(python_minifier.minify(c['source'], **c['options']))
            except Exception as e:   # noqa
                results[k].append('RAISED ' + type(e).__name__)
    old_interval = sys.getswitchinterval()
    sys.setswitchinterval(1e-5)        # switch threads as often as possible: shared mutable state shows up quickly
    stress = {}

    def work_big(k):
        stress[k] = []
        for j in range(len(big)):
            b_ = big[(j + k) % len(big)]
            try:
                stress[k].append((b_, python_minifier.minify(b_)))
            except Exception as e:   # noqa
                stress[k].append((b_, 'RAISED ' + type(e).__name__))
    try:
        ths = [threading.Thread(target=work, args=(k,)) for k in range(8)]
        [t.start() for t in ths]
        [t.join() for t in ths]
        ths = [threading.Thread(target=work_big, args=(k,)) for k in range(6)]
        [t.start() for t in ths]
        [t.join() for t in ths]
    finally:
        sys.setswitchinterval(old_interval)
    state2 = process_state()
    if state2 != state0:
        changed = [k for k, a_, b_ in zip(('recursion limit', 'environment', 'int max str digits'), state0, state2) if a_ != b_]
        res.add_violation('c11-process-state-changed', 'concurrent minify calls left process-wide interpreter state changed: %s' % changed, {'changed': changed, 'before': repr((state0[0], state0[2])), 'after': repr((state2[0], state2[2]))})
    want_big = {c['source']: b for c, b in zip(cases, ref) if c['source'] in big}
    for k in stress:
        for b_, got in stress[k]:
            n += 1
            if got != want_big.get(b_):
                res.add_violation('c11-thread', 'result differs when the same foldable modules are minified from 6 threads concurrently', {'source': b_[:400], 'options': {}, 'got': got[:400], 'fresh': (want_big.get(b_) or '')[:400]})
    for k in range(8):
        for c, a, b in zip(cases[k::8], results[k], ref[k::8]):
            n += 1
            if a != b:
                res.add_violation('c11-thread', 'result differs when minifying from 8 threads concurrently', {'source': c['source'], 'options': c['options'], 'got': a, 'fresh': b})
    return n


def leg_hoist_model(res, r):
    """Model/Hoist.v vs util.insert / HoistLiterals.common_path / HoistedValue"""
    from python_minifier.rename.util import insert
    from python_minifier.rename.rename_literals import HoistLiterals, HoistedValue
    cases = []
    kinds = ['future', 'doc', 'other']
    for _ in range(150):
        suite, coq = [], []
        for k in range(r.randint(0, 6)):
            kd = r.choice(kinds)
            if kd == 'future':
                suite.append(ast.parse('from __future__ import annotations').body[0])
                coq.append('IFuture')
            elif kd == 'doc':
                suite.append(ast.parse("'d%d'" % k).body[0])
                coq.append('(IDocStr %d%%N)' % k)
            else:
                suite.append(ast.parse(r.choice(['x = %d', 'print(%d)', 'import m%d', '%d', 'b"%d"'])% k).body[0])
                coq.append('(IOther %d%%N)' % k)
        new = ast.parse('NEW = 1').body[0]
        got = list(insert(suite, new))
        exp = [('(IOther 99%N)' if g is new else coq[suite.index(g)]) for g in got]
        cases.append('istmts_eqb (insert (IOther 99%%N) [%s]) [%s]' % ('; '.join(coq), '; '.join(exp)))
    h = HoistLiterals()
    for _ in range(150):
        a = [0] + [r.randint(1, 3) for _ in range(r.randint(0, 4))]
        b = [0] + [r.randint(1, 3) for _ in range(r.randint(0, 4))]
        got = h.common_path(a, b)
        f = lambda l: '[' + '; '.join('%d%%N' % x for x in l) + ']'
        cases.append('list_N_eqb (common_path %s %s) %s' % (f(a), f(b), f(got)))
    vals = ['a', b'a', '', b'', True, False, None, 'True', '1', b'1']
    for x in vals:
        for y in vals:
            tag = lambda v: ('TStr', str(v)) if isinstance(v, str) else ('TBytes', v.decode()) if isinstance(v, bytes) else ('TBool', repr(v)) if isinstance(v, bool) else ('TNone', '')
            tx, ty = tag(x), tag(y)
            cases.append('Bool.eqb (hv_eq (%s, %s) (%s, %s)) %s' % (tx[0], common.coq_N_list(tx[1]), ty[0], common.coq_N_list(ty[1]), 'true' if HoistedValue(x) == HoistedValue(y) else 'false'))
    header = ['From PM Require Import Model.Base Model.Hoist.',
              'Definition istmt_eqb (a b : istmt) : bool := match a, b with IFuture, IFuture => true | IDocStr x, IDocStr y | IOther x, IOther y => N.eqb x y | _, _ => false end.',
              'Fixpoint istmts_eqb (a b : list istmt) : bool := match a, b with [], [] => true | x :: a\', y :: b\' => istmt_eqb x y && istmts_eqb a\' b\' | _, _ => false end.',
              'Definition list_N_eqb := text_eqb.']
    n, failing, raw = common.run_cases('c06H', header, cases)
    if failing is None:
        res.broken.append(('correspondence', 'hoist model evaluation failed: ' + raw[-400:]))
    elif failing:
        res.broken.append(('correspondence', 'Model/Hoist.v disagrees with util.insert / common_path / HoistedValue on %d of %d cases, e.g. %s' % (len(failing), n, cases[failing[0]][:200])))
    return n


def run(pid, tier):
    res = common.Result(pid, tier)
    res.trusted = TRUSTED + (HOIST_TRUSTED if pid == 'C06' else [])
    res.assumptions = ['pick returns a name outside the set it is given (the real stream never repeats: C03_generated_names_distinct for lengths 1-2)',
                       'the binding table handed to NameAssigner is well formed (wf_bindingb, checked on every table by leg R)']
    translators = {'C03': ['namegen', 'pipeline', 'resolve'], 'C04': ['namegen', 'pipeline', 'resolve'], 'C06': [], 'C09': ['pipeline', 'resolve'], 'C10': ['pipeline'], 'C11': ['pipeline', 'statesites']}[pid]
    models = ['Model/RenamerRun.vo', 'Proofs/RenamerProofs.vo', 'Model/ResolveRun.vo'] + (['Model/Hoist.vo'] if pid == 'C06' else []) + (['Model/ScopeRun.vo'] if pid in ('C03', 'C04', 'C09') else [])
    common.standard_proof_phase(res, translators, 'Properties/%s.v' % pid, model_targets=models)
    if pid == 'C11' and res.broken:
        # name the state sites that are not on the reviewed list (what the failing C11_no_state_outlives_a_call saw)
        try:
            import re as _re
            tup = r'\(("(?:[^"]|"")*"), ("(?:[^"]|"")*"), ("(?:[^"]|"")*"), ("(?:[^"]|"")*")\)'
            gen = set(_re.findall(tup, open(os.path.join(common.COQ, 'Gen', 'StateSites.v')).read()))
            rev = set(_re.findall(tup, open(os.path.join(common.COQ, 'Properties', 'C11.v')).read()))
            if gen != rev:
                res.broken.append(('proof', 'state that outlives a call, not on the reviewed list: %s; reviewed sites that are gone: %s' % (sorted(gen - rev)[:6], sorted(rev - gen)[:6])))
        except Exception:   # noqa
            pass
    r = common.rng(pid)
    eff = tier if (not res.broken or tier == 'thorough') else 'search'
    srcs = case_sources(r, eff, triggers=(pid == 'C09'))
    legR_sources = srcs if eff != 'quick' else srcs[:110]
    cases = with_opts(legR_sources, r, per=1 if eff == 'quick' else 2)
    if pid == 'C10':
        cases = [(s, dict(o, preserve_locals=['item', 'value'], preserve_globals=['foo', 'K'], rename_globals=True)) for s, o in cases]
    with common.coq_lock():
        nR, nb, nren = scope_leg.leg_R(res, cases, pid.lower() + 'R')
        nH = leg_hoist_model(res, r) if pid == 'C06' else 0
        nA = (0, 0, 0, 0)
        if pid in ('C03', 'C04', 'C09') and not any(k == 'translator' and 'resolve' in str(w) for k, w in res.broken):
            nA = scope_leg.leg_A(res, srcs if eff != 'quick' else srcs[:160], pid.lower() + 'A')
    bad_ref = scope_leg.leg_S(res, srcs)
    if bad_ref > max(2, len(srcs) // 50):
        res.broken.append(('reference-model', 'harness/pyscope.py disagrees with CPython symtable on %d of %d programs: the oracle is not trustworthy' % (bad_ref, len(srcs))))
    nO = 0
    ocases = with_opts(srcs, r, per=2 if eff == 'quick' else 3)
    tsrcs = list(progs.TRANSFORM_SHAPES) + list(progs.DIRECTED) + srcs[len(progs.DIRECTED):len(progs.DIRECTED) + (40 if eff == 'quick' else 400)]
    if pid == 'C03':
        nO = oracle_alpha(res, pid, ocases) + oracle_on_transformed(res, pid, tsrcs)
    elif pid == 'C06':
        nO = oracle_alpha(res, pid, [(s, o) for s, o in ocases if o.get('hoist_literals')] + [(s, scope_leg.optsets()[2]) for s in srcs]) + oracle_on_transformed(res, pid, tsrcs)
    elif pid == 'C04':
        nO = oracle_c04(res, ocases) + oracle_on_transformed(res, pid, tsrcs)
    elif pid == 'C09':
        nO = oracle_c09(res, r, eff)
    elif pid == 'C10':
        nO = oracle_c10(res, r, eff)
    elif pid == 'C11':
        nO = oracle_c11(res, r, eff)
    res.samples = [srcs[len(progs.DIRECTED) + 1][:400] if len(srcs) > len(progs.DIRECTED) + 1 else srcs[0], progs.DIRECTED[4]]
    res.coverage.update({'leg_A_programs': nA[0], 'leg_A_references_resolved_by_model': nA[1], 'leg_A_occurrences_vs_reference_pass': nA[2], 'leg_A_namespaces_compared': nA[3], 'leg_R_programs': nR, 'leg_R_bindings': nb, 'leg_R_bindings_renamed': nren, 'leg_S_reference_resolver_disagreements': bad_ref, 'hoist_model_cases': nH,
                         'oracle_cases': nO, 'evaluations': nR + nO + nH, 'distinct_nontrivial': len(set(srcs)),
                         'rule': 'programs: directed scope shapes + random scope-rich modules (nested functions/classes/lambdas/comprehensions, global/nonlocal, imports, except/with/for/match targets, walrus); leg R case = (program, option set) whose whole binding table is run through the Coq model; non-trivial = distinct program text'})
    if nR and nren < 20:
        res.broken.append(('correspondence', 'inconclusive tie: only %d bindings were renamed in the compared tables' % nren))
    return res.finish()
