"""C07: constant folding never changes a value, its type, or an error.
Legs: F (Model/Fold.v with table oracles vs the real FoldConstants, decisions and resulting literals),
      L (the hypotheses HL/HE/HRc and the value model's repr_neg/negv/eqvt sampled against CPython),
      oracle (eval of the original vs eval of the minified right-hand side, type/value/sign/exception; length)."""
import ast, math, struct, itertools, collections, copy, sys
from harness import common

TRUSTED = [
    'Coq 8.16.1 kernel; every C07 theorem closed under the global context (hypotheses are Section premises, not axioms)',
    'Model/Fold.v: hand transcription of FoldConstants.visit_BinOp / equal_value_and_type, tied to the code by leg F (vm_compute with table oracles) on every run',
    'premises HL, HE, HEv, HRc (what a Num candidate that re-parses to itself evaluates to) and compositionality Cbin/Cneg/Cctx: sampled by leg L, not proved',
    'the value model (sign + IEEE magnitude for floats; == / repr sign / unary minus) is validated against CPython by leg L',
    'exceptions are identified up to "raises" (None) in the theorem; the oracle compares exception types',
]
OPS = {ast.Add: 'Add', ast.Sub: 'Sub', ast.Mult: 'Mult', ast.MatMult: 'MatMult', ast.Div: 'Div', ast.Mod: 'Mod', ast.Pow: 'Pow', ast.LShift: 'LShift',
       ast.RShift: 'RShift', ast.BitOr: 'BitOr', ast.BitXor: 'BitXor', ast.BitAnd: 'BitAnd', ast.FloorDiv: 'FloorDiv'}
OPSYM = {'Add': '+', 'Sub': '-', 'Mult': '*', 'MatMult': '@', 'Div': '/', 'Mod': '%', 'Pow': '**', 'LShift': '<<', 'RShift': '>>', 'BitOr': '|', 'BitXor': '^', 'BitAnd': '&', 'FloorDiv': '//'}
INTS = [0, 1, 2, 3, 7, 10, 16, 255, 256, 1000, 65535, 65536, 2 ** 31, 2 ** 63, 2 ** 64, 10 ** 20]
FLOATS = [0.0, 0.5, 1.0, 1.5, 2.0, 0.1, 1e22, 1e16, 1e-7, 5e-324, 1e308, float('inf'), 3.14]
COMPLEXES = [0j, 1j, 2.5j, complex(0, float('inf')), 10j]
LEAVES = [('int', v) for v in INTS] + [('float', v) for v in FLOATS] + [('complex', v) for v in COMPLEXES] + [('bool', True), ('bool', False), ('none', None)]


def fl(x):
    if math.isnan(x):
        return 'FNan'
    mag = struct.unpack('>Q', struct.pack('>d', abs(x)))[0]
    return '(FNum %s %d%%N)' % ('true' if math.copysign(1.0, x) < 0 else 'false', mag)


def coq_val(v):
    if v is None:
        return 'VNone'
    if isinstance(v, bool):
        return '(VBool %s)' % ('true' if v else 'false')
    if isinstance(v, int):
        return '(VInt (%d)%%Z)' % v
    if isinstance(v, float):
        return '(VFloat %s)' % fl(v)
    if isinstance(v, complex):
        return '(VComplex %s %s)' % (fl(v.real), fl(v.imag))
    return '(VOther 0%N)'


def coq_ex(n):
    if isinstance(n, ast.Constant):
        if isinstance(n.value, (str, bytes)) or n.value is Ellipsis:
            return '(Leaf 1%N)'
        return '(Lit %s)' % coq_val(n.value)
    if isinstance(n, ast.UnaryOp) and isinstance(n.op, ast.USub):
        return '(Neg %s)' % coq_ex(n.operand)
    if isinstance(n, ast.BinOp):
        return '(Bin %s %s %s)' % (coq_ex(n.left), OPS[type(n.op)], coq_ex(n.right))
    if isinstance(n, ast.Name):
        return '(Leaf 0%N)'
    if isinstance(n, ast.Tuple):
        return '(Ctx 0%%N [%s])' % '; '.join(coq_ex(e) for e in n.elts)
    if isinstance(n, ast.UnaryOp):
        return '(Ctx %d%%N [%s])' % ({ast.UAdd: 1, ast.Invert: 2, ast.Not: 3}[type(n.op)], coq_ex(n.operand))
    raise ValueError(type(n))


def lit_src(kind, v):
    if kind == 'float' and math.isinf(v):
        return '1e999'
    if kind == 'complex' and math.isinf(v.imag):
        return '1e999j'
    return repr(v)


def gen_expr(r, depth):
    if depth == 0 or r.random() < 0.25:
        k, v = r.choice(LEAVES)
        if r.random() < 0.04:
            return 'n'
        return lit_src(k, v)
    op = r.choice(list(OPSYM.values()))
    left = gen_expr(r, depth - 1)
    if op in ('**', '<<', '>>'):
        right = str(r.choice([0, 1, 2, 3, 4, 8, 31, 64] if op != '**' else [0, 1, 2, 3]))
    else:
        right = gen_expr(r, depth - 1)
    e = '(%s)%s(%s)' % (left, op, right)
    u = r.random()
    if u < 0.06:
        e = '-(%s)' % e
    elif u < 0.09:
        e = '~(%s)' % e
    return e


def exprs(r, tier):
    out = []
    # every operator x every pair of leaf kinds x boundary values (depth 1), then random deeper trees
    reps = {'int': [0, 1, 7, 2 ** 64], 'float': [0.0, 1.5, 1e308, float('inf'), 5e-324], 'complex': [0j, 2.5j], 'bool': [True, False], 'none': [None]}
    for op in OPSYM.values():
        for ka, kb in itertools.product(reps, repeat=2):
            for a in reps[ka]:
                for b in reps[kb]:
                    if op in ('**', '<<') and (kb != 'int' and kb != 'bool' or (isinstance(b, int) and b > 64)):
                        continue
                    out.append('%s%s%s' % (lit_src(ka, a), op, lit_src(kb, b)))
    if tier == 'quick':
        out = [e for i, e in enumerate(out) if i % 4 == 0 or 'j' in e]
    for a, b in itertools.product(['0', '1', '0.0', '2.5', 'True', 'False', '0j', '1j', '2.5j', '10j'], repeat=2):
        for op in ('+', '-', '*'):
            out.append('%s%s%s' % (a, op, b))
    # chains whose inner node is NOT folded (its value would print longer) followed by more operands: any regrouping or identity shortcut
    # changes the value (float rounding), the type (bool -> int, int -> float) or makes a TypeError disappear
    nasty = ['0.1', '-0.1', '0.7', '1e16', '-1e16', '1e-16', '0.3', '1/3' if False else '3.3', '9007199254740993', '2.5j', 'True', 'False', 'None', '1.5', '-0.0']
    small = ['0', '1', '2', '3', '5', '10', '-1', '1.0', '0.0', 'True']
    chains = []
    for x in nasty:
        for op in ('+', '*', '-', '|', '<<', '&', '^', '>>', '//', '%'):
            for c1, c2 in (('3', '5'), ('1', '1'), ('0', '1'), ('1', '0'), ('2', '0.5'), ('1', '1e16'), ('0', '0')):
                chains.append('%s%s%s%s%s' % (x, op, c1, op, c2))
                chains.append('%s%s(%s%s%s)' % (x, op, c1, op, c2))
            for c in small:
                chains.append('%s%s%s' % (x, op, c))
                chains.append('%s%s%s' % (c, op, x))
    if tier == 'quick':
        chains = [e for i, e in enumerate(chains) if i % 5 == common.seed() % 5 or e.startswith(('-0.1*', '1e16', '-1e16+', 'True+', 'True*', '1.5|', 'None+'))]
    out += chains
    n = 250 if tier == 'quick' else 6000
    for _ in range(n):
        out.append(gen_expr(r, r.choice([1, 2, 2, 3])))
    return out


def run_real(expr_src):
    """run the real FoldConstants on `(<expr>,)`, logging every unparse_expression / safe_eval call"""
    import python_minifier.transforms.constant_folding as cf
    from python_minifier.ast_annotation import add_parent
    from python_minifier.rename import add_namespace
    from python_minifier.ast_compare import compare_ast
    log_pr, log_ev = [], []
    orig_unparse, orig_eval = cf.unparse_expression, cf.safe_eval

    def unparse(node):
        t = orig_unparse(node)
        log_pr.append((copy.deepcopy(node), t))
        return t

    def seval(text):
        try:
            v = orig_eval(text)
        except Exception:
            log_ev.append((text, None, True))
            raise
        log_ev.append((text, v, False))
        return v
    mod = ast.parse('(%s,)' % expr_src)
    before = copy.deepcopy(mod.body[0].value)
    add_parent(mod)
    add_namespace(mod)
    cf.unparse_expression, cf.safe_eval = unparse, seval
    try:
        mod = cf.FoldConstants()(mod)
    finally:
        cf.unparse_expression, cf.safe_eval = orig_unparse, orig_eval
    after = mod.body[0].value
    rp = []
    for node, text in log_pr:
        if isinstance(node, ast.Constant) or (isinstance(node, ast.UnaryOp) and isinstance(node.operand, ast.Constant)):
            try:
                ok = True
                compare_ast(node, ast.parse(text, 'folded expression', mode='eval').body)
            except Exception:
                ok = False
            rp.append((node, ok))
    return before, after, log_pr, log_ev, rp


def leg_F(res, es):
    cases, kept, nfolded = [], [], 0
    for e in es:
        try:
            before, after, log_pr, log_ev, rp = run_real(e)
            b, a = coq_ex(before), coq_ex(after)
            prt = '[' + '; '.join('(%s, %s)' % (coq_ex(n), common.coq_N_list(t)) for n, t in log_pr) + ']'
            evt = '[' + '; '.join('(%s, %s)' % (common.coq_N_list(t), 'None' if exc else '(Some %s)' % coq_val(v)) for t, v, exc in log_ev) + ']'
            rpt = '[' + '; '.join('(%s, %s)' % (coq_ex(n), 'true' if ok else 'false') for n, ok in rp) + ']'
        except (ValueError, RecursionError, MemoryError, OverflowError):
            continue
        if a != b:
            nfolded += 1
        cases.append('ex_eqb (fold_tbl %s %s %s %s) %s' % (prt, evt, rpt, b, a))
        kept.append(e)
    header = ['From PM Require Import Model.Base Model.Fold Model.FoldTable.']
    n, failing, raw = common.run_cases('c07F', header, cases, shard=150)
    if failing is None:
        res.broken.append(('correspondence', 'leg F: fold model evaluation failed: ' + raw[-500:]))
    elif failing:
        res.broken.append(('correspondence', 'leg F: Model/Fold.v decides differently from FoldConstants on %d of %d expressions, e.g. %r' % (len(failing), n, kept[failing[0]])))
    return n, nfolded


def strict_same(a, b):
    if type(a) is not type(b):
        return False
    if isinstance(a, float):
        return (math.isnan(a) and math.isnan(b)) or (a == b and math.copysign(1, a) == math.copysign(1, b))
    if isinstance(a, complex):
        return strict_same(a.real, b.real) and strict_same(a.imag, b.imag)
    return a == b


def leg_L(res, tier):
    """sample the premises and the value model against CPython"""
    from python_minifier.transforms.constant_folding import unparse_expression, equal_value_and_type
    from python_minifier.ast_compare import compare_ast
    vals = [0, 1, 5, -1, -7, 2 ** 64, -2 ** 64, True, False, None, 0.0, -0.0, 1.5, -1.5, 5e-324, -5e-324, 1e308, float('inf'), float('-inf'), float('nan'),
            0j, 1j, -1j, 2.5j, -2.5j, complex(0.0, -0.0), complex(-0.0, 0.0), complex(-0.0, -0.0), complex(1, 2), complex(1, -0.0), complex(-1, 0.0), complex(0, float('inf')),
            complex(float('nan'), 1), complex(1, float('nan')), complex(-0.0, 2.5), complex(0.0, -2.5)]
    cases, n_h = [], 0
    for v in vals:
        cases.append('Bool.eqb (repr_neg %s) %s' % (coq_val(v), 'true' if (v is not None and not isinstance(v, bool) and repr(v).startswith('-')) else 'false'))
        if v is not None:
            cases.append('val_eqb (negv %s) %s' % (coq_val(v), coq_val(-v)))
        for w in vals:
            cases.append('Bool.eqb (eqvt %s %s) %s' % (coq_val(v), coq_val(w), 'true' if equal_value_and_type(v, w) else 'false'))
        if v is None or isinstance(v, bool):
            continue
        # premises about candidate Num nodes
        node = ast.Constant(value=v)
        try:
            text = unparse_expression(node)
            ok = True
            compare_ast(node, ast.parse(text, 'x', mode='eval').body)
        except Exception:
            ok = False
        if ok:
            n_h += 1
            x = eval(text, {}, {})
            nonneg = (not isinstance(x, (int, float)) or math.copysign(1, x) > 0) if not isinstance(x, complex) else (math.copysign(1, x.real) > 0 and math.copysign(1, x.imag) > 0)
            if not nonneg:
                res.broken.append(('correspondence', 'leg L: premise HL fails in CPython: Num(%r) prints as %r, re-parses to itself, but evaluates to %r' % (v, text, x)))
            if isinstance(v, complex):
                if not (math.copysign(1, v.real) > 0 and math.copysign(1, v.imag) > 0):
                    res.broken.append(('correspondence', 'leg L: premise HRc fails: complex Num(%r) re-parses to itself but has a sign bit' % (v,)))
            # HE / HEv
            neg = ast.UnaryOp(op=ast.USub(), operand=ast.Constant(value=v))
            try:
                tneg = unparse_expression(neg)
                okn = True
                compare_ast(neg, ast.parse(tneg, 'x', mode='eval').body)
            except Exception:
                okn = False
            if okn:
                y = eval(tneg, {}, {})
                if not strict_same(y, -x):
                    res.broken.append(('correspondence', 'leg L: premise HE fails: %r evaluates to %r, not to the negation of %r' % (tneg, y, x)))
    header = ['From PM Require Import Model.Base Model.Fold Model.FoldTable.']
    n, failing, raw = common.run_cases('c07L', header, cases)
    if failing is None:
        res.broken.append(('correspondence', 'leg L: value model evaluation failed: ' + raw[-400:]))
    elif failing:
        res.broken.append(('correspondence', 'leg L: the value model (repr_neg/negv/eqvt) disagrees with CPython on %d of %d cases, e.g. %s' % (len(failing), n, cases[failing[0]])))
    return n, n_h


def rhs_eval(src):
    try:
        v = eval(compile(ast.Expression(body=ast.parse(src).body[0].value), '<rhs>', 'eval'), {'n': 3}, {})
        return ('ok', v)
    except Exception as e:   # noqa
        return ('raise', type(e).__name__)


def oracle(res, es, tier):
    import python_minifier
    n = 0
    kw = dict(remove_annotations=False, remove_pass=False, combine_imports=False, hoist_literals=False, rename_locals=False, remove_object_base=False,
              convert_posargs_to_args=False, preserve_shebang=False, remove_explicit_return_none=False, remove_builtin_exception_brackets=False)
    ctxs = ['x=%s', 'x=[%s,1]', 'x=f(%s)[%s]', 'def g():\n return %s', 'x=(%s)if(%s)else 0', 'x=-(%s)', 'x=(%s)**2', 'x=(%s).real', 'x={1:%s}', 'lambda:%s']
    # expressions whose value prints exactly as long as, or one character longer than, the expression: in EVERY context
    boundary = ['1<<%d' % k for k in range(13, 21)] + ['3<<15', '5<<15', '7<<12', '2**16', '10**5', '4*25', '99+1', '9*9', '2e0*5', '1e2+0', '100-1', '0xff+1']
    ctxs_all = ctxs + ['x=(%s).bit_length()', 'x=a*(%s)', 'x=(%s)*a', 'x=-(%s)', 'x=a**(%s)', 'x=(%s)**a', 'x=a[(%s)]', 'x=f"{(%s)}"', 'x=(%s)if a else b', 'x=a if(%s)else b', 'x=not(%s)', 'x=a-(%s)', 'x=a<<(%s)', 'x=(%s)in a', 'assert(%s)', 'x=[(%s)for a in b]', 'x=lambda:(%s)', 'x=a.b((%s))', 'x=(%s),']
    pairs = [(ctxs[i % len(ctxs)], e) for i, e in enumerate(es)] + [(c, e) for e in boundary for c in ctxs_all]
    for c, e in pairs:
        src = (c.replace('%s', e)) + '\n'
        try:
            a = python_minifier.minify(src, constant_folding=True, **kw)
            b = python_minifier.minify(src, constant_folding=False, **kw)
        except Exception as ex:   # noqa
            res.add_violation('c07-minify-raises', 'minify raised %s on literal arithmetic' % type(ex).__name__, {'source': src})
            continue
        n += 1
        if len(a) > len(b):
            res.add_violation('c07-longer', 'folding made the output longer (%d > %d)' % (len(a), len(b)), {'source': src, 'folded': a, 'unfolded': b})
        # evaluate the expression itself, in the `x=` context only (others differ by their own structure)
        a1 = python_minifier.minify('x=%s\n' % e, constant_folding=True, **kw)
        ra, rb = rhs_eval('x=%s\n' % e), rhs_eval(a1)
        same = ra[0] == rb[0] and (strict_same(ra[1], rb[1]) if ra[0] == 'ok' else ra[1] == rb[1])
        if not same:
            res.add_violation('c07-value-differs', 'folded expression evaluates to %r, the original to %r' % (rb, ra), {'expression': e, 'folded': a1})
        if 'nan' in a1.replace('n', '', 0) and 'nan' in a1:
            res.add_violation('c07-nan-literal', 'output contains the name nan', {'expression': e, 'folded': a1})
    return n



# ---- the same expressions inside whole modules, in every syntactic context, minified with the DEFAULT options and executed
CTX_MODULE = """import functools
def deco(arg):
    def wrap(fn):
        fn.arg = arg
        return fn
    return wrap
class Base:
    def __init_subclass__(cls, flag=None, **kw):
        cls.flag = flag
@deco({E})
def with_defaults(first={E}, second=({E}), *, third={E}):
    return first, second, third
def annotated(value: ({E}) = None) -> ({E}):
    return value
class Holder(Base, flag={E}):
    attribute = {E}
    def method(self, given={E}):
        return given, self.attribute
handler = lambda picked={E}: (picked, {E})
table = [{E} for _ in range(2)]
mapping = {{({E}): ({E})}}
def body():
    inner = {E}
    def nested(deep={E}):
        return deep, inner
    return nested()
def show(v):
    return type(v).__name__ + ':' + repr(v)
print(show(with_defaults()), show(with_defaults.arg), show(annotated.__annotations__), show(Holder.flag), show(Holder().method()), show(handler()), show(table), show(mapping), show(body()))
"""


# every occurrence inside ONE function (header + body): whatever is hoisted or re-bound lands in that function's namespace
PRE = "def deco(arg):\n    def wrap(fn):\n        fn.arg = arg\n        return fn\n    return wrap\nclass Base:\n    def __init_subclass__(cls, flag=None, **kw):\n        cls.flag = flag\ndef show(v):\n    return type(v).__name__ + ':' + repr(v)\n"
CTX_SINGLE = [
    "def f(value, strict={E}):\n    return [strict, {E}, {E}, {E}, value]\nprint(show(f(0)))\n",
    "def f(*items, fallback={E}):\n    return [fallback, {E}, {E}, {E}, len(items)]\nprint(show(f(1, 2)))\n",
    "@deco({E})\ndef f():\n    return [{E}, {E}, {E}, {E}]\nprint(show(f.arg), show(f()))\n",
    "def f(value: ({E}) = None) -> ({E}):\n    return [{E}, {E}, {E}, value]\nprint(show(f()), show(f.__annotations__))\n",
    "def outer():\n    def inner(deep={E}, *, other={E}):\n        return [deep, other, {E}, {E}, {E}]\n    return inner()\nprint(show(outer()))\n",
    "A = 'unrelated module level value'\nB = 17\ndef f(value, strict={E}):\n    results = [strict, {E}, {E}, {E}]\n    return results\nprint(show(f(0)), A, B)\n",
    "def outer():\n    class K(Base, flag={E}):\n        x = {E}\n        def m(self, given={E}):\n            return [given, {E}, {E}, {E}]\n    return K.flag, K.x, K().m()\nprint(show(outer()))\n",
    "def outer():\n    g = lambda picked={E}: [picked, {E}, {E}, {E}]\n    return g()\nprint(show(outer()))\n",
    "async def f(value, strict={E}):\n    return [strict, {E}, {E}, {E}, value]\nprint(f.__defaults__, f.__name__)\n",
]


def run_module(src):
    import subprocess
    p = subprocess.run([common.PY, '-I', '-c', src], stdout=subprocess.PIPE, stderr=subprocess.PIPE, timeout=60)
    err = p.stderr.decode('utf-8', 'replace').strip().splitlines()
    return p.stdout.decode('utf-8', 'replace'), p.returncode, (err[-1].split(':')[0] if err else '')


def oracle_contexts(res, es, tier):
    """fold(E) in whatever context E appears: defaults, keyword-only defaults, decorator arguments, annotations, class keywords, class
    attributes, lambda defaults, comprehensions, dict displays, nested functions - with every other default option (hoisting, renaming) on"""
    import python_minifier
    from concurrent.futures import ThreadPoolExecutor
    picks = ['True|False', 'True&True', '0.5+0.5', '1.5-0.5', '2-1.0', '0.25*4', '0j+0j', '1-1.0', '1j-1j', '10-100+95', '2*3+4', "100000*10", '7//2', '-5%3', '1<<10', '6^3', '~5+1', '3-True', '0.1+0.2', '1e308*10',
             '2**0.5', '1/3', '(1+2j)*(3-4j)', '5-(2+3)*2']
    picks += [e for i, e in enumerate(es) if i % (97 if tier == 'quick' else 11) == 0 and 'n' not in e.replace('not', '').replace('None', '').replace('in', '')][: 20 if tier == 'quick' else 300]
    jobs = []
    for e in picks:
        src = CTX_MODULE.replace('{E}', e).replace('{{', '{').replace('}}', '}')
        try:
            compile(src, '<ctx>', 'exec', dont_inherit=True)
        except Exception:
            continue
        jobs.append((e, src))
    for e in picks[:12] if tier == 'quick' else picks[:60]:
        for c in CTX_SINGLE:
            src = PRE + c.replace('{E}', e)
            try:
                compile(src, '<ctx>', 'exec', dont_inherit=True)
            except Exception:
                continue
            jobs.append((e, src))

    def one(job):
        e, src = job
        outs = {}
        for label, kw in (('defaults', {'remove_annotations': False}), ('folding-off', {'constant_folding': False, 'remove_annotations': False}), ('folding-only', dict(hoist_literals=False, rename_locals=False, remove_annotations=False))):   # annotations are observed, so they are kept
            try:
                outs[label] = python_minifier.minify(src, **kw)
            except Exception as ex:   # noqa
                outs[label] = ex
        return e, src, run_module(src), {k: (v if isinstance(v, Exception) else (v, run_module(v))) for k, v in outs.items()}
    n = 0
    with ThreadPoolExecutor(12) as ex:
        for e, src, ref, outs in ex.map(one, jobs):
            n += 1
            for label, v in outs.items():
                if isinstance(v, Exception):
                    res.add_violation('c07-minify-raises', 'minify (%s) raised %s on a module with literal arithmetic in header contexts' % (label, type(v).__name__), {'expression': e, 'source': src})
                elif v[1] != ref:
                    res.add_violation('c07-context-behaviour-differs', 'a module with the literal expression %s in default / decorator / annotation / class contexts behaves differently after minify(%s): %r instead of %r'
                                      % (e, label, v[1], ref), {'expression': e, 'source': src, 'options': label, 'output': v[0]})
    return n

def run(pid, tier):
    res = common.Result(pid, tier)
    res.trusted = TRUSTED
    res.assumptions = ['HL, HE, HEv, HRc, Cbin, Cneg, Cctx (see Properties/C07.v)', 'repr(value) of the interpreter is deterministic']
    common.standard_proof_phase(res, [], 'Properties/C07.v', model_targets=['Model/FoldTable.vo'])
    r = common.rng(pid)
    es = exprs(r, tier if not res.broken else 'thorough')
    with common.coq_lock():
        nF, nfolded = leg_F(res, es if tier != 'quick' else es[:700])
        nL, nH = leg_L(res, tier)
    nO = oracle(res, es, tier)
    nC = oracle_contexts(res, es, tier)
    res.samples = es[:3] + es[-3:]
    res.coverage.update({'leg_F_expressions': nF, 'leg_F_expressions_actually_folded': nfolded, 'leg_L_value_model_cases': nL, 'leg_L_candidates_reparsing': nH,
                         'oracle_expressions': nO, 'oracle_context_modules_executed': nC, 'evaluations': nF + nL + nO, 'distinct_nontrivial': len(set(es)),
                         'rule': 'expressions: every operator x operand-kind pair x boundary values, plus random literal trees of depth <= 3 (with names, unary ops); non-trivial = distinct expression text; leg F compares the whole folded tree'})
    if nfolded < 20:
        res.broken.append(('correspondence', 'inconclusive tie: only %d generated expressions were actually folded by the real code' % nfolded))
    return res.finish()
