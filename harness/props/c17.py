"""C17: turning a size optimisation on never makes the output longer, on the pinned corpus (measurement) + cost-model theorems."""
import os, hashlib, collections, warnings
from multiprocessing import Pool
from harness import common

TRUSTED = [
    'Coq 8.16.1 kernel; C17 theorems (cost model, spacing table regenerated from token_printer.py) closed under the global context',
    'translator/tokenrules.py: the previous-token classes after which each emit method inserts a space',
    'the property itself is decided by exhaustive measurement over the finite pinned corpus (corpus/PINNED.sha256: CPython 3.12.1 standard library without tests + /repo/src), computed by CPython, not by the kernel',
]
SIZE_OPTS = ['combine_imports', 'remove_pass', 'remove_annotations', 'remove_object_base', 'remove_builtin_exception_brackets', 'remove_explicit_return_none',
             'convert_posargs_to_args', 'hoist_literals', 'rename_locals', 'rename_globals', 'constant_folding']
ALL = SIZE_OPTS + ['remove_literal_statements', 'preserve_shebang', 'remove_asserts', 'remove_debug']
DEFAULTS = dict(combine_imports=True, remove_pass=True, remove_annotations=True, remove_object_base=True, remove_builtin_exception_brackets=True, remove_explicit_return_none=True,
                convert_posargs_to_args=True, hoist_literals=True, rename_locals=True, rename_globals=False, constant_folding=True, remove_literal_statements=False,
                preserve_shebang=True, remove_asserts=False, remove_debug=False)
OFF = {k: False for k in ALL}


def one(path):
    import python_minifier
    out = []
    try:
        src = open(path, 'rb').read()
    except OSError:
        return path, None, []
    cache = {}

    def m(opts):
        key = tuple(sorted(opts.items()))
        if key not in cache:
            try:
                with warnings.catch_warnings():
                    warnings.simplefilter('ignore')
                    cache[key] = len(python_minifier.minify(src, **opts))
            except Exception as e:   # noqa
                cache[key] = None
        return cache[key]
    for o in SIZE_OPTS:
        for bname, base in (('all-off', OFF), ('defaults-minus', dict(DEFAULTS, **{o: False}))):
            a, b = m(dict(base, **{o: False})), m(dict(base, **{o: True}))
            if a is None or b is None:
                out.append((o, bname, 'raised', a, b))
            elif b > a:
                out.append((o, bname, 'longer', a, b))
            else:
                out.append((o, bname, 'ok', a, b))
    return path, hashlib.sha256(src).hexdigest(), out


def run(pid, tier):
    res = common.Result(pid, tier)
    res.trusted = TRUSTED
    res.assumptions = ['length is measured in characters of the returned text', 'corpus files whose hash no longer matches corpus/PINNED.sha256 are skipped and counted']
    common.standard_proof_phase(res, ['tokenrules'], 'Properties/C17.v')
    pinned = {}
    for line in open(os.path.join(common.VERIF, 'corpus', 'PINNED.sha256')):
        h, rel = line.rstrip('\n').split('  ', 1)
        pinned[rel] = h
    rels = sorted(pinned)
    eff = tier if (not res.broken or tier == 'thorough') else 'search'
    step = {'quick': 20, 'search': 6}.get(eff, 1)
    rels = rels[common.seed() % step::step] if step > 1 else rels
    paths = [os.path.join(common.STDLIB, r) for r in rels]
    srcdir = os.path.join(common.REPO, 'src', 'python_minifier')
    extra = [os.path.join(d, f) for d, _x, fs in os.walk(srcdir) for f in sorted(fs) if f.endswith('.py')]
    with Pool(16) as pool:
        results = pool.map(one, paths + extra, chunksize=4)
    n = skipped = 0
    hist = collections.Counter()
    shrink = collections.Counter()
    for path, h, rows in results:
        rel = os.path.relpath(path, common.STDLIB) if path.startswith(common.STDLIB) else os.path.relpath(path, common.REPO)
        if path.startswith(common.STDLIB) and pinned.get(rel) != h:
            skipped += 1
            continue
        for o, bname, verdict, a, b in rows:
            n += 1
            hist[verdict] += 1
            if verdict == 'ok' and b < a:
                shrink[o] += 1
            if verdict == 'longer':
                res.add_violation('c17-longer:%s:%s:%s' % (rel, o, bname), 'enabling %s on base %s makes %s longer (%d -> %d characters)' % (o, bname, rel, a, b), {'file': rel, 'option': o, 'base': bname, 'without': a, 'with': b})
    res.samples = [{'file': rels[0], 'options': SIZE_OPTS, 'bases': ['all-off', 'defaults-minus-o']}]
    res.coverage.update({'files': len(results) - skipped, 'files_skipped_hash_mismatch': skipped, 'triples_measured': n, 'verdicts': dict(hist), 'triples_where_option_shrinks_output': dict(shrink),
                         'explanation': 'For every pinned corpus file, every size option o and both bases {all off, defaults minus o}: len(minify(S, base+o)) <= len(minify(S, base)) was measured with CPython; quick = every %d-th file (offset by VERIF_SEED), thorough = all files. The Coq theorems cover the local soundness of the cost model only.' % step,
                         'evaluations': n, 'distinct_nontrivial': sum(shrink.values()), 'exhaustive': step == 1,
                         'rule': 'case = (file, option, base); non-trivial = the option actually shrinks the output of that file'})
    return res.finish(level='other')
