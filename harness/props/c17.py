"""C17: turning a size optimisation on never makes the output longer, on the pinned corpus (measurement) + cost-model theorems."""
import os, hashlib, collections, warnings
from multiprocessing import Pool
from harness import common

TRUSTED = [
    'Coq 8.16.1 kernel; C17 theorems (cost model, spacing table regenerated from token_printer.py) closed under the global context',
    'translator/tokenrules.py: the previous-token classes after which each emit method inserts a space',
    'the property itself is decided by exhaustive measurement over the finite pinned corpus (corpus/PINNED.sha256: CPython 3.12.1 standard library; corpus/PINNED_SITE.sha256: the third-party packages of the test environment; + /repo/src), computed by CPython, not by the kernel',
]
SITE = '/venv/lib/python3.12/site-packages'
SIZE_OPTS = ['combine_imports', 'remove_pass', 'remove_annotations', 'remove_object_base', 'remove_builtin_exception_brackets', 'remove_explicit_return_none',
             'convert_posargs_to_args', 'hoist_literals', 'rename_locals', 'rename_globals', 'constant_folding']
ALL = SIZE_OPTS + ['remove_literal_statements', 'preserve_shebang', 'remove_asserts', 'remove_debug']
DEFAULTS = dict(combine_imports=True, remove_pass=True, remove_annotations=True, remove_object_base=True, remove_builtin_exception_brackets=True, remove_explicit_return_none=True,
                convert_posargs_to_args=True, hoist_literals=True, rename_locals=True, rename_globals=False, constant_folding=True, remove_literal_statements=False,
                preserve_shebang=True, remove_asserts=False, remove_debug=False)
OFF = {k: False for k in ALL}


def one(path):
    import python_minifier
    out = []
    if isinstance(path, tuple):          # ('synthetic:<k>', source text): only measured while searching for a witness of a broken obligation
        path, src = path[0], path[1].encode('utf-8')
    else:
        try:
            src = open(path, 'rb').read()
        except OSError:
            return path, None, []
    cache = {}

    def m(opts):
        key = tuple(sorted(opts.items()))
        if key not in cache:
            try:
                with warnings.catch_warnings():
                    warnings.simplefilter('ignore')
                    cache[key] = len(python_minifier.minify(src, **opts))
            except Exception as e:   # noqa
                cache[key] = None
        return cache[key]
    for o in SIZE_OPTS:
        for bname, base in (('all-off', OFF), ('defaults-minus', dict(DEFAULTS, **{o: False}))):
            a, b = m(dict(base, **{o: False})), m(dict(base, **{o: True}))
            if a is None or b is None:
                out.append((o, bname, 'raised', a, b))
            elif b > a:
                out.append((o, bname, 'longer', a, b))
            else:
                out.append((o, bname, 'ok', a, b))
    return path, hashlib.sha256(src).hexdigest(), out



# ------------------------------------------------------------------------------------------------ leg K: the cost accounting
IMPORT_SHAPES = [
    "def stamp(flag):\n    if flag:\n        import time\n        return time.time()\n    else:\n        import time\n        return time.sleep(0) or time.time()\n",
    "import time\nimport time\nprint(time.time(), time.time())\n",
    "def load(kind):\n    if kind:\n        from json import loads\n    else:\n        from json import loads\n    return loads('1'), loads('2')\n",
    "def both():\n    import os\n    import os\n    import os.path\n    return os.sep, os.sep, os.sep, os.sep, os.sep, os.sep\n",
    "try:\n    import cPickle as pickle\nexcept ImportError:\n    import pickle\nprint(pickle.dumps, pickle.loads)\n",
    "def handler(event, context, /, retries=3, *extra, timeout=None, **options):\n    return event, context, retries, extra, timeout, options, event, context\n",
    "def visit(node):\n    match node:\n        case [first, *rest]:\n            return first, rest\n        case {'k': value, **others}:\n            return value, others\n        case str() as text:\n            return text\n",
    "counter = 0\ndef bump():\n    global counter, counter\n    counter += 1\n    return counter\n",
    "def outer():\n    total = 0\n    def inner():\n        nonlocal total\n        total += 1\n        return total\n    try:\n        inner()\n    except ValueError as problem:\n        return problem\n    return total\n",
]


def refkind(node, name):
    import ast
    from python_minifier.rename.util import arg_rename_in_place
    if isinstance(node, ast.Name):
        return 'RName'
    if isinstance(node, (ast.FunctionDef, ast.AsyncFunctionDef, ast.ClassDef)):
        return 'RDef'
    if isinstance(node, ast.ExceptHandler):
        return 'RExcept'
    if isinstance(node, (ast.Global, ast.Nonlocal)):
        return '(RDecl %d)' % len([n for n in node.names if n == name])
    if isinstance(node, ast.alias):
        return 'RAliasPlain' if node.asname is None else 'RAliasAs'
    if isinstance(node, ast.arg):
        return 'RArgInPlace' if arg_rename_in_place(node) else 'RArgRebind'
    if isinstance(node, ast.arguments):
        return '(RStar %d)' % ((node.vararg == name) + (node.kwarg == name))
    if isinstance(node, (ast.MatchAs, ast.MatchStar, ast.MatchMapping)):
        return 'RMatch'
    if type(node).__name__ in ('TypeVar', 'TypeVarTuple', 'ParamSpec'):
        return 'RTypeParam'
    return None


def leg_K(res, sources):
    """Model/Cost.v (additional_byte_cost, old_mention_count, new_mention_count, should_rename) against the real methods of every
    NameBinding of real programs, asked before anything is renamed"""
    import python_minifier, warnings
    from python_minifier.rename.renamer import all_bindings
    from python_minifier.rename.binding import NameBinding, BuiltinBinding
    rows = []
    real = python_minifier.rename

    def wrapper(module, prefix_globals=False, preserved_globals=None):
        for _ns, b in all_bindings(module):
            if type(b) is not NameBinding or not isinstance(b.name, str):
                continue
            kinds = [refkind(n, b.name) for n in b.references]
            if None in kinds:
                continue
            rows.append((kinds, len(b.name), b.additional_byte_cost(), b.old_mention_count(), b.new_mention_count(), [bool(b.should_rename('A' * k)) for k in (1, 2, 3)]))
        return real(module, prefix_globals=prefix_globals, preserved_globals=preserved_globals)
    python_minifier.rename = wrapper
    try:
        for src in sources:
            try:
                with warnings.catch_warnings():
                    warnings.simplefilter('ignore')
                    python_minifier.minify(src, rename_globals=True)
            except Exception:
                continue
    finally:
        python_minifier.rename = real
    seen, cases = set(), []
    for kinds, ln, add, old, new, sh in rows:
        key = (tuple(kinds), ln, add, old, new, tuple(sh))
        if key in seen:
            continue
        seen.add(key)
        cases.append('let r := [%s] in Nat.eqb (additional_byte_cost r) %d && Nat.eqb (old_mention_count r) %d && Nat.eqb (new_mention_count r) %d && %s'
                     % ('; '.join(kinds), add, old, new, ' && '.join('Bool.eqb (should_rename_refs r %d %d) %s' % (ln, k + 1, 'true' if v else 'false') for k, v in enumerate(sh))))
    n, failing, raw = common.run_cases('c17K', ['From PM Require Import Model.Base Gen.TokenRules Model.Cost.', 'Open Scope bool_scope.', 'Open Scope nat_scope.'], cases, shard=300)
    if failing is None:
        res.broken.append(('correspondence', 'leg K: cost model evaluation failed: ' + raw[-400:]))
    elif failing:
        res.broken.append(('correspondence', 'leg K: Model/Cost.v (additional_byte_cost / old_mention_count / new_mention_count / should_rename) disagrees with rename/binding.py on %d of %d distinct bindings, e.g. %s' % (len(failing), n, cases[failing[0]][:300])))
    kinds_seen = collections.Counter(k.strip('()').split()[0] for key in seen for k in key[0])
    return n, dict(kinds_seen)

def run(pid, tier):
    res = common.Result(pid, tier)
    res.trusted = TRUSTED
    res.assumptions = ['length is measured in characters of the returned text', 'corpus files whose hash no longer matches corpus/PINNED.sha256 are skipped and counted']
    common.standard_proof_phase(res, ['tokenrules'], 'Properties/C17.v', model_targets=['Model/Cost.vo'])
    from harness import progs as progs_mod
    rk = common.rng('C17K')
    with common.coq_lock():
        nK, kindsK = leg_K(res, IMPORT_SHAPES + list(progs_mod.DIRECTED) + progs_mod.programs(rk, 150 if tier == 'quick' else 1500))
    pinned = {}
    for line in open(os.path.join(common.VERIF, 'corpus', 'PINNED.sha256')):
        h, rel = line.rstrip('\n').split('  ', 1)
        pinned[rel] = h
    # second pinned corpus: the third-party packages installed in the test environment (typed, modern code)
    for line in open(os.path.join(common.VERIF, 'corpus', 'PINNED_SITE.sha256')):
        h, rel = line.rstrip('\n').split('  ', 1)
        pinned['site-packages/' + rel] = h
    rels = sorted(pinned)
    eff = tier if (not res.broken or tier == 'thorough') else 'search'
    step = {'quick': 20, 'search': 6}.get(eff, 1)
    if step > 1:
        std = [r_ for r_ in rels if not r_.startswith('site-packages/')]
        site = [r_ for r_ in rels if r_.startswith('site-packages/')]
        sstep = max(2, step * 3 // 5)          # the typed third-party corpus is sampled more densely (quick: 1 in 12)
        sample = std[common.seed() % step::step] + site[common.seed() % sstep::sstep]
        # plus the files in which each syntactic feature the size options act on is densest (corpus/FEATURES.json, computed from the pinned files)
        try:
            import json as _json
            dense = {r_ for v in _json.load(open(os.path.join(common.VERIF, 'corpus', 'FEATURES.json'))).values() for r_ in v}
        except Exception:
            dense = set()
        # plus every pinned file a listed finding names: the recorded failures are re-measured on every tier, so that the
        # KNOWN-FINDING lines say what this run saw and a repaired finding stops being printed
        listed = {k['signature'].split(':')[1] for k in common.load_known() if k['property'] == pid and k['signature'].startswith('c17-longer:')}
        rels = sorted(set(sample) | (dense & set(rels)) | (listed & set(rels)))
    paths = [os.path.join(SITE, r[len('site-packages/'):]) if r.startswith('site-packages/') else os.path.join(common.STDLIB, r) for r in rels]
    srcdir = os.path.join(common.REPO, 'src', 'python_minifier')
    extra = [os.path.join(d, f) for d, _x, fs in os.walk(srcdir) for f in sorted(fs) if f.endswith('.py')]
    synthetic = []
    if res.broken:
        # an obligation is broken: also look for a witness among small synthetic modules around the modelled cost accounting
        synthetic = [('synthetic:%d' % k, src) for k, src in enumerate(IMPORT_SHAPES + list(progs_mod.DIRECTED) + progs_mod.programs(rk, 200))]
    with Pool(16) as pool:
        results = pool.map(one, paths + extra + synthetic, chunksize=4)
    n = skipped = 0
    hist = collections.Counter()
    shrink = collections.Counter()
    for path, h, rows in results:
        rel = path if path.startswith('synthetic:') else 'site-packages/' + os.path.relpath(path, SITE) if path.startswith(SITE) else os.path.relpath(path, common.STDLIB) if path.startswith(common.STDLIB) else os.path.relpath(path, common.REPO)
        if (path.startswith(common.STDLIB) or path.startswith(SITE)) and pinned.get(rel) != h:
            skipped += 1
            continue
        for o, bname, verdict, a, b in rows:
            n += 1
            hist[verdict] += 1
            if verdict == 'ok' and b < a:
                shrink[o] += 1
            if verdict == 'longer':
                if rel.startswith('synthetic:') and o == 'hoist_literals':
                    continue      # the hoisting cost model is known not to price spacing/indentation (C17_hoist_cost_model_refuted); synthetic witnesses are only sought for the other options
                det = {'file': rel, 'option': o, 'base': bname, 'without': a, 'with': b}
                if rel.startswith('synthetic:'):
                    det['source'] = dict(synthetic)[rel]
                res.add_violation('c17-longer:%s:%s:%s' % (rel, o, bname), 'enabling %s on base %s makes %s longer (%d -> %d characters)' % (o, bname, rel, a, b), det)
    res.samples = [{'file': rels[0], 'options': SIZE_OPTS, 'bases': ['all-off', 'defaults-minus-o']}]
    res.coverage.update({'leg_K_distinct_bindings_compared': nK, 'leg_K_reference_kinds': kindsK, 'files': len(results) - skipped, 'files_skipped_hash_mismatch': skipped, 'triples_measured': n, 'verdicts': dict(hist), 'triples_where_option_shrinks_output': dict(shrink),
                         'explanation': 'For every pinned corpus file, every size option o and both bases {all off, defaults minus o}: len(minify(S, base+o)) <= len(minify(S, base)) was measured with CPython; quick = every %d-th file (offset by VERIF_SEED) plus the feature-dense files of corpus/FEATURES.json, thorough = all files. The Coq theorems cover the local soundness of the cost model only.' % step,
                         'evaluations': n, 'distinct_nontrivial': sum(shrink.values()), 'exhaustive': step == 1,
                         'rule': 'case = (file, option, base); non-trivial = the option actually shrinks the output of that file'})
    return res.finish(level='other')
