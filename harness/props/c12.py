"""C12: minifying never runs code taken from the input."""
import io, json, subprocess, tokenize, itertools, collections, sys, os
from harness import common, fstr

TRUSTED = [
    'Coq 8.16.1 kernel; every C12 theorem closed under the global context',
    'Model/MiniString.v: hand transcription of MiniString.to_short/to_long, tied to ministring.py by vm_compute correspondence on generated strings on every run',
    'scan_short/scan_long: reference scanner for Python string literals (specification), sampled against tokenize on the same texts',
    'translator/evalsites.py: lists every eval/exec/compile/import/open/process/socket call site and the operand guard of FoldConstants.visit_BinOp',
    'audit-hook monitor (sys.addaudithook in a fresh process): every compile-for-exec event during minify() is tokenized and must be a closed literal expression',
    'not modelled in Coq: f_string.Str/Bytes quote selection (covered by the monitor only), CPython eval itself',
]
ALPHABET = ["'", '"', '\\', '\n', '\r', '\0', '{', '}', 'a', 'é', '\ud800', '\U0001f600', ' ', '#']
ALLOWED_NAMES = {'True', 'False', 'None'}
ALLOWED_OPS = set('+ - * / // % @ << >> & | ^ ~ ( ) **'.split())


def classify(text):
    """None when text is a closed literal expression, else the reason"""
    # a lone surrogate is ordinary string content for this purpose (the real eval of such a text fails before anything runs and is retried with escapes)
    text = ''.join('x' if '\ud800' <= c <= '\udfff' else c for c in text)
    try:
        toks = list(tokenize.generate_tokens(io.StringIO(text).readline))
    except Exception as e:   # noqa
        return 'does not tokenize: %r' % e
    for tk in toks:
        if tk.type in (tokenize.NUMBER, tokenize.STRING, tokenize.NEWLINE, tokenize.NL, tokenize.ENDMARKER, tokenize.INDENT, tokenize.DEDENT, tokenize.COMMENT):
            continue
        if tk.type == tokenize.NAME and tk.string in ALLOWED_NAMES:
            continue
        if tk.type == tokenize.OP and tk.string in ALLOWED_OPS:
            continue
        if tk.type in (getattr(tokenize, 'FSTRING_START', -1), getattr(tokenize, 'FSTRING_MIDDLE', -1), getattr(tokenize, 'FSTRING_END', -1)):
            return 'f-string evaluated'
        return 'token %s %r' % (tokenize.tok_name[tk.type], tk.string)
    return None


def crafted_strings(r, tier):
    out = ['', 'a']
    for a, b in itertools.product(ALPHABET, repeat=2):
        out += [a + b, 'x' + a + b, a + b + 'x', a + 'x' + b]
    out += ["'+__import__('os').system('echo pwned')+'", '"+__import__("os").system("echo pwned")+"', "\\'+exec('1')+\\'", "''' + open('/etc/passwd').read() + '''",
            '""" + __import__("os").getcwd() + """', '\\', '\\\\\'', "\\N{BULLET}", '{__import__("os")}', "'''", '"""', "\\'''", 'a' * 300 + "'"]
    # escape-then-quote and quote-then-code shapes, for both quote characters, with a trailing comment
    for q in ("'", '"'):
        for pre in ('\\', 'a\\', '\\\\', ''):
            for tail in ('+str(1)#', '+__import__("os").getcwd()#', "+str(open('m','w').close())#", ')+(1', '+str(1)+' + q):
                out.append(pre + q + tail)
                out.append('x' + pre + q + tail + q)
        out.append(q * 3 + '+str(1)+' + q * 3)
        out.append(q * 3 + '+str(open("m","w").close())+' + q * 3 + ' {value}')
    # a lone surrogate (first eval fails, a retry path runs) followed by a quote and code
    for q in ("'", '"'):
        for sur in ('\udc80', '\ud800x', 'a\udfff'):
            out.append(sur + q + "+str(open('m','w').close())+" + q)
            out.append(sur + q + '+__import__("os").getcwd()#')
            out.append(sur + '\\' + q + '+str(1)#')
            out.append(sur + '\n' + q + '+str(1)+' + q)
    n = 60 if tier == 'quick' else 2000
    for _ in range(n):
        out.append(''.join(r.choice(ALPHABET) for _ in range(r.randint(1, 9))))
    return out


def programs(r, tier):
    progs = []
    strs = crafted_strings(r, tier)
    if tier == 'quick':
        strs = strs[:2] + [s for i, s in enumerate(strs[2:]) if i % 4 == 0 or '#' in s or '+str' in s]
    for s in strs:
        if '\ud800' in s:
            lit = "'" + ''.join('\\ud800' if c == '\ud800' else ('\\x%02x' % ord(c) if c in "'\\\n\r\0" else c) for c in s) + "'"
        else:
            lit = repr(s)
        esc = s.replace('{', '{{').replace('}', '}}')
        # outer literal text of an f-string (MiniString), nested string constant (f_string.Str), nested bytes (f_string.Bytes)
        progs.append('v = 1\nx = f"{v}" + ' + lit + '\ny = f"{v!r:>{v}}{' + lit + '}"\n')
        if '\0' not in s and '\ud800' not in s and '\\' not in s and '\n' not in s and '\r' not in s and "'" not in s and '"' not in s:
            progs.append('v = 1\nz = f"' + esc + '{v}' + esc + '"\n')
        try:
            b = s.encode('latin-1')
            progs.append('v = 1\nw = f"{' + repr(b) + '}{v}"\n')
            # the same bytes as a plain constant (ordinary expression printer), alone and next to a string
            progs.append('v = 1\nplain = ' + repr(b) + '\npair = (' + repr(b) + ', ' + lit + ')\n')
        except UnicodeEncodeError:
            pass
        progs.append('v = 2\nq = f' + repr(s.replace('{', '').replace('}', '').replace('\ud800', '?').replace('\0', '')) [0:] .replace('\\x00', '') + '\n' if False else 'v = 2\n')
    # f-strings whose literal part is given through escapes
    for s in strs[:400]:
        body = ''.join('{{' if c == '{' else '}}' if c == '}' else '\\x%02x' % ord(c) if ord(c) < 256 and c in "'\"\\\n\r\0" else '\\ud800' if c == '\ud800' else c for c in s)
        progs.append('v = 3\nu = f"' + body + '{v}"\n')
    # literal arithmetic: all operators, mixed operand types, non-finite values
    nums = ['0', '1', '7', '255', '65536', '10**3', '0.0', '1.5', '1e308', '5e-324', '1e999', '1j', '0j', '2.5j', 'True', 'False', 'None', '0x10', '1_000']
    ops = ['+', '-', '*', '/', '//', '%', '**', '<<', '>>', '&', '|', '^', '@']
    exprs = []
    for a, op, b in itertools.product(nums, ops, nums):
        exprs.append('%s %s %s' % (a, op, b))
    if tier == 'quick':
        exprs = [e for i, e in enumerate(exprs) if i % 9 == 0]
    for k in range(0, len(exprs), 40):
        progs.append('\n'.join('a%d = (%s) * (2 + 3)' % (i, e) for i, e in enumerate(exprs[k:k + 40])) + '\n')
    progs.append('x = 1e999 + 1j\ny = 1e999 * 1j\nz = (1e999 - 1e999) * 2\n')
    # names next to literals must never be evaluated
    progs.append("import os\nx = 1 + os.getpid() + 2 * 3\ny = 'a' + str(1 + 1)\nz = len('abc') + 1\nw = (1).__class__ + 2\n")
    # a literal next to ANY non-literal operand (every expression kind, also under unary operators, nested, on either side) must not be evaluated
    nonlit = ['v', 'len([])', "open('/dev/null').close()", "__import__('os').getpid()", 'v.real', 'v[0]', '-len([])', '+len([])', '~len([])', 'not len([])', '- -len([])', '-v', '-(v)', '-v.real',
              '(lambda: 1)()', "f'{v}'", '[i for i in ()]', '(w := 3)', '(1 if v else 2)', "'a'.join(())", '(1).__class__', '-open("/dev/null").fileno()', '-(1).real', '-1 .real', '-True.real', '(-1).real',
              '-(2, 3)[0]', '-[1][0]', "-{'k': 1}['k']", '-abs(-1)', '-int("1")', '-(yield)' if False else '-id(0)', '-1j.imag.real', '- - -len("a")']
    ops12 = ['+', '-', '*', '/', '//', '%', '**', '<<', '>>', '&', '|', '^', '@']
    lines = []
    k = 0
    for e in nonlit:
        for op in (ops12 if tier != 'quick' else [ops12[(k + j) % len(ops12)] for j in range(4)]):
            k += 1
            lines += ['a%d = %s %s 2' % (k, e, op), 'b%d = 2 %s %s' % (k, op, e), 'c%d = (%s %s 2) %s 3' % (k, e, op, op), 'd%d = -1 %s %s' % (k, op, e), 'e%d = %s %s -1' % (k, e, op)]
    for j in range(0, len(lines), 30):
        progs.append('v = 1\n' + '\n'.join(lines[j:j + 30]) + '\n')
    progs += fstr.sources(r, 100 if tier == 'quick' else 1500)
    return [p for p in progs if p != 'v = 2\n']


def monitor(res, progs, tier):
    cases = []
    optsets = [{}, {'remove_literal_statements': True, 'rename_globals': True, 'remove_asserts': True, 'remove_debug': True},
               {'hoist_literals': False, 'rename_locals': False, 'constant_folding': True}]
    for i, p in enumerate(progs):
        try:
            p.encode('utf-8')
        except UnicodeEncodeError:
            continue
        try:
            compile(p, '<case>', 'exec', dont_inherit=True, flags=0x400)   # PyCF_ONLY_AST: must at least parse
        except Exception:
            continue
        cases.append({'source': p, 'options': optsets[i % len(optsets)]})
    chunks = [cases[k::8] for k in range(8)]

    def run(chunk):
        if not chunk:
            return []
        with common.scratch('c12mon-') as cwd:      # whatever a wrongly evaluated input text writes lands in a scratch directory
            p = subprocess.run([common.PY, os.path.join(common.VERIF, 'harness', 'audit_worker.py')], input=json.dumps(chunk).encode('utf-8', 'surrogatepass'), cwd=cwd,
                               stdout=subprocess.PIPE, stderr=subprocess.PIPE, env=dict(os.environ, PYTHONPATH=common.SRC), timeout=3000)
            litter = sorted(os.listdir(cwd))
        try:
            outs = json.loads(p.stdout) if p.returncode == 0 else None
        except ValueError:
            outs = None
        if outs is None or len(outs) != len(chunk):
            # the monitored process died or its report is unusable: something other than minification ran in it
            res.add_violation('c12-monitor-process-disturbed', 'the monitored minify process exited %d / produced an unusable report (stderr: %s)' % (p.returncode, p.stderr.decode('utf-8', 'replace')[-300:]),
                              {'sources': [c['source'] for c in chunk][:20]})
            return [{'error': None, 'events': []} for _ in chunk]
        if litter:
            res.add_violation('c12-files-created', 'minify created files in its working directory: %s' % litter[:5], {'sources': [c['source'] for c in chunk][:20], 'files': litter[:20]})
        return outs
    from concurrent.futures import ThreadPoolExecutor
    with ThreadPoolExecutor(8) as ex:
        results = list(ex.map(run, chunks))
    n_eval = 0
    kinds = collections.Counter()
    seen_texts = set()
    for chunk, outs in zip(chunks, results):
        for case, out in zip(chunk, outs):
            last_string_compile = None
            for ev in out['events']:
                if ev[0] == 'compile':
                    if ev[2] == '<string>':
                        last_string_compile = ev[1]
                        # every text handed to eval()/compile() is classified, whether or not it then compiles and runs
                        why0 = None if ev[1] is None else classify(ev[1])
                        if why0:
                            res.add_violation('c12-eval-not-closed-literal', 'a text that is not a closed literal expression (%s) was handed to eval()/compile(): %r' % (why0, ev[1][:120]),
                                              {'source': case['source'], 'options': case['options'], 'evaluated': ev[1]})
                elif ev[0] == 'exec':
                    n_eval += 1
                    if ev[1] != '<string>':
                        res.add_violation('c12-exec-nonliteral-code', 'a code object from %r was executed during minify' % ev[1], {'source': case['source'], 'options': case['options']})
                        continue
                    text = last_string_compile
                    why = 'source text unavailable' if text is None else classify(text)
                    if text is not None:
                        seen_texts.add(text)
                    kinds['eval'] += 1
                    if why:
                        names = set(ev[2])
                        sig = 'c12-eval-inf-nan-name' if (names and names <= {'inf', 'nan', 'infj', 'nanj'}) else 'c12-eval-not-closed-literal'
                        res.add_violation(sig, 'eval() of a text that is not a closed literal expression (%s): %r' % (why, (text or '')[:120]), {'source': case['source'], 'options': case['options'], 'evaluated': text})
                else:
                    if ev[0] == 'import' and (ev[1].startswith("'encodings") or ev[1] in ("'unicodedata'", "'_string'", "'stringprep'")):
                        kinds['import-codec'] += 1
                        continue
                    kinds[ev[0]] += 1
                    res.add_violation('c12-' + ev[0].replace('.', '-'), 'audit event %s %s during minify' % (ev[0], ev[1]), {'source': case['source'], 'options': case['options']})
    return len(cases), n_eval, kinds, sorted(seen_texts, key=len)[-3:]


def correspondence(res, r, tier):
    from python_minifier.ministring import MiniString
    strs = [s for s in crafted_strings(r, tier)]
    if tier == 'quick':
        strs = strs[:2] + [s for i, s in enumerate(strs[2:]) if i % 3 == 0]
    cases = []
    for s in strs:
        for quote in ("'", '"', "'''", '"""'):
            for safe in (False, True):
                m = MiniString(s, quote)
                m.safe_mode = safe
                exp = m.to_short() if len(quote) == 1 else m.to_long()
                f = 'to_short' if len(quote) == 1 else 'to_long'
                cases.append('text_eqb (%s %s %d%%N %s) %s' % (f, 'true' if safe else 'false', ord(quote[0]), common.coq_N_list(s), common.coq_N_list(exp)))
    header = ['From PM Require Import Model.Base Model.MiniString.']
    n, failing, raw = common.run_cases('c12', header, cases)
    if failing is None:
        res.broken.append(('correspondence', 'MiniString model evaluation failed: ' + raw[-500:]))
    elif failing:
        res.broken.append(('correspondence', 'Model/MiniString.v disagrees with ministring.py on %d of %d (string, quote, mode) cases, e.g. %s' % (len(failing), n, cases[failing[0]][:200])))
    # the reference scanner vs CPython's tokenizer on quote+body+quote (validates the specification side)
    bad = 0
    for s in strs[:300]:
        for quote in ("'", '"', "'''", '"""'):
            m = MiniString(s, quote)
            body = m.to_short() if len(quote) == 1 else m.to_long()
            text = quote + body + quote
            if '\0' in text or '\ud800' in text:
                continue
            why = classify(text)
            if why:
                bad += 1
                res.add_violation('c12-ministring-not-closed', 'MiniString produced a text that is not one string literal (%s)' % why, {'string': s, 'quote': quote, 'text': text})
    return n, len(strs)



def leg_Q(res, r, tier):
    """Model/FStr.v against f_string.Str / f_string.Bytes: for crafted values, the four texts the real __str__ hands to eval() (one per
    starting quote, in order) are the model's candidates; and during real minify runs every Str/Bytes is created with the full quote list
    and pep701 on (the configuration the theorems are about)"""
    import builtins, warnings
    import python_minifier
    import python_minifier.f_string as fs
    full = ['"', "'", '"""', "'''"]
    qcoq = ['{| qc := 34; qlong := false |}', '{| qc := 39; qlong := false |}', '{| qc := 34; qlong := true |}', '{| qc := 39; qlong := true |}']
    rec = []
    had = hasattr(fs, 'eval')
    fs.eval = lambda s_: (rec.append(s_), builtins.eval(s_))[1]
    strs = [x for x in crafted_strings(r, tier) if x != ''] + ['\r', 'a\rb', '\x00', 'a\x001', '\ud800', 'x\udfffy', '\n', "\n'\r\"", 'é"中\'', "'" * 7, '"' * 7, '\'"' * 5]
    if tier == 'quick':
        strs = strs[:250] + strs[-14:]
    cases = []
    try:
        for s_ in strs:
            del rec[:]
            try:
                with warnings.catch_warnings():
                    warnings.simplefilter('ignore')
                    str(fs.Str(s_, list(full), True))
            except Exception:
                pass
            if len(rec) == 4:
                cases.append(' && '.join('opt_text_eqb (str_candidate %s %s) (Some %s)' % (qcoq[i], common.coq_N_list(s_), common.coq_N_list(rec[i])) for i in range(4)))
            else:
                cases.append('false')
            try:
                b_ = s_.encode('latin-1')
            except UnicodeEncodeError:
                continue
            del rec[:]
            try:
                with warnings.catch_warnings():
                    warnings.simplefilter('ignore')
                    str(fs.Bytes(b_, list(full), True))
            except Exception:
                pass
            if len(rec) == 4:
                cases.append(' && '.join('opt_text_eqb (bytes_candidate %s %s) (Some %s)' % (qcoq[i], common.coq_N_list(list(b_)), common.coq_N_list(rec[i])) for i in range(4)))
            else:
                cases.append('false')
    finally:
        if had:
            fs.eval = builtins.eval
        else:
            del fs.eval
    n, failing, raw = common.run_cases('c12Q', ['From PM Require Import Model.Base Model.Renamer Model.MiniString Model.FStr.', 'Open Scope bool_scope.'], cases, shard=200)
    if failing is None:
        res.broken.append(('correspondence', 'leg Q: f-string literal model evaluation failed: ' + raw[-500:]))
    elif failing:
        res.broken.append(('correspondence', 'leg Q: Model/FStr.v disagrees with f_string.Str/Bytes (texts passed to eval for the four starting quotes) on %d of %d values, e.g. %s' % (len(failing), n, cases[failing[0]][:300])))
    # the configuration: full quote list and pep701 on, for every nested constant of real runs
    seen = collections.Counter()
    o_str, o_bytes = fs.Str.__init__, fs.Bytes.__init__

    def w_str(self, s_, allowed_quotes, pep701=False):
        seen[('Str', tuple(allowed_quotes), bool(pep701))] += 1
        return o_str(self, s_, allowed_quotes, pep701)

    def w_bytes(self, b_, allowed_quotes, *a, **k):
        pep = (a[0] if a else k.get('pep701', False))
        seen[('Bytes', tuple(allowed_quotes), bool(pep))] += 1
        return o_bytes(self, b_, allowed_quotes, *a, **k)
    fs.Str.__init__, fs.Bytes.__init__ = w_str, w_bytes
    try:
        for src in fstr.sources(r, 60 if tier == 'quick' else 600):
            try:
                with warnings.catch_warnings():
                    warnings.simplefilter('ignore')
                    python_minifier.minify(src)
            except Exception:
                pass
    finally:
        fs.Str.__init__, fs.Bytes.__init__ = o_str, o_bytes
    odd = [k for k in seen if k[1] != tuple(full) or not k[2]]
    if odd or not seen:
        res.broken.append(('correspondence', 'leg Q: nested string/bytes constants are rendered with a configuration the theorems do not cover (quote list / pep701): %r' % (odd[:3] or 'no nested constant was rendered')))
    return n, sum(seen.values())

def run(pid, tier):
    res = common.Result(pid, tier)
    res.trusted = TRUSTED
    res.assumptions = ['CPython evaluates a single string/number literal token without side effects', 'codec imports (encodings.*) triggered by a PEP 263 cookie are the interpreter\'s decoder, not evaluation of input']
    common.standard_proof_phase(res, ['evalsites'], 'Properties/C12.v', model_targets=['Model/MiniString.vo', 'Model/FStr.vo', 'Model/Renamer.vo'])
    r = common.rng(pid)
    with common.coq_lock():
        ncases, nstr = correspondence(res, r, tier)
        nQ, nQcfg = leg_Q(res, r, tier)
    progs = programs(r, tier if not res.broken else 'thorough')
    ncase, n_eval, kinds, samples = monitor(res, progs, tier)
    res.samples = [{'evaluated_text': t_} for t_ in samples] + [{'program': progs[5]}]
    res.coverage.update({'leg_Q_fstring_values_compared': nQ, 'leg_Q_nested_constants_rendered_with_full_quotes_and_pep701': nQcfg, 'model_cases_compared': ncases, 'strings': nstr, 'monitored_minify_calls': ncase, 'eval_events_classified': n_eval,
                         'evaluations': ncase + ncases, 'distinct_nontrivial': len(set(progs)) + nstr,
                         'rule': 'model case = (string, quote, safe mode) through Model/MiniString.v vs ministring.py; monitored case = program with crafted strings/bytes/f-strings/literal arithmetic minified under an audit hook; non-trivial = distinct program text',
                         'audit_event_histogram': dict(kinds)})
    return res.finish()
