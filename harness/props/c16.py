"""C16: shebang / encodings / line endings."""
import os, re, ast, itertools, collections
from harness import common, astcmp

TRUSTED = [
    'Coq 8.16.1 kernel; every C16 theorem closed under the global context',
    'translator/pipeline.py: the two regexes of _find_shebang (tiny regex subset, fail-closed), the statement list of minify()',
    'Model/PipelineBase.v: semantics of the regex subset (re.match, greedy star, `.` excludes \\n)',
    'Model/Shebang.v first_line: specification of the first physical line (ends at first \\n or \\r)',
    'decoding of source bytes (cookie/BOM), repr() of strings and UTF-8 decoding of the matched shebang bytes are CPython\'s: sampled by the oracle, not modelled',
]
PROGRAMS = [
    'x = 1\nprint(x)\n',
    's = "h\u00e9llo w\u00f6rld \u20ac"\nb = b"\\xff\\x00abc"\nprint(s, b)\n',
    'def f(a, b=2):\n    """doc \u4e2d\u6587"""\n    return a + b\nprint(f(1))\n',
    's = "tab\\there" "\\u2028" \'\\N{BULLET}\'\nt = r"raw\\n"\n',
    'class A:\n    x = "\u00ff\u00fe"\n    def m(self):\n        return "\U0001f600"\n',
    # modules whose body is empty or becomes empty: the first-line rule does not depend on there being a program
    '', '# only a comment\n', '\n\n', '# -*- coding: utf-8 -*-\n# second comment\n',
]
SHEBANGS = [None, '#!/usr/bin/env python', '#!/bin/sh -x', '#! /usr/bin/python3 -u', '#!', '#!/opt/\u00e9t\u00e9/python', '#!x#!y',
            # characters that str.splitlines() treats as line boundaries but the tokenizer does not; tabs; a cookie-shaped comment on the shebang line
            '#!/usr/bin/env\x0cpython', '#!/usr/bin/py\x0bthon -u', '#!/usr/bin/python\x1c-x', '#!/opt/py\x85thon', '#!/usr/bin/env python\u2028-O', '#!/usr/bin/env python\u2029', '#!/usr/bin/env\tpython\t',
            '#!/usr/bin/python # -*- coding: latin-1 -*-']
NEWLINES = ['\n', '\r\n', '\r']
ENCODINGS = [('utf-8', None), ('utf-8-sig', None), ('latin-1', 'latin-1'), ('cp1252', 'cp1252'), ('utf-8', 'utf-8'), ('iso-8859-15', 'iso-8859-15')]


def first_line(text):
    return re.split(r'\r\n|\r|\n', text, maxsplit=1)[0]


def build(prog, shebang, nl, enc, cookie):
    lines = prog.split('\n')
    head = []
    if shebang is not None:
        head.append(shebang)
    if cookie:
        head.append('# -*- coding: %s -*-' % cookie)
    text = nl.join(head + lines)
    try:
        return text, text.encode(enc)
    except UnicodeEncodeError:
        return text, None


def oracle(res, tier, r):
    import python_minifier
    n = 0
    hist = collections.Counter()
    combos = list(itertools.product(range(len(PROGRAMS)), SHEBANGS, NEWLINES, ENCODINGS))
    if tier == 'quick':
        combos = [c for i, c in enumerate(combos) if i % 3 == 0]
    for pi, sb, nl, (enc, cookie) in combos:
        prog = PROGRAMS[pi]
        text, data = build(prog, sb, nl, enc, cookie)
        ref = astcmp.dump(ast.parse(prog))
        for kind, src in (('text', text), ('bytes', data)):
            if src is None:
                continue
            if kind == 'text' and cookie and cookie.lower() not in ('utf-8',):
                continue      # a str source with a non-utf8 cookie is not a faithful rendering of anything
            # what the source denotes: for bytes, what the interpreter reads from them (BOM / cookie, also a cookie-shaped comment on the #! line)
            try:
                ref = astcmp.dump(ast.parse(src))
            except (SyntaxError, ValueError):
                continue
            for preserve, extra in [(True, {}), (False, {})] + ([(True, {'remove_literal_statements': True})] if len(prog) < 50 else []):
                n += 1
                hist['%s/%s/%s/%s' % (kind, enc, repr(nl), 'shebang' if sb else 'none')] += 1
                sig_base = {'program': prog, 'shebang': sb, 'newline': nl, 'encoding': enc, 'cookie': cookie, 'kind': kind, 'preserve_shebang': preserve, 'options': extra}
                try:
                    out = python_minifier.minify(src, preserve_shebang=preserve, rename_locals=False, hoist_literals=False, **extra)
                except Exception as e:
                    nonutf = kind == 'bytes' and sb is not None
                    if nonutf:
                        try:
                            data.split(b'\n')[0].split(b'\r')[0].decode('utf-8')
                            nonutf = False
                        except UnicodeDecodeError:
                            pass
                    res.add_violation('c16-bytes-shebang-non-utf8' if (nonutf and isinstance(e, UnicodeDecodeError)) else 'c16-raises',
                                      'minify raised %s for a valid source' % type(e).__name__, dict(sig_base, error=repr(e)))
                    continue
                body = out
                # a UTF-8 BOM in front means the bytes do not start with #!: no shebang line in the sense of the property
                has_shebang = sb is not None and not (kind == 'bytes' and enc == 'utf-8-sig')
                if has_shebang and preserve:
                    fl = first_line(out)
                    if fl != sb:
                        res.add_violation('c16-first-line', 'first line of the output is %r, the source\'s shebang line is %r' % (fl[:60], sb), dict(sig_base, output=out))
                        continue
                    body = out[len(fl):].lstrip('\r').lstrip('\n') if True else out
                elif out.startswith('#!'):
                    res.add_violation('c16-shebang-not-dropped', 'shebang present although preserve_shebang is off', dict(sig_base, output=out))
                    continue
                try:
                    # "the minified result, encoded as UTF-8": parsed from BYTES, as the interpreter would read the file (BOM / cookie honoured)
                    got = astcmp.dump(ast.parse(out.encode('utf-8')))
                except UnicodeEncodeError:
                    got = astcmp.dump(ast.parse(out))
                except SyntaxError as e:
                    res.add_violation('c16-output-unparseable', 'output does not parse: %r' % e, dict(sig_base, output=out))
                    continue
                if got != ref:
                    res.add_violation('c16-shebang-line-carries-coding-cookie' if (preserve and sb and re.search(r'coding[:=]\s*([-\w.]+)', sb)) else 'c16-program-differs', 'minified output denotes a different program (constants/structure) than the source', dict(sig_base, output=out))
                    continue
                try:
                    out.encode('utf-8')
                except UnicodeEncodeError as e:
                    res.add_violation('c16-not-utf8-encodable', 'result cannot be encoded as UTF-8: %r' % e, dict(sig_base, output=out))
        if data is not None and enc == 'utf-8' and not cookie and not (sb and 'coding' in sb):
            for preserve in (True, False):
                try:
                    a = python_minifier.minify(text, preserve_shebang=preserve)
                    b = python_minifier.minify(data, preserve_shebang=preserve)
                except Exception:
                    continue
                n += 1
                if a != b:
                    res.add_violation('c16-bytes-text-differ', 'minify(bytes) != minify(text) for the same UTF-8 source', {'program': prog, 'shebang': sb, 'newline': nl, 'text_out': a, 'bytes_out': b})
    return n, hist


def oracle_cli(res):
    """the command line tool is one more way the bytes reach minify and leave it: what it writes (the minified module, or the untouched
    original when that would be larger) must denote, read as a file, the program the source bytes denote"""
    import subprocess
    srcs = [b'#coding:latin-1\nx="' + b'\xe9' * 24 + b'"\n', b'# -*- coding: latin-1 -*-\nname  =  "caf\xe9 cr\xe8me"\nprint(name)\n', b'#!/usr/bin/python\n# vim: set fileencoding=iso-8859-15 :\ntitle  =  "\xa4 \xe9t\xe9"\n',
            b'#coding:cp1252\r\ns="\x80\x99"\r\n', b'\xef\xbb\xbfs = "\xc3\xa9"\n', 's="\u00e9\u4e2d"\n'.encode('utf-8'), b'#coding:koi8-r\nz="\xc1\xc2\xd7"*3\n',
            # legacy encodings whose bytes happen to be well-formed UTF-8 too: the cookie, not the look of the bytes, decides
            b'# -*- coding: latin-1 -*-\nlabel  =  "\xc3\xa9\xc3\xa8"\nprint(len(label))\n', b'#coding:cp1251\nword  =  "\xd0\xb0\xd0\xb1\xd0\xb2"\nprint(len(word))\n',
            b'#coding:cp1252\nquote  =  "\xe2\x80\x9c"\nprint(len(quote))\n', b'#coding:utf-7\nacute  =  "+AOk-"\nprint(len(acute))\n', b'#!/bin/sh\n#coding:latin-1\nb  =  "\xc2\xa0"\n']
    n = 0
    for src in srcs:
        try:
            ref = astcmp.dump(ast.parse(src))
        except (SyntaxError, ValueError):
            continue
        with common.scratch('c16cli-') as d:
            path = os.path.join(d, 'legacy.py')
            open(path, 'wb').write(src)
            env = dict(os.environ, PYTHONPATH=common.SRC)
            env.pop('PYMINIFY_FORCE_BEST_EFFORT', None)
            for mode in ('stdout', 'output', 'inplace', 'stdin'):
                open(path, 'wb').write(src)
                argv = [common.PY, '-m', 'python_minifier', '-' if mode == 'stdin' else 'legacy.py'] + (['--output', 'out.py'] if mode == 'output' else ['--in-place'] if mode == 'inplace' else [])
                p = subprocess.run(argv, cwd=d, env=env, input=src if mode == 'stdin' else None, stdout=subprocess.PIPE, stderr=subprocess.PIPE, timeout=120)
                n += 1
                got = p.stdout if mode in ('stdout', 'stdin') else open(os.path.join(d, 'out.py' if mode == 'output' else 'legacy.py'), 'rb').read() if p.returncode == 0 else b''
                if p.returncode != 0:
                    res.add_violation('c16-cli-fails', 'pyminify exits %d on a valid legacy-encoded module' % p.returncode, {'source_bytes': repr(src), 'mode': mode, 'stderr': p.stderr.decode('utf-8', 'replace')[-300:]})
                    continue
                try:
                    out = astcmp.dump(ast.parse(got))
                except (SyntaxError, ValueError) as e:
                    res.add_violation('c16-cli-output-unparseable', 'what pyminify wrote does not parse as a file: %r' % e, {'source_bytes': repr(src), 'mode': mode, 'written': repr(got)})
                    continue
                if out != ref:
                    res.add_violation('c16-cli-program-differs', 'the bytes pyminify wrote denote a different program (string constants) than the source bytes', {'source_bytes': repr(src), 'mode': mode, 'written': repr(got)})
    return n


def correspondence(res, tier, r):
    """Model find_shebang_text / find_shebang_bytes (regexes regenerated from the source) vs the real _find_shebang"""
    import python_minifier
    alphabet = ['#', '!', 'a', '/', ' ', '\n', '\r', '\u00e9', '\u20ac', '\U0001f600', '\t', '\x0c', '\x00', '.', '\x0b', '\x1c', '\x1d', '\x1e', '\x85', '\u2028', '\u2029']
    strs = ['', '#', '#!', '#!\n', '#!\r', '#!\r\n', '#!a\rb\nc', 'a#!b', ' #!x', '#!x#!y\n#!z', '#!\u00e9\u20ac\r\nx', '##!', '#!!\n']
    for sb in SHEBANGS:
        for nl in NEWLINES:
            if sb:
                strs.append(sb + nl + 'print(1)' + nl)
    nrand = 150 if tier == 'quick' else 3000
    for _ in range(nrand):
        k = r.randint(0, 12)
        s = ''.join(r.choice(alphabet) for _ in range(k))
        if r.random() < 0.6:
            s = '#!' + s
        strs.append(s)
    cases = []
    for s in strs:
        exp = python_minifier._find_shebang(s)
        e = 'None' if exp is None else '(Some %s)' % common.coq_N_list(exp)
        cases.append('opt_text_eqb (find_shebang_text %s) %s' % (common.coq_N_list(s), e))
        b = s.encode('utf-8', 'surrogatepass')
        try:
            expb = python_minifier._find_shebang(b)
        except UnicodeDecodeError:
            continue
        e = 'None' if expb is None else '(Some %s)' % common.coq_N_list(list(expb.encode('utf-8')))
        cases.append('opt_text_eqb (find_shebang_bytes %s) %s' % (common.coq_N_list(list(b)), e))
    header = ['From Coq Require Import String.', 'From PM Require Import Model.Base Model.PipelineBase Gen.Pipeline Model.Shebang.',
              'Definition opt_text_eqb (a b : option text) : bool := match a, b with Some x, Some y => text_eqb x y | None, None => true | _, _ => false end.']
    n, failing, raw = common.run_cases('c16', header, cases)
    if failing is None:
        res.broken.append(('correspondence', 'shebang model evaluation failed: ' + raw[-500:]))
    elif failing:
        res.broken.append(('correspondence', 'Model/Shebang.v over the regenerated regexes disagrees with _find_shebang on %d of %d strings, e.g. case %r' % (len(failing), n, cases[failing[0]][:160])))
    return n, len(strs)


def run(pid, tier):
    res = common.Result(pid, tier)
    res.trusted = TRUSTED
    res.assumptions = ['valid source bytes decode under CPython\'s PEP 263 rules (not modelled)', 'UTF-8 decode(encode(x)) = x for the matched shebang line']
    common.standard_proof_phase(res, ['cli', 'pipeline'], 'Properties/C16.v', model_targets=['Model/Shebang.vo'])
    r = common.rng(pid)
    with common.coq_lock():
        ncases, nstr = correspondence(res, tier, r)
    n, hist = oracle(res, tier if not res.broken else 'thorough', r)
    n += oracle_cli(res)
    res.samples = [{'program': PROGRAMS[1], 'shebang': SHEBANGS[1], 'newline': '\\r\\n', 'encoding': 'latin-1'}, {'string': '#!a\\rb\\nc'}]
    res.coverage.update({'model_cases_compared': ncases, 'strings': nstr, 'oracle_checks': n, 'evaluations': n + ncases, 'distinct_nontrivial': len(hist) + nstr,
                         'rule': 'oracle case = (program, shebang spelling, newline convention, encoding/cookie, text|bytes, preserve flag); model case = string run through the regenerated regex model and the real _find_shebang',
                         'input_distribution': dict(hist)})
    return res.finish()
