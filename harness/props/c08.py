"""C08: every compilable module is minified without error into a compilable module; unparseable input -> SyntaxError."""
import ast, os, warnings, collections, itertools
from harness import common, progs, fstr
from harness.props import c05 as c05mod

TRUSTED = [
    'Coq 8.16.1 kernel; C08 theorems are corollaries of the C02/C03/C05 developments and of the regenerated statement list (closed under the global context)',
    'the universally quantified claim (compiles S -> compiles (minify S O)) is not proved: compile oracle over generated programs, directed rare shapes and the corpus',
]
OPTS = ['remove_pass', 'remove_literal_statements', 'combine_imports', 'hoist_literals', 'rename_locals', 'rename_globals', 'remove_object_base', 'convert_posargs_to_args',
        'preserve_shebang', 'remove_asserts', 'remove_debug', 'remove_explicit_return_none', 'remove_builtin_exception_brackets', 'constant_folding', 'remove_annotations']
RARE = [
    'with ((a, b)): pass\n', 'with (a, b): pass\n', 'with (a, b) as c: pass\n', 'with (a as b, c as d): pass\n', 'with (yield): pass\n' if False else 'def g():\n    with (yield): pass\n',
    'x = 0x' + 'f' * 4000 + '\n', 'x = ' + '9' * 4000 + '\n', 'x = 0x' + 'f' * 5000 + ' + 1\n',
    'def f():\n    return [y := 1 for x in z]\n', 'def f():\n    return [(y := x) for x in z if (w := x)], y, w\n', 'f = lambda: (x := 1)\n', 'def f(a=(b := 1)): return a\n',
    'def f():\n    global g\n    g = "some repeated text", "some repeated text", "some repeated text"\n', 'def f(*a):\n    return *a, 1\n', 'def f():\n    yield *a, 1\n', 'x[*a, 1]\n', 'x[*a] = 1\n',
    'async def f():\n    return [i async for i in a if await i], {await i async for i in a}\n', 'x = ' + '(' * 40 + '1' + ')' * 40 + '\n', 'x = ' + '-' * 50 + '1\n', 'x = ' + 'not ' * 50 + 'a\n',
    'def f():\n' + '    if a:\n' * 1 + ''.join('    ' * (i + 2) + 'if a:\n' for i in range(40)) + '    ' * 42 + 'pass\n',
    'class A:\n    def f(self):\n        return __class__, super()\n', 'def f():\n    nonlocal_ = 1\n    def g():\n        nonlocal nonlocal_\n        nonlocal_ = 2\n',
    "x = f'{a!r:{b}{c}}' f'{{}}' 'plain' f'{d=}'\n", "x = f'''{a\n}'''\n", "x = f\"{'nested' + \"dq\"}\"\n", "x = f'{a:{b:{c}}}'\n", "x = b'a' b'b'\n", "x = 'a' if b else 'c' if d else 'e'\n",
    'try:\n    pass\nexcept* ValueError:\n    pass\n', 'match a:\n    case {"x": 1, **r}: pass\n    case [*_]: pass\n    case A(b=1) | B(): pass\n    case -1j | 1+2j: pass\n',
    'type X[T] = list[T]\n', 'def f[T: int = str](x: T) -> T: ...\n' if False else 'def f[T: int](x: T) -> T: ...\n', 'class A[T, *Ts, **P]: pass\n',
    'def f(a, /): pass\ndef g(a, /, b, *, c): pass\nlambda a, /, b=1: 0\n', 'x = 1 if 2 else 3\nx = (yield)\n' if False else 'x = 1 if 2 else 3\n', 'del (a), [b], (c, d)\n', 'a = b = c, d = 1, 2\n',
    'for (a) in b: pass\nfor a, in b: pass\nfor [a, b] in c: pass\n', 'return_ = 1\nprint(return_)\n', 'import a.b.c as d\nfrom . import (e, f)\n', 'global_ = nonlocal_ = 1\n',
    'x: int\ny: (int) = 1\n(z): int = 2\na.b: int\n', 'assert (a, "msg")\nassert a, (b, c)\n', 'raise\n' if False else 'def f():\n    raise\n', 'x = a if b else c,\n', 'x = [a for a in b if c if d for e in f]\n',
    'x = {**a, "b": 1, **{"c": 2}}\nf(**a, **b)\nf(*a, *b, c=1)\n', 'x = 1_000_000 + 0b1010 + 0o17 + 0xFF + 1e10 + 1E-5 + 1.5j\n', 'x = "\\N{BULLET}" "\\u2028" "\\x85"\n', 'x = -1 ** 2, (-1) ** 2, 2 ** -1, -(1) \n',
    'class A(B, metaclass=C, **kw): pass\n', '@a.b(c)[d]\ndef f(): pass\n', 'def f(a: int = 1, *args: int, b: str = "s", **kw: int) -> None: pass\n', 'x = lambda *a, **k: (a, k)\nx = lambda: (yield)\n' if False else 'x = lambda *a, **k: (a, k)\n',
    'if a:\n    pass\nelif b:\n    pass\nelse:\n    if c:\n        pass\n    else:\n        pass\n', 'while a:\n    break\nelse:\n    pass\n', 'try:\n    pass\nfinally:\n    pass\n',
    'def f():\n    "doc"\ndef g():\n    "doc"\n    return\nclass A:\n    "doc"\n', 'x = 1;\n', '\n\n\n', '', '#comment only\n', 'pass\n', '...\n', '"""only a docstring"""\n',
    "x = f'{chr(0)}' + '\\x00'\n", "x = f'{\"\\x00\"}'\n", "x = f\"{'\\ud800'}\"\n", "x = f\"{b'\\xff'}\"\n",
]
def removable_shapes():
    rem = ['pass', 'assert x', 'assert x, "m"', '"doc"', '0', 'if __debug__:\n        a()', 'if __debug__ is True:\n        a()', 'assert a\n    assert b', 'pass\n    assert x\n    "s"', 'return None' ]
    frames = ['if c:\n    %s\n', 'if c:\n    %s\nelse:\n    %s\n', 'if c:\n    x = 1\nelif d:\n    %s\nelse:\n    %s\n', 'for i in y:\n    %s\nelse:\n    %s\n', 'while c:\n    %s\nelse:\n    %s\n',
              'with c:\n    %s\n', 'try:\n    %s\nfinally:\n    %s\n', 'try:\n    x = 1\nfinally:\n    %s\n', 'try:\n    %s\nexcept E:\n    %s\nelse:\n    %s\nfinally:\n    %s\n',
              'try:\n    x = 1\nexcept E:\n    %s\n', 'try:\n    x = 1\nexcept* E:\n    %s\n', 'class K:\n    %s\n', 'def f():\n    %s\n', 'async def f():\n    %s\n', 'match v:\n    case 1:\n        %s\n    case _:\n        %s\n',
              'def f():\n    for i in y:\n        %s\n    else:\n        %s\n', 'class K:\n    def m(self):\n        try:\n            x = 1\n        finally:\n            %s\n']
    out = []
    for fr in frames:
        k = fr.count('%s')
        base_ind = {}
        for r_ in rem:
            if r_.startswith('return') and 'def f' not in fr:
                continue
            # re-indent the removable statement to the depth of each hole
            parts = fr.split('%s')
            txt = parts[0]
            for j in range(k):
                indent = len(parts[j]) - len(parts[j].rstrip(' '))
                body = r_.replace('\n    ', '\n' + ' ' * indent)
                txt += body + parts[j + 1]
            out.append(txt)
    return out


BAD = ['def (:\n', 'x = = 1\n', 'if a\n    pass\n', 'x = (1,\n', "x = 'unterminated\n", 'return\n\x00', '\tx = 1\n  y = 2\n', 'print "hello"\n', 'x = 1 +\n', 'class:\n', b'\xff\xfe\x00', 'f(**a, *b)\n', 'x = 0777\n', 'lambda: (yield\n']


def compiles(src):
    with warnings.catch_warnings():
        warnings.simplefilter('ignore')
        try:
            compile(src, '<c08>', 'exec', dont_inherit=True)
            return True
        except (SyntaxError, ValueError, RecursionError, MemoryError, OverflowError):
            return False


def sig(src, exc):
    s = src.strip()
    if isinstance(exc, ValueError) and 'f-string' in str(exc):
        return 'fstring-no-representation'
    if s.startswith('with ((') or (s.startswith('with (') and ') as' not in s.split(':')[0] and ' as ' not in s.split(':')[0]):
        return 'with-parenthesised-tuple'
    if isinstance(exc, ValueError) and 'integer string conversion' in str(exc):
        return 'huge-int-literal'
    return type(exc).__name__


def check(res, src, opts, stats, where):
    import python_minifier
    stats['cases'] += 1
    try:
        with warnings.catch_warnings():
            warnings.simplefilter('ignore')
            out = python_minifier.minify(src, **opts)
    except RecursionError:
        stats['recursion'] += 1
        return
    except Exception as e:   # noqa
        res.add_violation('c08-raises:' + sig(src if isinstance(src, str) else '', e), 'minify raised %s on a module the interpreter compiles' % type(e).__name__,
                          {'source': src[:3000] if isinstance(src, str) else repr(src[:3000]), 'options': {k: v for k, v in opts.items() if v is not True}, 'error': repr(e)[:300], 'where': where})
        return
    if not compiles(out):
        try:
            compile(out, '<c08>', 'exec', dont_inherit=True)
            err = '?'
        except Exception as e:   # noqa
            err = repr(e)[:200]
        res.add_violation('c08-output-does-not-compile', 'the minified module is rejected by the compiler: ' + err,
                          {'source': src[:3000] if isinstance(src, str) else repr(src[:3000]), 'options': {k: v for k, v in opts.items() if v is not True}, 'output': out[:3000], 'where': where})


def optsets(r, n):
    sets = [{}, {o: True for o in OPTS}, {o: False for o in OPTS}]
    for _ in range(n):
        sets.append({o: (r.random() < 0.5) for o in OPTS})
    return sets


def run(pid, tier):
    res = common.Result(pid, tier)
    res.trusted = TRUSTED
    res.assumptions = ['compile() of CPython 3.12.1 is the definition of "compilable"; deep nesting near the recursion limit is counted, not judged']
    common.standard_proof_phase(res, ['pipeline', 'prectable', 'namegen'], 'Properties/C08.v')
    r = common.rng(pid)
    eff = tier if (not res.broken or tier == 'thorough') else 'search'
    stats = collections.Counter()
    sets = optsets(r, 4 if eff == 'quick' else 30)
    srcs = [s for s in RARE if compiles(s)]
    shapes = [s for s in removable_shapes() if compiles(s)]
    srcs = srcs + shapes
    srcs += fstr.sources(r, {'quick': 120, 'search': 600}.get(eff, 3000))
    srcs += list(progs.DIRECTED) + progs.programs(r, {'quick': 120, 'search': 500}.get(eff, 3000)) + c05mod.programs(r, eff)[: 150 if eff == 'quick' else 3000]
    for i, s in enumerate(srcs):
        use = sets if i < len(RARE) else ([sets[1], {'remove_asserts': True}, {'remove_debug': True}, {'remove_literal_statements': True}, {'remove_pass': True, 'remove_asserts': True, 'remove_debug': True, 'remove_literal_statements': True}] if s in shapes else [sets[(i + k) % len(sets)] for k in range(3)])
        for o in use:
            check(res, s, o, stats, 'generated')
    # corpus: default options and two option sets
    files = []
    for d, _ds, fs in os.walk(common.STDLIB):
        for f in sorted(fs):
            if f.endswith('.py'):
                files.append(os.path.join(d, f))
    files.sort()
    step = {'quick': 45, 'search': 8}.get(eff, 1)
    for k, p in enumerate(files[::step]):
        try:
            src = open(p, 'rb').read()
        except OSError:
            continue
        if not compiles(src):
            continue
        for o in [sets[0], sets[1]] if eff != 'thorough' else [sets[0], sets[1], sets[(k % (len(sets) - 3)) + 3]]:
            check(res, src, o, stats, 'corpus:' + os.path.relpath(p, common.STDLIB))
    # sources that do not parse: exactly SyntaxError (or the ValueError CPython itself raises for NUL bytes)
    import python_minifier
    for b in BAD:
        stats['bad'] += 1
        try:
            ast.parse(b)
            continue
        except SyntaxError:
            want = SyntaxError
        except ValueError:
            want = ValueError
        try:
            python_minifier.minify(b)
            res.add_violation('c08-bad-source-accepted', 'a source that does not parse was minified without error', {'source': repr(b)})
        except want:
            pass
        except Exception as e:   # noqa
            res.add_violation('c08-bad-source-wrong-exception', 'unparseable source raised %s instead of %s' % (type(e).__name__, want.__name__), {'source': repr(b)})
    res.samples = [RARE[0], RARE[8], progs.DIRECTED[5]]
    res.coverage.update({'minify_compile_cases': stats['cases'], 'recursion_limit_cases_skipped': stats['recursion'], 'unparseable_sources': stats['bad'], 'evaluations': stats['cases'] + stats['bad'],
                         'distinct_nontrivial': len(set(map(str, srcs))), 'rule': 'directed rare shapes x all option sets; generated scope-rich and statement-rich programs x 3 option sets; corpus files x {default, all on}; unparseable sources; non-trivial = distinct source'})
    return res.finish()
