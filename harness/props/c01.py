"""C01: the minified module behaves exactly like the original under the documented-safe options.
Leg E: the MiniPy interpreter (Model/MiniPy.v, vm_compute) vs CPython on generated MiniPy programs.
Leg M: for the same programs, abstract(minify(P)) run in the model is observationally equal to P run in the model.
Oracle: original vs minified module executed in fresh interpreters (stdout, ending, public namespace) for runnable
programs with functions, closures, classes, generators, exceptions ... under subsets of the safe options."""
import ast, json, os, subprocess, sys, itertools, collections, warnings
from concurrent.futures import ThreadPoolExecutor
from harness import common

TRUSTED = [
    'Coq 8.16.1 kernel; C01 theorems closed under the global context',
    'Model/MiniPy.v: definitional interpreter for a module-level core of Python, tied to CPython by leg E (events, ending, final namespace on generated programs)',
    'the MiniPy transformations (remove_pass, fold_expr, ren_stmt, hoist) are models of the corresponding minifier rewrites; leg M runs abstract(minify(P)) in the verified interpreter against P',
    'NOT in the core: functions, classes, closures, generators, with/try, imports, attribute access: execution-differential oracle only',
]
SAFE = ['combine_imports', 'remove_pass', 'remove_annotations', 'remove_object_base', 'remove_builtin_exception_brackets', 'remove_explicit_return_none', 'convert_posargs_to_args',
        'hoist_literals', 'rename_locals', 'constant_folding', 'preserve_shebang']
VARS = ['alpha', 'beta', 'gamma', 'delta', 'counter', 'total', 'x', 'y']
STRS = ['hello world', 'some repeated text', 'k', '']


# ------------------------------------------------------------------------------------------------ MiniPy programs
INTV = ['alpha', 'beta', 'counter', 'total', 'x', 'y']
STRV = ['gamma', 'delta']


def g_int(r, d, defined):
    """an expression that evaluates to an int whenever its variables are bound (rarely: a deliberate type error)"""
    k = r.random()
    if d <= 0 or k < 0.35:
        u = r.random()
        dv = [v for v in defined if v in INTV or v.startswith('loop')]
        if u < 0.5 and dv:
            return ('var', r.choice(dv))
        if u > 0.98:
            return ('var', r.choice(INTV))            # possibly unbound: NameError
        return ('int', r.randint(-3, 12))
    if k < 0.45:
        return ('bin', '==', g_str(r, defined), g_str(r, defined))
    if k < 0.48:
        return ('bin', r.choice(['+', '-', '<']), g_str(r, defined), g_int(r, d - 1, defined))      # TypeError in CPython and in the model
    return ('bin', r.choice(['+', '-', '*', '<', '==']), g_int(r, d - 1, defined), g_int(r, d - 1, defined))


def g_str(r, defined):
    dv = [v for v in defined if v in STRV]
    if dv and r.random() < 0.4:
        return ('var', r.choice(dv))
    return ('str', r.choice(STRS))


def g_expr(r, d, defined):
    return g_str(r, defined) if r.random() < 0.2 else g_int(r, d, defined)


def g_suite(r, d, defined, n=None):
    out = []
    for _ in range(n or r.randint(1, 4)):
        k = r.random()
        if k < 0.3:
            if r.random() < 0.25:
                v = r.choice(STRV)
                out.append(('assign', v, g_str(r, defined)))
            else:
                v = r.choice(INTV)
                out.append(('assign', v, g_int(r, 2, defined)))
            defined.append(v)
        elif k < 0.5:
            out.append(('print', g_expr(r, 2, defined)))
        elif k < 0.58:
            out.append(('pass',))
        elif k < 0.64:
            out.append(('expr', g_expr(r, 1, defined)))
        elif k < 0.67 and defined:
            v = r.choice(defined)
            out.append(('del', v))
            defined[:] = [w for w in defined if w != v]
        elif k < 0.84 and d > 0:
            d1, d2 = list(defined), list(defined)
            out.append(('if', g_int(r, 1, defined), g_suite(r, d - 1, d1), g_suite(r, d - 1, d2) if r.random() < 0.5 else []))
            defined[:] = [v for v in defined if v in d1 and v in d2]
        elif d > 0:
            c = 'loop%d' % d
            inner = list(defined) + [c]
            body = g_suite(r, d - 1, inner) + [('assign', c, ('bin', '+', ('var', c), ('int', 1)))]
            out.append(('assign', c, ('int', 0)))
            out.append(('while', ('bin', '<', ('var', c), ('int', r.randint(0, 3))), body))
            defined.append(c)
        else:
            out.append(('print', g_expr(r, 1, defined)))
    return out


def src_expr(e):
    if e[0] == 'var':
        return e[1]
    if e[0] == 'int':
        return str(e[1]) if e[1] >= 0 else '(%d)' % e[1]
    if e[0] == 'str':
        return repr(e[1])
    return '(%s %s %s)' % (src_expr(e[2]), e[1], src_expr(e[3]))


def src_suite(suite, ind=0):
    pad = '    ' * ind
    lines = []
    for s in suite:
        if s[0] == 'assign':
            lines.append(pad + '%s = %s' % (s[1], src_expr(s[2])))
        elif s[0] == 'print':
            lines.append(pad + 'print(repr(%s))' % src_expr(s[1]))
        elif s[0] == 'pass':
            lines.append(pad + 'pass')
        elif s[0] == 'expr':
            lines.append(pad + src_expr(s[1]))
        elif s[0] == 'del':
            lines.append(pad + 'del %s' % s[1])
        elif s[0] == 'if':
            lines.append(pad + 'if %s:' % src_expr(s[1]))
            lines += src_suite(s[2], ind + 1) or [pad + '    pass']
            if s[3]:
                lines.append(pad + 'else:')
                lines += src_suite(s[3], ind + 1)
        elif s[0] == 'while':
            lines.append(pad + 'while %s:' % src_expr(s[1]))
            lines += src_suite(s[2], ind + 1)
    return lines


class Ids:
    def __init__(self):
        self.v, self.s = {}, {}

    def var(self, n):
        return self.v.setdefault(n, len(self.v) + (1000 if n.startswith('_') else 1) if not n.startswith('_') else 1000 + len(self.v))

    def st(self, x):
        return self.s.setdefault(x, len(self.s) + 1)


OPS = {'+': 'OAdd', '-': 'OSub', '*': 'OMul', '<': 'OLt', '==': 'OEq'}


def coq_expr(e, I):
    if e[0] == 'var':
        return '(MVar %d%%N)' % I.var(e[1])
    if e[0] == 'int':
        return '(MInt (%d)%%Z)' % e[1]
    if e[0] == 'str':
        return '(MStr %d%%N)' % I.st(e[1])
    return '(MBin %s %s %s)' % (OPS[e[1]], coq_expr(e[2], I), coq_expr(e[3], I))


def coq_suite(suite, I):
    out = []
    for s in suite:
        if s[0] == 'assign':
            out.append('(SAssign %d%%N %s)' % (I.var(s[1]), coq_expr(s[2], I)))
        elif s[0] == 'print':
            out.append('(SPrint %s)' % coq_expr(s[1], I))
        elif s[0] == 'pass':
            out.append('SPass')
        elif s[0] == 'expr':
            out.append('(SExpr %s)' % coq_expr(s[1], I))
        elif s[0] == 'del':
            out.append('(SDel %d%%N)' % I.var(s[1]))
        elif s[0] == 'if':
            out.append('(SIf %s %s %s)' % (coq_expr(s[1], I), coq_suite(s[2], I), coq_suite(s[3], I)))
        elif s[0] == 'while':
            out.append('(SWhile %s %s)' % (coq_expr(s[1], I), coq_suite(s[2], I)))
    return '[' + '; '.join(out) + ']'


def abstract_expr(n):
    if isinstance(n, ast.Name):
        return ('var', n.id)
    if isinstance(n, ast.Constant) and type(n.value) is int:
        return ('int', n.value)
    if isinstance(n, ast.Constant) and isinstance(n.value, str):
        return ('str', n.value)
    if isinstance(n, ast.UnaryOp) and isinstance(n.op, ast.USub) and isinstance(n.operand, ast.Constant) and type(n.operand.value) is int:
        return ('int', -n.operand.value)
    if isinstance(n, ast.BinOp) and type(n.op) in (ast.Add, ast.Sub, ast.Mult):
        return ('bin', {ast.Add: '+', ast.Sub: '-', ast.Mult: '*'}[type(n.op)], abstract_expr(n.left), abstract_expr(n.right))
    if isinstance(n, ast.Compare) and len(n.ops) == 1 and type(n.ops[0]) in (ast.Lt, ast.Eq):
        return ('bin', '<' if isinstance(n.ops[0], ast.Lt) else '==', abstract_expr(n.left), abstract_expr(n.comparators[0]))
    raise ValueError('outside MiniPy: ' + ast.dump(n)[:60])


def abstract_suite(body):
    out = []
    for s in body:
        if isinstance(s, ast.Assign) and len(s.targets) == 1 and isinstance(s.targets[0], ast.Name):
            out.append(('assign', s.targets[0].id, abstract_expr(s.value)))
        elif isinstance(s, ast.Expr) and isinstance(s.value, ast.Call) and isinstance(s.value.func, ast.Name) and s.value.func.id == 'print':
            inner = s.value.args[0]
            if not (isinstance(inner, ast.Call) and isinstance(inner.func, ast.Name) and inner.func.id == 'repr'):
                raise ValueError('print shape')
            out.append(('print', abstract_expr(inner.args[0])))
        elif isinstance(s, ast.Pass):
            out.append(('pass',))
        elif isinstance(s, ast.Expr):
            out.append(('expr', abstract_expr(s.value)))
        elif isinstance(s, ast.Delete) and len(s.targets) == 1 and isinstance(s.targets[0], ast.Name):
            out.append(('del', s.targets[0].id))
        elif isinstance(s, ast.If):
            out.append(('if', abstract_expr(s.test), abstract_suite(s.body), abstract_suite(s.orelse)))
        elif isinstance(s, ast.While) and not s.orelse:
            out.append(('while', abstract_expr(s.test), abstract_suite(s.body)))
        else:
            raise ValueError('outside MiniPy: ' + type(s).__name__)
    return out


def run_cpython(src):
    """execute a MiniPy program in-process with print captured: (events, ending, namespace)"""
    events = []
    ns = {'print': lambda x: events.append(x), 'repr': lambda x: x}
    ending = 'Normal'
    try:
        exec(compile(src, '<minipy>', 'exec'), ns)
    except NameError:
        ending = 'NameError'
    except TypeError:
        ending = 'TypeError'
    return events, ending, {k: v for k, v in ns.items() if k not in ('print', 'repr', '__builtins__')}


def coq_val(v, I):
    if isinstance(v, bool):
        return '(VInt %d%%Z)' % int(v)
    if isinstance(v, int):
        return '(VInt (%d)%%Z)' % v
    return '(VStr %d%%N)' % I.st(v)


def legs_minipy(res, r, tier):
    import python_minifier
    n = 150 if tier == 'quick' else 2500
    casesE, casesM, keptE, keptM = [], [], [], []
    stats = collections.Counter()
    for i in range(n):
        suite = g_suite(r, r.choice([1, 2, 2]), [], n=r.randint(2, 5))
        src = '\n'.join(src_suite(suite)) + '\n'
        I = Ids()
        p = coq_suite(suite, I)
        with warnings.catch_warnings():
            warnings.simplefilter('ignore')
            events, ending, ns = run_cpython(src)
        stats[ending] += 1
        allvars = sorted(set(VARS + ['loop1', 'loop2', 'loop3']))
        nsl = '[' + '; '.join('(%d%%N, %s)' % (I.var(v), 'Some ' + coq_val(ns[v], I) if v in ns else 'None') for v in allvars) + ']'
        casesE.append('agrees (run 40 %s) [%s] %s %s' % (p, '; '.join(coq_val(e, I) for e in events), 'Normal' if ending == 'Normal' else '(Raised %s)' % ending, nsl))
        keptE.append(src)
        # leg M: the real minifier's output, read back into MiniPy, run in the verified interpreter
        opts = {o: (r.random() < 0.8) for o in SAFE if o != 'remove_annotations'}
        try:
            out = python_minifier.minify(src, **opts)
            q = abstract_suite(ast.parse(out).body)
        except ValueError:
            stats['outside'] += 1
            continue
        except Exception as e:   # noqa
            res.add_violation('c01-minify-raises', 'minify raised %s on a MiniPy program' % type(e).__name__, {'source': src, 'options': opts})
            continue
        if out.strip() != src.strip():
            stats['changed'] += 1
        pub = '[' + '; '.join('%d%%N' % I.var(v) for v in allvars) + ']'
        casesM.append('same_observation (run 40 %s) (run 40 %s) %s' % (p, coq_suite(q, I), pub))
        keptM.append((src, opts, out))
    header = ['From PM Require Import Model.Base Model.MiniPy Model.MiniPyTable.', 'Open Scope bool_scope.']
    nE, fE, raw = common.run_cases('c01E', header, casesE, shard=100)
    if fE is None:
        res.broken.append(('reference-model', 'leg E: MiniPy evaluation failed: ' + raw[-400:]))
    elif fE:
        res.broken.append(('reference-model', 'leg E: the MiniPy interpreter disagrees with CPython on %d of %d programs, e.g. %r' % (len(fE), nE, keptE[fE[0]])))
    nM, fM, raw = common.run_cases('c01M', header, casesM, shard=100)
    if fM is None:
        res.broken.append(('correspondence', 'leg M: evaluation failed: ' + raw[-400:]))
    elif fM:
        src, opts, out = keptM[fM[0]]
        # the model says the two programs behave differently: confirm on CPython and report as a violation of the property itself
        a, b = run_cpython(src), run_cpython(out)
        pubf = lambda d: {k: v for k, v in d.items() if not k.startswith('_')}
        if a[0] != b[0] or a[1] != b[1] or pubf(a[2]) != pubf(b[2]):
            res.add_violation('c01-minipy-behaviour-differs', 'minified MiniPy program behaves differently (model and CPython agree on that)', {'source': src, 'options': opts, 'output': out, 'original': repr(a)[:300], 'minified': repr(b)[:300]})
        else:
            res.broken.append(('correspondence', 'leg M: the model distinguishes a program from its minified form although CPython does not: %r -> %r' % (src, out)))
    return nE, nM, dict(stats)


# ------------------------------------------------------------------------------------------------ execution oracle
TEMPLATES = [
    # keyword-only defaults are evaluated in the ENCLOSING scope: names of enclosing locals, literals that occur nowhere else
    "def build(size, label):\n    def inner(*, size=size, label=label, extra=None):\n        return size, label, extra\n    pick = lambda *, i=size, j=label: (i, j)\n    return inner(), inner(size=1), pick(), pick(i=2)\nprint(build(10, 'ten'))\ndef only_here(*, first=None, second=None, third=None, fourth='dflt', fifth='dflt', sixth='dflt'):\n    return first, second, third, fourth, fifth, sixth\nprint(only_here(), only_here(first=1, sixth=6))\nclass Config:\n    def method(self, *, retries=3, mode='fast', fallback='fast', other='fast'):\n        return retries, mode, fallback, other\nprint(Config().method(), Config().method(mode='slow'))\n",
    # a bare return that ends a try suite which has an else clause (the else must not run), returns inside if/with/loops at the end of a function
    "def load(flag):\n    try:\n        if flag:\n            print('work')\n        return\n    except ValueError:\n        print('handler')\n    else:\n        print('else must not run')\nload(True)\nload(False)\ndef guarded(resource, flag):\n    if flag:\n        with resource:\n            try:\n                print('inside')\n                return None\n            except KeyError:\n                return\n            else:\n                print('unreachable else')\n            finally:\n                print('finally')\n    else:\n        return\nimport contextlib\nprint(guarded(contextlib.nullcontext(), True), guarded(None, False))\ndef looped(items):\n    for item in items:\n        if item:\n            return\n    else:\n        print('loop else')\n    return None\nprint(looped([0, 0]), looped([0, 1]))\n",
    # builtin exceptions raised with keyword arguments only, with star arguments, and with none
    "try:\n    raise ImportError(name='modname', path='/some/path')\nexcept ImportError as error:\n    print(error.name, error.path)\ndef checked(value):\n    try:\n        raise ValueError(value=value)\n    except TypeError as error:\n        return 'TypeError'\n    except ValueError as error:\n        return 'ValueError'\nprint(checked(1))\ndef starred(details):\n    try:\n        raise OSError(*details)\n    except OSError as error:\n        return error.args\nprint(starred((2, 'msg')), starred(()))\ntry:\n    raise KeyError()\nexcept KeyError as error:\n    print(repr(error), error.args)\n",
    # class bodies nested in functions that read the function's locals directly, with attributes named like the names the renamer hands out
    "def make(scale):\n    limit = scale * 10\n    class Config:\n        A = 'alpha'\n        B = 'beta'\n        C = 'gamma'\n        threshold = limit\n        def D(self):\n            return limit\n    return Config.threshold, Config.A, Config.B, Config().D()\nprint(make(3))\n",
    "def build(prefix, suffix):\n    joined = prefix + suffix\n    class Names:\n        A = 1\n        B = 2\n        class C:\n            inner = joined\n        first = joined\n        second = [joined for _ in range(1)]\n    return Names.first, Names.C.inner, Names.second, Names.A, Names.B\nprint(build('p', 's'))\n",
    "def tagged():\n    class Tags:\n        A = 'shared text'\n        B = 'shared text'\n        C = 'shared text', 'shared text', 'shared text'\n        D = 'other text', 'other text', 'other text', 'other text'\n    return Tags.A, Tags.B, Tags.C, Tags.D\nprint(tagged())\n",
    # literal arithmetic in header contexts (defaults, decorator arguments, class keywords) next to hoisting and renaming
    "def deco(arg):\n    def wrap(fn):\n        fn.arg = arg\n        return fn\n    return wrap\n@deco(True | False)\ndef configure(strict=True | False, verbose=True & True, *, check=False | True):\n    return strict, verbose, check, True\nprint(configure(), configure.arg)\ndef scaled(unit=0.5 + 0.5, base=1.5 - 0.5, *, zero=1.0 - 1.0):\n    return unit, base, zero, 1.0, 0.0\nprint(scaled())\n",
    "def build(flag):\n    class Settings:\n        if flag:\n            timeout: int = 30\n            retries: int = 3\n        else:\n            timeout: int = 5\n        with open(__file__) if False else memoryview(b'') as handle:\n            buffered: bool = True\n        try:\n            verbose: bool = False\n        finally:\n            pass\n    return Settings\ninstance = build(True)()\nprint(instance.timeout, instance.retries, build(False).timeout, instance.buffered, instance.verbose)\n",
    # closures, defaults, keyword calls
    "def make_counter(start, step=1):\n    count = start\n    def increment(times=1):\n        nonlocal count\n        count += step * times\n        return count\n    return increment\ncounter = make_counter(10, step=2)\nprint(counter(), counter(times=3))\nresult = counter(times=0)\n",
    "total = 0\ndef add(amount, *, scale=1):\n    global total\n    total += amount * scale\n    return total\nprint(add(2), add(3, scale=10), add(amount=1))\n",
    "class Shape(object):\n    sides = 0\n    def __init__(self, name, sides=None):\n        self.name = name\n        if sides is not None:\n            self.sides = sides\n    def describe(self, prefix='shape'):\n        return '%s %s has %d sides' % (prefix, self.name, self.sides)\n    @classmethod\n    def square(cls, name='square'):\n        return cls(name, sides=4)\n    @staticmethod\n    def helper(value, other=2):\n        return value * other\n    @property\n    def double(self):\n        return self.sides * 2\nprint(Shape('dot').describe(), Shape.square().describe(prefix='a'), Shape.helper(other=3, value=2), Shape.square().double)\n",
    "def gen(limit):\n    index = 0\n    while index < limit:\n        received = yield index\n        if received:\n            index += received\n        index += 1\n    return 'done'\ng = gen(5)\nvalues = [next(g), g.send(2), next(g)]\nprint(values)\ntry:\n    next(g)\n    next(g)\nexcept StopIteration as stop:\n    print('stopped', stop.value)\n",
    "def risky(value):\n    try:\n        if value == 0:\n            raise ValueError()\n        if value == 1:\n            raise KeyError('one')\n        return 10 // (value - 2)\n    except ValueError:\n        return 'value error'\n    except KeyError as error:\n        return 'key error %s' % error\n    finally:\n        print('finally', value)\nfor item in range(4):\n    try:\n        print(risky(item))\n    except ZeroDivisionError as problem:\n        print(type(problem).__name__)\n",
    "class Manager:\n    def __init__(self, label):\n        self.label = label\n        self.log = []\n    def __enter__(self):\n        self.log.append('enter ' + self.label)\n        return self\n    def __exit__(self, exc_type, exc, tb):\n        self.log.append('exit ' + self.label)\n        return exc_type is KeyError\nwith Manager('outer') as outer, Manager('inner') as inner:\n    inner.log.append('body')\n    raise KeyError('swallowed')\nprint(outer.log, inner.log)\n",
    "numbers = [1, 2, 3, 4, 5, 6]\nsquares = {number: number * number for number in numbers if number % 2}\npairs = [(left, right) for left in numbers[:3] for right in numbers[:left]]\ntotal = sum(value for value in squares.values())\nflat = [inner for outer in [[1, 2], [3]] for inner in outer]\nif (count := len(pairs)) > 3:\n    print(count, total, squares, flat)\nprint([(last := item) for item in numbers][-1], last)\n",
    "import os\nimport sys\nfrom collections import OrderedDict\nfrom collections import namedtuple\nPoint = namedtuple('Point', ['x', 'y'])\nordered = OrderedDict()\nordered['first'] = Point(1, 2)\nordered['second'] = Point(x=3, y=4)\nprint(list(ordered.items()), os.sep == '/', sys.version_info[0])\n",
    "from dataclasses import dataclass, field\nfrom typing import NamedTuple, List\n@dataclass\nclass Item:\n    name: str\n    price: float = 1.5\n    tags: List[str] = field(default_factory=list)\nclass Pair(NamedTuple):\n    left: int\n    right: int = 2\nclass Plain:\n    attribute: int = 3\n    other: str\nitem = Item('thing', tags=['a'])\nprint(item, Pair(1), Pair(left=5, right=6), Plain.attribute, Item.__dataclass_fields__['price'].default, Pair._fields)\n",
    "def decorate(prefix):\n    def wrapper(function):\n        def inner(*args, **kwargs):\n            return prefix + function(*args, **kwargs)\n        inner.__name__ = function.__name__\n        return inner\n    return wrapper\n@decorate('>> ')\ndef greet(name, greeting='hello'):\n    return '%s %s' % (greeting, name)\nprint(greet('world'), greet(greeting='bye', name='all'), greet.__name__)\n",
    "text = 'repeated literal'\nitems = ['repeated literal', 'repeated literal', 'repeated literal', b'bytes', b'bytes', b'bytes', b'bytes']\ndef use():\n    return 'repeated literal' + 'repeated literal' + str(None) + str(None) + str(None) + str(True) + str(True) + str(True)\nprint(text, len(items), use(), f'{text!r:>20}|{len(items):03d}|{text[:3]}')\n",
    "def positional(first, second, /, third, *, fourth=4):\n    return first, second, third, fourth\nprint(positional(1, 2, 3), positional(1, 2, third=3, fourth=5))\ntry:\n    positional(1, second=2, third=3)\nexcept TypeError as error:\n    print('TypeError')\n",
    "def command(value):\n    match value:\n        case [first, *rest] if first:\n            return 'list', first, rest\n        case {'key': inner, **others}:\n            return 'dict', inner, others\n        case str() as text:\n            return 'text', text\n        case int(number) | float(number):\n            return 'number', number\n        case _:\n            return 'other'\nprint(command([1, 2, 3]), command({'key': 1, 'z': 2}), command('s'), command(2.5), command(None))\n",
    "class Base:\n    registry = []\n    def __init_subclass__(cls, tag=None, **kwargs):\n        super().__init_subclass__(**kwargs)\n        Base.registry.append((cls.__name__, tag))\n    def who(self):\n        return 'base'\nclass Child(Base, tag='c'):\n    def who(self):\n        return 'child of ' + super().who()\nclass Other(Base):\n    who = lambda self: 'other'\nprint(Base.registry, Child().who(), Other().who())\n",
    "def outer():\n    value = 'outer'\n    class Inner:\n        value = 'class'\n        def method(self):\n            return value\n        listing = [value for _ in range(2)]\n    return Inner().method(), Inner.value, Inner.listing\nprint(outer())\n",
    "import functools\n@functools.lru_cache(maxsize=None)\ndef fib(number):\n    if number < 2:\n        return number\n    return fib(number - 1) + fib(number - 2)\nprint([fib(index) for index in range(12)], 1 + 2 * 3, 2 ** 10, 10 // 3, -7 % 3, 1 << 4, 0xff & 0x0f, 7 | 8, 6 ^ 3, 1.5 * 2, 3 - 0.5)\n",
    "def checker(value):\n    assert value is not None, 'needs a value'\n    if __debug__:\n        note = 'debug'\n    else:\n        note = 'optimised'\n    return value, note\nprint(checker(1))\ntry:\n    checker(None)\nexcept AssertionError as error:\n    print('assertion', error)\n",
    "async def produce(limit):\n    for index in range(limit):\n        yield index\nasync def consume():\n    collected = [item async for item in produce(4) if item != 2]\n    async for extra in produce(2):\n        collected.append(extra * 10)\n    return collected\nimport asyncio\nprint(asyncio.run(consume()))\n",
    "__all__ = ['public_function', 'PUBLIC']\nPUBLIC = 1\n_private = 2\ndef public_function(argument):\n    local_value = argument + _private\n    return local_value\ndef _helper(first, second=PUBLIC):\n    return first + second\nprint(public_function(1), _helper(1), _helper(second=5, first=1))\n",
    "class Node:\n    __slots__ = ('value', 'next_node')\n    def __init__(self, value, next_node=None):\n        self.value = value\n        self.next_node = next_node\n    def __iter__(self):\n        node = self\n        while node is not None:\n            yield node.value\n            node = node.next_node\n    def __repr__(self):\n        return 'Node(%r)' % (self.value,)\nchain = Node('value', Node('next_node', Node(3)))\nprint(list(chain), chain, Node.__slots__)\n",
    "def collect(*args, **kwargs):\n    return args, sorted(kwargs.items())\narguments = (1, 2)\noptions = {'key': 'value'}\nprint(collect(*arguments, 3, **options, extra=True), collect(), (lambda first, *rest, flag=False, **more: (first, rest, flag, more))(1, 2, flag=True, z=0))\n",
    "import sys\ndef fail(code):\n    print('exiting', code)\n    sys.exit(code)\ntry:\n    fail(0)\nexcept SystemExit as leave:\n    print('caught', leave.code)\nfail(3)\n",
    "values = {'a': 1}\ndef lookup(key, default=None):\n    try:\n        return values[key]\n    except KeyError:\n        if default is None:\n            raise LookupError()\n        return default\nprint(lookup('a'), lookup('b', default=5))\nlookup('missing')\n",
    "def returns_none(flag):\n    if flag:\n        return None\n    print('no flag')\n    return\ndef implicit():\n    pass\nclass Empty(object):\n    pass\nprint(returns_none(True), returns_none(False), implicit(), Empty.__bases__ == (object,))\n",
    "x = 5\ndef shadow(x):\n    def inner(y=x):\n        return x + y\n    x = x * 2\n    return inner() , inner(y=1)\nprint(shadow(3), x)\nlambda_default = (lambda x=x: x + 1)()\nprint(lambda_default)\n",
    "try:\n    import json as json_module\n    encoded = json_module.dumps({'numbers': [1, 2.5, True, None], 'text': 'caf\\u00e9'}, sort_keys=True)\nexcept ImportError:\n    encoded = None\nfinally:\n    marker = 'done'\nprint(encoded, marker)\n",
]


def observe_script():
    return r'''
import sys, io, json, types
def _obs(ns):
    out = {}
    for k, v in ns.items():
        if k.startswith('_'):
            continue
        if isinstance(v, (int, float, str, bytes, bool, type(None), tuple, list, dict, set, frozenset)):
            try:
                out[k] = ['value', type(v).__name__, repr(v)]
            except Exception:
                out[k] = ['value', type(v).__name__, '?']
        elif isinstance(v, types.FunctionType):
            c = v.__code__
            out[k] = ['function', c.co_argcount, c.co_kwonlyargcount, bool(c.co_flags & 4), bool(c.co_flags & 8)]
        elif isinstance(v, type):
            out[k] = ['class', sorted(a for a in vars(v) if not a.startswith('_'))]
        elif isinstance(v, types.ModuleType):
            out[k] = ['module', v.__name__]
        else:
            out[k] = ['object']      # the class may be a renamed local: its name is a reflective view
    return out
src = sys.stdin.read()
ns = {'__name__': '__main__'}
buf = io.StringIO()
real = sys.stdout
sys.stdout = buf
ending = ['normal']
try:
    exec(compile(src, '<module>', 'exec'), ns)
except SystemExit as e:
    ending = ['exit', repr(e.code)]
except BaseException as e:
    ending = ['raised', type(e).__name__]
sys.stdout = real
ns.pop('__builtins__', None)
json.dump({'stdout': buf.getvalue(), 'ending': ending, 'namespace': _obs(ns)}, sys.stdout)
'''


def execute(src):
    try:
        p = subprocess.run([common.PY, '-I', '-c', observe_script()], input=src.encode('utf-8', 'surrogatepass'), stdout=subprocess.PIPE, stderr=subprocess.PIPE, timeout=60)
        return json.loads(p.stdout) if p.returncode == 0 and p.stdout else {'crash': p.stderr.decode()[-300:]}
    except subprocess.TimeoutExpired:
        return {'timeout': True}


PACKAGE = {
    # adjacent from-imports of the same module name at different relative levels (and absolute), and `from . import` / `from .. import`
    'shop/__init__.py': "from .config import RATE\nfrom ..config import CURRENCY\nfrom . import pricing\nfrom .pricing import total as compute_total\n",
    'shop/config.py': "RATE = 0.07\nCURRENCY = 'local'\nNAME = 'inner'\n",
    'shop/pricing.py': ("from .config import RATE\nfrom ..config import RATE as OUTER_RATE\nfrom config import RATE as ABS_RATE\nfrom . import config as inner\nfrom .. import config as outer\n"
                        "from .. import settings\nfrom ..settings import CURRENCY\nfrom .config import CURRENCY as LOCAL\n"
                        "def total(amount):\n    return round(amount * (1 + RATE), 2), OUTER_RATE, ABS_RATE, inner.NAME, outer.NAME, settings.CURRENCY, CURRENCY, LOCAL\n"),
    'config.py': "RATE = 0.2\nCURRENCY = 'EUR'\nNAME = 'outer'\n",
    'settings.py': "RATE = 0.3\nCURRENCY = 'USD'\n",
    '__init__.py': "",
    'run.py': ("import sys, os\nhere = os.path.dirname(os.path.abspath(__file__))\nsys.path.insert(0, os.path.dirname(here))\nsys.path.insert(0, os.path.join(here, 'abs'))\nimport importlib\n"
               "pkg = importlib.import_module(os.path.basename(here))\nshop = importlib.import_module(pkg.__name__ + '.shop')\nprint(shop.compute_total(14), shop.RATE, shop.CURRENCY)\n"),
    'abs/config.py': "RATE = 0.5\n",
}


def package_run(files):
    import tempfile, shutil
    d = tempfile.mkdtemp(prefix='pmpkg-', dir=common.SCRATCH_ROOT)
    try:
        root = os.path.join(d, 'pkgroot')
        for rel, src in files.items():
            p = os.path.join(root, rel)
            os.makedirs(os.path.dirname(p), exist_ok=True)
            open(p, 'w').write(src)
        p = subprocess.run([common.PY, '-I', os.path.join(root, 'run.py')], stdout=subprocess.PIPE, stderr=subprocess.PIPE, timeout=60)
        return p.stdout.decode(), p.returncode
    finally:
        shutil.rmtree(d, ignore_errors=True)


def oracle_package(res, r, tier):
    import python_minifier
    ref = package_run(PACKAGE)
    n = 0
    sets = [dict()] + [{o: False} for o in SAFE if o != 'remove_annotations'] + [{o: (r.random() < 0.5) for o in SAFE if o != 'remove_annotations'} for _ in range(2 if tier == 'quick' else 20)]
    for o in sets:
        n += 1
        try:
            mini = {rel: python_minifier.minify(src, **o) for rel, src in PACKAGE.items()}
        except Exception as e:   # noqa
            res.add_violation('c01-minify-raises', 'minify raised %s on a package module' % type(e).__name__, {'options': o})
            continue
        got = package_run(mini)
        if got != ref:
            res.add_violation('c01-behaviour-differs:package', 'a package with relative imports behaves differently after minifying its modules', {'options': o, 'original': ref, 'minified': got, 'files': mini})
    return n


def oracle(res, r, tier):
    import python_minifier
    progs_ = list(TEMPLATES)
    ddir = os.path.join(common.REPO, 'docs/source/transforms')
    for f in sorted(os.listdir(ddir)):
        if f.endswith('.py') and not f.endswith('.min.py'):
            progs_.append(open(os.path.join(ddir, f)).read())
    jobs = []
    nsub = 3 if tier == 'quick' else 24
    for i, src in enumerate(progs_):
        try:
            compile(src, '<t>', 'exec')
        except SyntaxError:
            continue
        sets = [dict()] + [{o: False} for o in SAFE if (i + SAFE.index(o)) % (3 if tier == 'quick' else 1) == 0]
        for _ in range(nsub):
            sets.append({o: (r.random() < 0.5) for o in SAFE})
        for o in sets:
            jobs.append((src, o))
    base = {}
    with ThreadPoolExecutor(12) as ex:
        for src, ob in zip(progs_, ex.map(execute, progs_)):
            base[src] = ob

    from python_minifier import RemoveAnnotationsOptions

    def one(job):
        src, o = job
        try:
            # the documented-safe value of remove_annotations is the default RemoveAnnotationsOptions() (class attributes kept), or off
            kw = dict(o)
            if 'remove_annotations' in kw:
                kw['remove_annotations'] = RemoveAnnotationsOptions() if kw['remove_annotations'] else False
            out = python_minifier.minify(src, **kw)
        except Exception as e:   # noqa
            return job, None, 'raised ' + type(e).__name__
        return job, out, execute(out)
    n = 0
    with ThreadPoolExecutor(12) as ex:
        for (src, o), out, ob in ex.map(one, jobs):
            n += 1
            ref = base[src]
            if out is None:
                res.add_violation('c01-minify-raises', 'minify %s on a runnable program' % ob, {'source': src, 'options': o})
                continue
            if 'crash' in ref or 'timeout' in ref:
                continue
            if ob != ref:
                diff = [k for k in ('stdout', 'ending', 'namespace') if ob.get(k) != ref.get(k)]
                sig = 'c01-behaviour-differs:' + '+'.join(diff)
                if ', /' in src and o.get('convert_posargs_to_args', True) and o.get('rename_locals', True) is False:
                    sig = 'c01-posonly-made-keyword-passable'      # the documented "almost always safe" transform, see KNOWN_FINDINGS
                res.add_violation(sig, 'the minified module behaves differently (%s)' % ', '.join(diff),
                                  {'source': src, 'options': o, 'output': out, 'original': {k: ref.get(k) for k in diff}, 'minified': {k: ob.get(k) for k in diff} if isinstance(ob, dict) else ob})
    return n


def run(pid, tier):
    res = common.Result(pid, tier)
    res.trusted = TRUSTED
    res.assumptions = ['observation = stdout text, ending (normal / exit code / exception type), public module namespace (values by type and repr, functions by arity, classes by public attribute names)',
                       'reflective views the documentation concedes (names of renamed locals, removed annotations, line numbers) are not observed']
    common.standard_proof_phase(res, [], 'Properties/C01.v', model_targets=['Model/MiniPyTable.vo'])
    r = common.rng(pid)
    eff = tier if (not res.broken or tier == 'thorough') else 'search'
    with common.coq_lock():
        nE, nM, stats = legs_minipy(res, r, eff)
    nO = oracle(res, r, eff) + oracle_package(res, r, eff)
    res.samples = [TEMPLATES[0], 'alpha = 3\nwhile (alpha < 5):\n    print(repr(alpha))\n    alpha = (alpha + 1)\n']
    res.coverage.update({'leg_E_programs': nE, 'leg_M_programs': nM, 'minipy_program_stats': stats, 'oracle_executions': nO, 'evaluations': nE + nM + nO, 'distinct_nontrivial': nE + len(TEMPLATES),
                         'rule': 'leg E/M: random MiniPy modules (assign, print, del, pass, if/else, bounded while; ints and strings; deliberately unbound names and type errors); oracle: %d runnable templates + docs examples x (defaults, each safe switch off, random subsets of the safe switches), executed in fresh interpreters' % len(TEMPLATES)})
    return res.finish()
