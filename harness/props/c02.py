"""C02 (and the printer side of C08): printed source re-parses to exactly the same tree.
Legs: Pr (Model/Syntax.v printer vs ExpressionPrinter, token level), P (reference parser vs ast.parse on printed and
perturbed texts), L (print_int vs TokenPrinter.integer); oracle: strict AST round trip of unparse() and of
minify(all transforms off) on enumerated (parent, slot, child) expressions, statement templates, adversarial constants
and corpus files."""
import ast, io, itertools, os, tokenize, collections, warnings, math
from harness import common, fstr, astcmp

TRUSTED = [
    'Coq 8.16.1 kernel; every C02 theorem closed under the global context',
    'translator/prectable.py: the precedences dict and the shape of _lhs/_rhs/visit_UnaryOp/visit_BinOp (fail-closed)',
    'Model/Syntax.v pr: hand transcription of the printer for the operator core, tied by leg Pr (token sequences equal to the real printer\'s on generated trees); pexpr: reference parser from the Python grammar, tied to CPython by leg P',
    'stdlib Numbers/DecimalString, HexadecimalString for integer literals (no axioms)',
    'not modelled in Coq: everything outside the operator core, float/complex formatting, token spacing, statements, f-strings: strict round-trip oracle only',
]
BIN = {'Add': '+', 'Sub': '-', 'Mult': '*', 'MatMult': '@', 'Div': '/', 'Mod': '%', 'Pow': '**', 'LShift': '<<', 'RShift': '>>', 'BitOr': '|', 'BitXor': '^', 'BitAnd': '&', 'FloorDiv': '//'}
BINAST = {v: k for k, v in BIN.items()}
UN = {'UAdd': '+', 'USub': '-', 'Invert': '~', 'Not': 'not'}


# ------------------------------------------------------------------------------------------------ operator core trees
def gen_core(r, d):
    if d <= 0 or r.random() < 0.2:
        return ('name', r.randint(1, 5)) if r.random() < 0.6 else ('num', r.choice([0, 1, 7, 255, 65536, 10 ** 12]))
    if r.random() < 0.3:
        return ('un', r.choice(list(UN)), gen_core(r, d - 1))
    return ('bin', gen_core(r, d - 1), r.choice(list(BIN)), gen_core(r, d - 1))


def core_ast(t):
    if t[0] == 'name':
        return ast.Name(id='v%d' % t[1], ctx=ast.Load())
    if t[0] == 'num':
        return ast.Constant(value=t[1])
    if t[0] == 'un':
        return ast.UnaryOp(op=getattr(ast, t[1])(), operand=core_ast(t[2]))
    return ast.BinOp(left=core_ast(t[1]), op=getattr(ast, t[2])(), right=core_ast(t[3]))


def core_coq(t):
    if t[0] == 'name':
        return '(EName %d%%N)' % t[1]
    if t[0] == 'num':
        return '(ENum %d%%N)' % t[1]
    if t[0] == 'un':
        return '(EUn %s %s)' % (t[1], core_coq(t[2]))
    return '(EBin %s %s %s)' % (core_coq(t[1]), 'SyntaxBase.Add' if t[2] == 'Add' else t[2], core_coq(t[3]))


def from_ast(n):
    """CPython tree -> core term, or None when outside the fragment"""
    if isinstance(n, ast.Name) and n.id.startswith('v') and n.id[1:].isdigit():
        return ('name', int(n.id[1:]))
    if isinstance(n, ast.Constant) and type(n.value) is int:
        return ('num', n.value)
    if isinstance(n, ast.UnaryOp):
        x = from_ast(n.operand)
        return None if x is None else ('un', type(n.op).__name__, x)
    if isinstance(n, ast.BinOp):
        a, b = from_ast(n.left), from_ast(n.right)
        return None if a is None or b is None else ('bin', a, type(n.op).__name__, b)
    return None


def toks_of_text(text):
    out = []
    for tk in tokenize.generate_tokens(io.StringIO(text).readline):
        if tk.type == tokenize.NAME:
            out.append('TNot' if tk.string == 'not' else '(TName %d%%N)' % int(tk.string[1:]) if tk.string.startswith('v') and tk.string[1:].isdigit() else None)
        elif tk.type == tokenize.NUMBER:
            try:
                out.append('(TNum %d%%N)' % int(tk.string, 0))
            except ValueError:
                out.append(None)
        elif tk.type == tokenize.OP:
            if tk.string == '(':
                out.append('TLP')
            elif tk.string == ')':
                out.append('TRP')
            elif tk.string == '~':
                out.append('TTilde')
            elif tk.string in BINAST:
                out.append('(TOp %s)' % ('SyntaxBase.Add' if BINAST[tk.string] == 'Add' else BINAST[tk.string]))
            else:
                out.append(None)
    return None if None in out else '[' + '; '.join(out) + ']'


HEADER = ['From PM Require Import Model.Base Model.SyntaxBase Gen.PrecTable Model.Syntax Model.SyntaxTable.']


def legs_core(res, r, tier):
    from python_minifier.expression_printer import ExpressionPrinter
    n = 400 if tier == 'quick' else 6000
    trees = [gen_core(r, r.choice([1, 2, 3, 4])) for _ in range(n)]
    # every (parent operator, slot, child operator) combination
    ops = [('bin', o) for o in BIN] + [('un', o) for o in UN]
    leaf = ('name', 1)
    for p in ops:
        for c in ops:
            child = ('bin', ('name', 2), c[1], ('name', 3)) if c[0] == 'bin' else ('un', c[1], ('name', 2))
            if p[0] == 'bin':
                trees.append(('bin', child, p[1], leaf))
                trees.append(('bin', leaf, p[1], child))
            else:
                trees.append(('un', p[1], child))
    cases_pr, cases_p = [], []
    texts = []
    for t in trees:
        text = ExpressionPrinter()(core_ast(t))
        tk = toks_of_text(text)
        if tk is None:
            continue
        cases_pr.append('toks_eqb (pr %s) %s' % (core_coq(t), tk))
        texts.append(text)
    # reference parser vs CPython on printed and perturbed texts
    seen = set()
    for text in texts:
        variants = [text]
        idx = [i for i, c in enumerate(text) if c == '(']
        if idx:
            i = idx[r.randrange(len(idx))]
            depth, j = 0, i
            for j in range(i, len(text)):
                depth += text[j] == '('
                depth -= text[j] == ')'
                if depth == 0:
                    break
            variants.append(text[:i] + ' ' + text[i + 1:j] + ' ' + text[j + 1:])      # one paren pair removed
        if len(text) > 3:
            k = r.randrange(len(text))
            variants.append(text[:k] + text[k + 1:])                                   # one character removed
        for v in variants:
            if v in seen:
                continue
            seen.add(v)
            try:
                tk = toks_of_text(v)
            except Exception:
                continue
            if tk is None:
                continue
            try:
                with warnings.catch_warnings():
                    warnings.simplefilter('ignore')
                    tree = from_ast(ast.parse(v.strip(), mode='eval').body)
                expect = 'None' if tree is None else '(Some %s)' % core_coq(tree)
                outside = tree is None
            except (SyntaxError, ValueError, MemoryError):
                expect, outside = 'None', False
            if outside:
                continue
            cases_p.append('parse_is %s %s' % (tk, expect))
    nPr, fPr, raw = common.run_cases('c02Pr', HEADER, cases_pr)
    if fPr is None:
        res.broken.append(('correspondence', 'leg Pr: printer model evaluation failed: ' + raw[-400:]))
    elif fPr:
        res.broken.append(('correspondence', 'leg Pr: Model/Syntax.v prints different tokens than ExpressionPrinter on %d of %d trees, e.g. %s' % (len(fPr), nPr, cases_pr[fPr[0]][:300])))
    nP, fP, raw = common.run_cases('c02P', HEADER, cases_p)
    if fP is None:
        res.broken.append(('reference-model', 'leg P: reference parser evaluation failed: ' + raw[-400:]))
    elif fP:
        res.broken.append(('reference-model', 'leg P: the reference parser disagrees with CPython ast.parse on %d of %d texts, e.g. %s' % (len(fP), nP, cases_p[fP[0]][:300])))
    return nPr, nP


def leg_L(res, r, tier):
    from python_minifier.token_printer import TokenPrinter
    vals = [0, 1, 9, 10, 255, 4095, 65535, 65536, 10 ** 6, 2 ** 32, 2 ** 40 - 1, 10 ** 12, 10 ** 12 + 1, 2 ** 64, 10 ** 30, 16 ** 12, 999999999999, 1000000000000]
    vals += [r.randrange(10 ** r.randint(1, 40)) for _ in range(100 if tier == 'quick' else 2000)]
    cases = []
    for v in vals:
        p = TokenPrinter()
        p.integer(v)
        cases.append('String.eqb (print_int %d%%N) "%s"' % (v, str(p)))
    n, f, raw = common.run_cases('c02L', ['From Coq Require Import String NArith List.', 'Import ListNotations.', 'From PM Require Import Model.IntLit.', 'Open Scope string_scope.'], cases)
    if f is None:
        res.broken.append(('correspondence', 'leg L: print_int evaluation failed: ' + raw[-300:]))
    elif f:
        res.broken.append(('correspondence', 'leg L: print_int differs from TokenPrinter.integer on %d of %d values, e.g. %s' % (len(f), n, cases[f[0]])))
    return n


def leg_D(res, r, tier):
    """string literals. (a) Model/MiniString.v = ministring.py on crafted strings (the writer side of the round-trip theorem);
    (b) the reference decoder Model/StrDecode.v = CPython's own reading of literal texts built from escape pieces (the specification side):
    on texts made of covered pieces only the two must agree exactly (same string, or both reject); on texts that also contain pieces the
    decoder does not cover, whenever the decoder accepts, CPython must read the same string."""
    import io, tokenize, warnings
    from python_minifier.ministring import MiniString
    from harness.props import c12
    Q1, Q2 = chr(39), chr(34)
    QUOTES = (Q1, Q2, Q1 * 3, Q2 * 3)
    strs = list(c12.crafted_strings(r, 'quick'))
    strs = strs[:2] + [x for i, x in enumerate(strs[2:]) if i % (6 if tier == 'quick' else 2) == 0]
    cases = []
    for x in strs:
        for quote in QUOTES:
            for safe in (False, True):
                m = MiniString(x, quote)
                m.safe_mode = safe
                exp = m.to_short() if len(quote) == 1 else m.to_long()
                f = 'to_short' if len(quote) == 1 else 'to_long'
                cases.append('text_eqb (%s %s %d%%N %s) %s' % (f, 'true' if safe else 'false', ord(quote[0]), common.coq_N_list(x), common.coq_N_list(exp)))
    nA = len(cases)
    B = chr(92)
    covered = ['a', 'Z', ' ', '#', '{', '%', '\t', '\x7f', '\xe9', '中', '\U0001f600', B + B, B + Q1, B + Q2, B + 'a', B + 'b', B + 'f', B + 'n', B + 'r', B + 't', B + 'v', B + 'x41', B + 'x00', B + 'xff', B + 'xFf',
               B + 'u00e9', B + 'ud800', B + 'uFFFF', B + 'U0001f600', B + 'U0010ffff', B + 'U00110000', B + 'UFFFFFFFF', B + 'x4', B + 'xg1', B + 'u12', B + 'u12g4', B + 'U0001f60', '\n', Q2, Q1]
    uncovered = [B + '0', B + '12', B + '377', B + 'N{DASH}', B + 'z', B + ' ', B + '\n', B + '8', B + 'N{nope}', '\r', B + '400', 'x' + B, B]
    texts = []
    for i in range(400 if tier == 'quick' else 4000):
        pieces = covered if i % 3 else covered + uncovered
        body = ''.join(r.choice(pieces) for _ in range(r.randint(0, 7)))
        texts.append((r.choice(QUOTES), body, i % 3 != 0))
    nB = 0
    for k, (quote, body, exact) in enumerate(texts):
        isb = k % 4 == 3          # a quarter of the texts are read as bytes literals (decb)
        if isb and (B + 'u' in body or B + 'U' in body):
            exact = False         # not escapes in a bytes literal: kept verbatim by CPython, not covered by decb
        text = ('b' if isb else '') + quote + body + quote
        if '\0' in text:
            continue
        try:
            with warnings.catch_warnings():
                warnings.simplefilter('ignore')
                tree = ast.parse(text, mode='eval')
            val = tree.body.value if isinstance(tree.body, ast.Constant) and isinstance(tree.body.value, bytes if isb else str) else None
            if isb and val is not None:
                val = val.decode('latin-1')
            # implicit concatenation ('a''b') is several literals, not one
            if [t.type for t in tokenize.generate_tokens(io.StringIO(text).readline) if t.type not in (tokenize.NEWLINE, tokenize.NL, tokenize.ENDMARKER)] != [tokenize.STRING]:
                val = None      # a literal followed by a comment or anything else: the text is not exactly one literal
        except (SyntaxError, ValueError, tokenize.TokenError):
            val = None
        call = '%s %s %d%%N DNorm %s' % ('decb' if isb else 'dec', 'true' if len(quote) == 3 else 'false', ord(quote[0]), common.coq_N_list(body + quote))
        if val is not None:
            cases.append('match %s with Some (d, []) => text_eqb d %s | _ => %s end' % (call, common.coq_N_list(val), 'false' if exact else 'true'))
        else:
            cases.append('match %s with Some (_, []) => false | _ => true end' % call)
        nB += 1
    n, failing, raw = common.run_cases('c02D', ['From PM Require Import Model.Base Model.MiniString Model.StrDecode.', 'Open Scope bool_scope.'], cases)
    if failing is None:
        res.broken.append(('correspondence', 'leg D: string literal model evaluation failed: ' + raw[-400:]))
    elif failing:
        a = [i for i in failing if i < nA]
        b = [i for i in failing if i >= nA]
        if a:
            res.broken.append(('correspondence', 'leg D: Model/MiniString.v disagrees with ministring.py on %d of %d (string, quote, mode) cases, e.g. %s' % (len(a), nA, cases[a[0]][:240])))
        if b:
            res.broken.append(('reference-model', 'leg D: the reference string-literal decoder disagrees with CPython on %d of %d literal texts, e.g. %s' % (len(b), nB, cases[b[0]][:240])))
    return nA, nB


# ------------------------------------------------------------------------------------------------ strict round-trip oracle
FORMS = ['({0})+({1})', '({0})-({1})', '({0})*({1})', '({0})/({1})', '({0})//({1})', '({0})%({1})', '({0})@({1})', '({0})**({1})', '({0})<<({1})', '({0})>>({1})',
         '({0})&({1})', '({0})|({1})', '({0})^({1})', '-({0})', '+({0})', '~({0})', 'not ({0})', '({0}) and ({1})', '({0}) or ({1})', '({0}) and ({1}) and ({0})',
         '({0})<({1})', '({0})==({1})', '({0}) is ({1})', '({0}) is not ({1})', '({0}) in ({1})', '({0}) not in ({1})', '({0})<({1})<=({0})',
         '({0}) if ({1}) else ({0})', 'lambda:({0})', 'lambda x,y=({0}),*a,k,**kw:({1})', '({0})(({1}))', '({0})(({1}),k=({0}))', '({0})(*({1}),**({0}))', '({0}).a', '({0})[({1})]',
         '({0})[({1}):({0})]', '({0})[({1}):({0}):({1})]', '({0})[({1}),({0})]', '({0})[::({1})]', '({0})[({1}):,...]', '(({0}),)', '(({0}),({1}))', '[({0}),({1})]', '{{({0}),({1})}}',
         '{{({0}):({1})}}', '{{**({0}),({1}):({0})}}', '[*({0}),({1})]', '[({0}) for x in ({1})]', '[({0}) for x in ({1}) if ({0}) if ({1})]', '{{({0}) for x,y in ({1})}}',
         '{{({0}):({1}) for x in ({0})}}', '(({0}) for x in ({1}) for y in ({0}))', 'f(({0}) for x in ({1}))', '(yield ({0}))', '(yield from ({0}))', '(x:=({0}))',
         'f"{{({0})}}"', 'f"{{({0})!r:>{{({1})}}}}"', 'f"a{{({0})}}b{{({1})=}}"', '(await ({0}))', '({0})(({1}) for x in y)', '*({0}),({1})', 'print(*({0}))']
ATOMS = ['a', '1', '0', '1.5', '1j', "'s'", "b'b'", 'None', 'True', 'False', '...', '()', '[]', '{}', "''", '1e22', '1e16', '5e-324', '1e308', '1e999', '0xffffffffffff', '10000000000',
         '1_000', '0.1', '1e-7', '123456789.123456789', '1.0', '100.0', '1200.0', '0.5j', '1e999j', "'a\\nb'", "'\\''", '"\\""', "'\\x00'", "'\\ud800'", "'\U0001f600'", "b'\\xff'",
         "f'{a}'", "f'{a!r:^{b}}'", "'a' 'b'", "f'{{}}'", 'a.b', 'a[0]', 'a()', '-1', '- -1', '+-1', 'not a', '1 .real', '1.5.real', '1j.imag', '(1).real', '-0.0', '-1j', '0j', '-0j', '(-1)**2', '-1**2', '2**-1', 'a if b else c', 'lambda:0', 'lambda x:x', '(yield)']
STMTS = ['x=({0})', 'x:({0})=({1})', 'x:({0})', 'x+=({0})', 'x,y=({0})', 'x=y=({0})', '*x,y=({0})', 'x[({0})]=({1})', 'x.a=({0})', 'del x,y[({0})]', 'assert ({0}),({1})', 'raise ({0}) from ({1})',
         'for x in ({0}):pass\nelse:pass', 'for x,*y in ({0}),({1}):pass', 'with ({0}) as y,({1}):pass', 'with ({0}):pass', 'if ({0}):pass\nelif ({1}):pass\nelse:pass', 'while ({0}):break\nelse:pass',
         '@({0})\ndef f(a,b:({0})=({1}),/,c=1,*d,e,f=({0}),**g)->({1}):\n return ({0})', '@({0})\nclass C(({1}),metaclass=({0})):\n x=1', 'def g():\n yield ({0})\n x=yield\n return (yield ({1}))',
         'async def h():\n await ({0})\n async with ({1}) as z:pass\n async for i in ({0}):pass\n return [i async for i in ({1})]', 'try:pass\nexcept ({0}) as e:pass\nexcept:pass\nelse:pass\nfinally:pass',
         'def g():\n yield from (({0}),({1}))\n x=yield from (({0}),)\n x+=yield from (({0}),({1}))\n x:int=yield from (({0}),({1}))\n yield from ()\n yield from [({0})]',
         'def g():\n yield (({0}),({1}))\n x=yield (({0}),)\n x+=yield (({0}),({1}))\n x:int=yield (({0}),({1}))\n yield ()\n yield *({0}),({1})\n x=y=yield (({0}),({1}))',
         'async def ag():\n yield (({0}),({1}))\n x=yield (({0}),)\n await (({0}),({1}))\n x=await ({0})\n return (({0}),)',
         'def r():\n return (({0}),({1}))\n return (({0}),)\n return ()\n return *({0}),({1})\ndef r2():\n raise (({0}),({1}))\n assert (({0}),({1})),(({1}),)\n del (x,y),[z]\n for (i,j) in (({0}),({1})):pass',
         'try:pass\nexcept* ({0}):pass', 'match ({0}):\n case [1,x,*r] if ({1}):pass\n case {{"k":v,**o}}|C(a,b=2):pass\n case "s"|None|-1|1+2j|a.b:pass\n case _:pass',
         'import a.b as c,d\nfrom . import e\nfrom ..f import g as h,i\nfrom j import *', 'global q\nq=({0})', 'def k():\n x=1\n def l():\n  nonlocal x\n  x=({0})', 'lambda:(yield)', 'print(({0}),sep=({1}))',
         'type T=({0})', 'def m[T:int,*U,**V](a:T)->T:return ({0})', 'class N[T]:pass', 'x=({0});y=({1})', 'if ({0}):\n if ({1}):pass\n else:pass', 'return_=1\nclass O:\n def p(self):return', 'pass',
         '"""doc"""\nx=1', 'for x in y:\n continue', 'with (a,b):pass', 'with (a,b) as c:pass', 'with (a as b,c as d):pass',
         # every spelling that changes a node field: parenthesised annotation targets (simple=0), attribute / subscript targets, bare annotations
         '(x):({0})=({1})', '(x):({0})', '(x.a):({0})=({1})', 'x.a:({0})=({1})', 'x[0]:({0})', '(x[0]):({0})=({1})', 'class AN:\n (x):({0})=({1})\n y:({0})', 'def an():\n (x):({0})\n x=({1})',
         'x=({0}),', 'x=*({0}),({1})', 'def r():\n return ({0}),({1})', 'def r():\n return *({0}),', 'for x in *({0}),({1}):pass', 'del (x),[y,z]', 'del (x,y)', 'x=y=z=({0})', 'with a,b as c:pass',
         'def r():\n raise', 'raise ({0})', 'assert ({0})', 'global a,b', 'try:pass\nfinally:pass', 'try:pass\nexcept (A,B):pass', 'class P():pass', 'class P(*({0}),**({1})):pass',
         'def s(*,a):pass', 'def s(a,/):pass', 'def s(*a,**k):pass', 'def s(a=({0}),*,b=({1})):pass', 'x=lambda *,a:a', 'x=lambda a,/,b=({0}),*c,d,e=({1}),**f:a', 'async def t():\n async with a as (b,c),d:pass\n async for (i,j) in ({0}):pass',
         'import a', 'import a as b', 'from . import a', 'from .. import a as b', 'from .a import b', 'from a import (b,c)', 'x=[*({0})]', 'x={{*({0})}}', 'x=({0}) if ({1}) else ({0})', 'if ({0}):pass\nelse:\n if ({1}):pass',
         'while ({0}):pass', 'x[({0}):({1})]=1', 'x[({0}),({1})]=1', 'x[::({0})]=1', 'x[...]=({0})', 'print(*({0}),**({1}))', 'f(a)(b)[c].d', 'x=not ({0})', 'x=-({0})', 'x=({0})**-({1})', 'x=(-({0}))**({1})', 'x=await_', 'match x:\n case P(a=({0})):pass' if False else 'pass']


def variants(r, tier):
    out = []
    atoms = ATOMS
    # depth 1: every form over every atom (first slot), and over an operator child (depth 2) in every slot
    for f in FORMS:
        for a in atoms:
            out.append(f.format(a, 'b'))
    children = [g.format('a', 'b') for g in FORMS]
    pairs = list(itertools.product(range(len(FORMS)), range(len(children))))
    if tier == 'quick':
        pairs = [p for i, p in enumerate(pairs) if i % 3 == 0]
    for fi, ci in pairs:
        out.append(FORMS[fi].format(children[ci], 'c'))
        out.append(FORMS[fi].format('c', children[ci]))
    n3 = 300 if tier == 'quick' else 8000
    for _ in range(n3):
        c = r.choice(FORMS).format(r.choice(children), r.choice(atoms))
        out.append(r.choice(FORMS).format(c, r.choice(children)))
    return out


def strict_roundtrip(res, src, mode, kind):
    import python_minifier
    try:
        with warnings.catch_warnings():
            warnings.simplefilter('ignore')
            tree = ast.parse(src)
    except (SyntaxError, ValueError, RecursionError, MemoryError):
        return 0
    ref = astcmp.dump(tree)
    try:
        if mode == 'unparse':
            out = python_minifier.unparse(ast.parse(src))
        else:
            out = python_minifier.minify(src, remove_annotations=False, remove_pass=False, remove_literal_statements=False, combine_imports=False, hoist_literals=False,
                                         rename_locals=False, rename_globals=False, remove_object_base=False, convert_posargs_to_args=False, preserve_shebang=False,
                                         remove_asserts=False, remove_debug=False, remove_explicit_return_none=False, remove_builtin_exception_brackets=False, constant_folding=False)
    except python_minifier.UnstableMinification as e:
        # the printer DID produce text and the built-in self check found that it does not parse back to the tree: a failed round trip
        res.add_violation('c02-self-check-rejected-printed-text', 'the text printed by %s does not parse back to the tree it was printed from (UnstableMinification: %s)' % (mode, str(e.exception)[:200]),
                          {'source': src[:2000], 'output': str(getattr(e, 'minified', ''))[:2000], 'kind': kind})
        return 1
    except Exception as e:   # noqa
        # no text was produced: that is C08's concern (minify must not raise), not a wrong round trip
        res.notes.setdefault('raised_instead_of_printing', collections.Counter())[type(e).__name__] += 1
        return 1
    try:
        got = astcmp.dump(ast.parse(out))
    except Exception as e:   # noqa
        res.add_violation('c02-output-unparseable', 'output of %s does not parse: %r' % (mode, e), {'source': src[:2000], 'output': out[:2000]})
        return 1
    if got != ref:
        res.add_violation('c02-tree-differs', 'the text printed by %s parses to a different tree (strict comparison: structure, identifiers, constants by type/value/sign)' % mode, {'source': src[:2000], 'output': out[:2000], 'kind': kind})
    return 1


def sig_of(src):
    s = src.strip()
    if s.startswith('with (') and ') as' not in s and ' as ' not in s.split(':')[0]:
        return 'with-parenthesised-tuple'
    return 'other'


SPECIAL = ['(x:=a)', '(yield)', '(yield a)', '(yield from a)', '*a,b', 'lambda:a', 'a if b else c', '(a,b)', '(a for a in b)', 'await a', '[*a]', '{**a}', '-1', 'not a', 'a<b<c', "f'{a}'", '1 .real', '...', '()', "'s' 't'"]


def number_sources(r, tier):
    out = []
    n = 400 if tier == 'quick' else 6000
    for _ in range(n):
        k = r.random()
        if k < 0.35:
            m = r.randint(1, 10 ** r.randint(1, 17))
            e = r.randint(-30, 30)
            v = float('%de%d' % (m, e))
        elif k < 0.55:
            v = float(r.randint(1, 2 ** 63)) * r.choice([1.0, 2.0, 0.5, 1024.0, 1e-3])
        elif k < 0.7:
            v = r.random() * 10 ** r.randint(-20, 20)
        elif k < 0.8:
            v = float(2 ** r.randint(40, 70) + r.randint(-3, 3))
        elif k < 0.9:
            v = complex(0, r.random() * 10 ** r.randint(-5, 20))
        else:
            v = r.randint(0, 2 ** r.randint(1, 200))
        out.append(repr(v))
    return out


def oracle(res, r, tier):
    n = 0
    nums = number_sources(r, tier)
    for k in range(0, len(nums), 25):
        n += strict_roundtrip(res, '\n'.join('v%d=%s' % (i, x) for i, x in enumerate(nums[k:k + 25])) + '\n', 'unparse' if (k // 25) % 2 else 'minify-all-off', 'numbers')
    for k, src in enumerate(fstr.sources(r, 150 if tier == 'quick' else 3000)):
        n += strict_roundtrip(res, src, 'unparse' if k % 2 else 'minify-all-off', 'fstring')
    for i, s in enumerate(STMTS):
        for e in SPECIAL:
            for src in (s.format('(%s)' % e if not e.startswith('(') else e, 'b'), s.format('b', '(%s)' % e if not e.startswith('(') else e)):
                for wrap in ('%s', 'def w():\n' + ' %s', 'async def w():\n' + ' %s'):
                    body = src if wrap == '%s' else '\n'.join(' ' + l for l in src.split('\n'))
                    full = (body if wrap == '%s' else wrap.split('\n')[0] + '\n' + body) + '\n'
                    got = strict_roundtrip(res, full, 'unparse', 'statement-special')
                    n += got
                    if got:
                        break
    for e in variants(r, tier):
        for wrap in ('x=%s', 'async def f():\n return %s'):
            src = (wrap % e) + '\n'
            n += strict_roundtrip(res, src, 'unparse', 'expression')
            break
    atoms = ATOMS
    exprs = atoms + [g.format('a', 'b') for g in FORMS]
    for i, s in enumerate(STMTS):
        picks = exprs if tier != 'quick' else exprs[i % 3::3]
        for j, e in enumerate(picks):
            src = s.format(e, exprs[(i * 7 + j) % len(exprs)]) + '\n'
            n += strict_roundtrip(res, src, 'unparse' if j % 2 else 'minify-all-off', 'statement')
    # corpus
    lib = common.STDLIB
    files = []
    for d, _ds, fs in os.walk(lib):
        for f in sorted(fs):
            if f.endswith('.py'):
                files.append(os.path.join(d, f))
    files.sort()
    step = 60 if tier == 'quick' else (8 if tier == 'search' else 1)
    for p in files[::step] + [os.path.join(dd, f) for dd, _x, fs in os.walk(os.path.join(common.REPO, 'src')) for f in fs if f.endswith('.py')]:
        try:
            src = open(p, encoding='utf-8').read()
        except Exception:
            continue
        n += strict_roundtrip(res, src, 'minify-all-off', 'corpus:' + os.path.relpath(p, lib))
    return n


def run(pid, tier):
    res = common.Result(pid, tier)
    res.trusted = TRUSTED
    res.assumptions = ['only CPython 3.12.1 exists in the sandbox: the version-conditional arms of the printers are not exercised', 'the reference parser is validated against ast.parse only on printed and perturbed texts of the operator core']
    common.standard_proof_phase(res, ['prectable', 'pipeline', 'tokenrules'], 'Properties/C02.v', model_targets=['Model/SyntaxTable.vo', 'Model/IntLit.vo', 'Model/StrDecode.vo', 'Model/FStr.vo', 'Model/Renamer.vo'])
    r = common.rng(pid)
    eff = tier if (not res.broken or tier == 'thorough') else 'search'
    with common.coq_lock():
        nPr, nP = legs_core(res, r, eff)
        nL = leg_L(res, r, eff)
        nDa, nDb = leg_D(res, common.rng(pid + '/legD'), eff)
        from harness.props import c12 as _c12
        nQ = _c12.leg_Q(res, common.rng(pid + '/legQ'), 'quick')
    nO = oracle(res, r, eff)
    res.samples = ['(-v1**-v2)**v3*(v4+v5)', FORMS[30].format('a', 'b'), STMTS[18]]
    res.coverage.update({'leg_Pr_trees': nPr, 'leg_P_texts': nP, 'leg_L_integers': nL, 'leg_D_ministring_cases': nDa, 'leg_D_literal_texts': nDb, 'leg_Q_fstring_constants': nQ[0], 'oracle_round_trips': nO, 'evaluations': nPr + nP + nL + nDa + nDb + nO, 'distinct_nontrivial': nPr + nO,
                         'rule': 'leg Pr/P: random operator-core trees plus every (parent operator, slot, child operator) combination, printed texts and texts with one paren pair / one character removed; oracle: every expression form x atom, every (parent form, slot, child form), random depth 3, statement templates x expressions, corpus files; non-trivial = distinct source'})
    return res.finish()
