"""C05: each option performs only its documented rewrite, only where it is valid.
Leg T: Model/Struct.v (skeleton transformers) evaluated by vm_compute vs each real transformer run alone.
Oracle: a second, independent implementation of `canon_O` on Python ASTs: canon_O(parse(minify(P, O))) == canon_O(parse(P))."""
import ast, copy, itertools, collections, json, os, sys
from harness import common, astcmp

TRUSTED = [
    'Coq 8.16.1 kernel; every C05 theorem closed under the global context',
    'Model/Struct.v: hand transcription of the suite transformers (RemovePass, RemoveAsserts, RemoveDebug, RemoveLiteralStatements, RemoveExplicitReturnNone, RemoveObject, CombineImports) over statement skeletons; tied by leg T on every run',
    'translator/pipeline.py: statement list and gates of minify()',
    'harness abstraction Python AST -> skeleton (neutral: records kinds and slots, every other detail as an interned identifier of its ast.dump)',
    'not modelled in Coq: RemoveAnnotations, remove_no_arg_exception_call, remove_posargs (expression/argument level): covered by the canon_O oracle only',
]

# ------------------------------------------------------------------------------------------------ skeleton abstraction
class Interner:
    def __init__(self):
        self.tbl = {}

    def id(self, key):
        if key not in self.tbl:
            self.tbl[key] = len(self.tbl) + 1
        return self.tbl[key]


def d(node):
    return ast.dump(node) if isinstance(node, ast.AST) else repr(node)


def coq_list(xs):
    return '[' + '; '.join(xs) + ']'


def sk_suite(body, I):
    return coq_list([sk(s, I) for s in body])


def sk_test(t, I):
    if isinstance(t, ast.Name) and t.id == '__debug__':
        return 'TDebugName'
    if isinstance(t, ast.Compare) and len(t.ops) == 1:
        left = isinstance(t.left, ast.Name) and t.left.id == '__debug__'
        op = {ast.Is: 'OIs', ast.IsNot: 'OIsNot', ast.Eq: 'OEq'}.get(type(t.ops[0]), 'OOtherCmp')
        c = t.comparators[0]
        cc = 'COtherConst'
        if isinstance(c, ast.Constant) and c.value is True:
            cc = 'CTrue'
        elif isinstance(c, ast.Constant) and c.value is False:
            cc = 'CFalse'
        if op == 'OOtherCmp' or cc == 'COtherConst':
            # operands other than the recognised ones are part of the identity of the test
            return '(TOther %d%%N)' % I.id(('test', d(t)))
        if not left:
            return '(TCmp false %s %s)' % (op, cc) if True else None
        return '(TCmp true %s %s)' % (op, cc)
    return '(TOther %d%%N)' % I.id(('test', d(t)))


def sk(s, I):
    if isinstance(s, ast.Pass):
        return '(Simple KPass)'
    if isinstance(s, ast.Expr) and isinstance(s.value, ast.Constant) and s.value.value is not Ellipsis and isinstance(s.value.value, (int, float, complex, str, bytes, bool, type(None))):
        v = s.value.value
        if type(v) is int and v == 0:
            return '(Simple (KLit 0%N))'
        return '(Simple (KLit %d%%N))' % I.id(('lit', type(v).__name__, repr(v)))
    if isinstance(s, ast.Assert):
        return '(Simple (KAssert %d%%N))' % I.id(('assert', d(s)))
    if isinstance(s, ast.Return):
        if s.value is None:
            return '(Simple (KReturn RBare))'
        if isinstance(s.value, ast.Constant) and s.value.value is None:
            return '(Simple (KReturn RNoneConst))'
        return '(Simple (KReturn (ROther %d%%N)))' % I.id(('ret', d(s.value)))
    if isinstance(s, ast.Import):
        return '(Simple (KImport %s))' % coq_list(['%d%%N' % I.id(('alias', a.name, a.asname)) for a in s.names])
    if isinstance(s, ast.ImportFrom):
        star = len(s.names) == 1 and s.names[0].name == '*'
        return '(Simple (KImportFrom %d%%N %d%%N %s %s))' % (I.id(('mod', s.module)), s.level or 0, coq_list(['%d%%N' % I.id(('alias', a.name, a.asname)) for a in s.names]), 'true' if star else 'false')
    if isinstance(s, ast.If):
        return '(Block (BIf %s) [%s] [%s] [])' % (sk_test(s.test, I), sk_suite(s.body, I), sk_suite(s.orelse, I))
    if isinstance(s, (ast.For, ast.AsyncFor)):
        return '(Block (BLoop %d%%N) [%s] [%s] [])' % (I.id(('for', type(s).__name__, d(s.target), d(s.iter))), sk_suite(s.body, I), sk_suite(s.orelse, I))
    if isinstance(s, ast.While):
        return '(Block (BLoop %d%%N) [%s] [%s] [])' % (I.id(('while', d(s.test))), sk_suite(s.body, I), sk_suite(s.orelse, I))
    if isinstance(s, (ast.With, ast.AsyncWith)):
        return '(Block (BWith %d%%N) [%s] [] [])' % (I.id(('with', type(s).__name__, tuple(d(i) for i in s.items))), sk_suite(s.body, I))
    if isinstance(s, ast.Try):
        hs = [sk_suite(h.body, I) for h in s.handlers]
        I.id(('handlers', tuple((d(h.type) if h.type else None, h.name) for h in s.handlers)))
        return '(Block BTry [%s] [%s; %s] %s)' % (sk_suite(s.body, I), sk_suite(s.orelse, I), sk_suite(s.finalbody, I), coq_list(hs))
    if isinstance(s, (ast.FunctionDef, ast.AsyncFunctionDef)):
        hdr = (type(s).__name__, s.name, d(s.args), tuple(d(x) for x in s.decorator_list), d(s.returns) if s.returns else None, tuple(d(x) for x in getattr(s, 'type_params', [])))
        return '(Block (BFunc %d%%N) [%s] [] [])' % (I.id(hdr), sk_suite(s.body, I))
    if isinstance(s, ast.ClassDef):
        hdr = ('class', s.name, tuple(d(x) for x in s.keywords), tuple(d(x) for x in s.decorator_list), tuple(d(x) for x in getattr(s, 'type_params', [])))
        bases = coq_list(['(%s, %d%%N)' % ('true' if isinstance(b, ast.Name) and b.id == 'object' else 'false', I.id(('base', d(b)))) for b in s.bases])
        return '(Block (BClass %d%%N %s) [%s] [] [])' % (I.id(hdr), bases, sk_suite(s.body, I))
    if isinstance(s, ast.Match):
        return '(Block (BUnhooked %d%%N) [] [] %s)' % (I.id(('match', d(s.subject), tuple((d(c.pattern), d(c.guard) if c.guard else None) for c in s.cases))), coq_list([sk_suite(c.body, I) for c in s.cases]))
    if hasattr(ast, 'TryStar') and isinstance(s, ast.TryStar):
        bodies = [s.body] + [h.body for h in s.handlers] + [s.orelse, s.finalbody]
        return '(Block (BUnhooked %d%%N) [] [] %s)' % (I.id(('trystar', tuple((d(h.type) if h.type else None, h.name) for h in s.handlers))), coq_list([sk_suite(b, I) for b in bodies]))
    return '(Simple (KOther %d%%N))' % I.id(('other', d(s)))


# ------------------------------------------------------------------------------------------------ programs
SIMPLE = ['pass', '0', '1', '"doc"', 'None', 'x = 1', 'assert x', 'assert x, "m"', 'return', 'return None', 'return x', 'import a', 'import b, c as d', 'import a as e', 'import a.b', 'import a.b as f', 'from m import p', 'from m import p as q2',
          'from m import q as r', 'from n import s', 'from m import *', 'from . import t', 'from .m import u', 'print(x)', 'raise ValueError()', '...', 'break', 'continue', 'x: int = 1']
TESTS = ['__debug__', '__debug__ is True', '__debug__ is not False', '__debug__ == True', 'x is True', 'x == True', 'x is not False', 'not __debug__', '__debug__ is False',
         '__debug__ is not True', '__debug__ == False', 'True is __debug__', 'x', '__debug__ is 1', '__debug__ < True', '__debug__ is True is True']


def indent(src, n=1):
    return '\n'.join('    ' * n + l for l in src.split('\n'))


def gen_suite(r, depth, in_func, in_loop):
    n = r.choice([1, 1, 2, 3, 4])
    out = []
    for _ in range(n):
        out.append(gen_stmt(r, depth, in_func, in_loop))
    return '\n'.join(out)


def gen_stmt(r, depth, in_func, in_loop):
    if depth <= 0 or r.random() < 0.55:
        while True:
            s = r.choice(SIMPLE)
            if s.startswith('return') and not in_func:
                continue
            if s in ('break', 'continue') and not in_loop:
                continue
            if s == 'from m import *' and in_func:
                continue
            return s
    k = r.choice(['if', 'if', 'ifelse', 'ifelse', 'elif', 'for', 'forelse', 'while', 'with', 'try', 'tryfinally', 'tryelse', 'def', 'async', 'class', 'match', 'trystar'])
    sub = lambda fl=in_func, lp=in_loop: indent(gen_suite(r, depth - 1, fl, lp))
    t = r.choice(TESTS)
    if k == 'if':
        return 'if %s:\n%s' % (t, sub())
    if k == 'ifelse':
        return 'if %s:\n%s\nelse:\n%s' % (t, sub(), sub())
    if k == 'elif':
        return 'if %s:\n%s\nelif %s:\n%s\nelse:\n%s' % (t, sub(), r.choice(TESTS), sub(), sub())
    if k == 'for':
        return 'for i in y:\n%s' % sub(lp=True)
    if k == 'forelse':
        return 'for i in y:\n%s\nelse:\n%s' % (sub(lp=True), sub())
    if k == 'while':
        return 'while x:\n%s' % sub(lp=True)
    if k == 'with':
        return 'with c as e:\n%s' % sub()
    if k == 'try':
        return 'try:\n%s\nexcept E as e:\n%s\nexcept:\n%s' % (sub(), sub(), sub())
    if k == 'tryfinally':
        return 'try:\n%s\nfinally:\n%s' % (sub(), sub(lp=False))
    if k == 'tryelse':
        return 'try:\n%s\nexcept E:\n%s\nelse:\n%s\nfinally:\n%s' % (sub(), sub(), sub(), sub(lp=False))
    if k == 'def':
        return 'def f%d(a, b=1):\n%s' % (r.randint(0, 9), sub(True, False))
    if k == 'async':
        return 'async def g%d(a):\n%s' % (r.randint(0, 9), sub(True, False))
    if k == 'class':
        return 'class K%d(%s):\n%s' % (r.randint(0, 9), r.choice(['object', 'object, B', 'B', 'B, object, metaclass=M', '', 'a.object', 'object, object']), sub(False, False))
    if k == 'match':
        return 'match v:\n    case 1:\n%s\n    case _:\n%s' % (indent(sub()), indent(sub()))
    return 'try:\n%s\nexcept* E:\n%s' % (sub(lp=False), sub(lp=False))


DIRECTED = [
    'if __debug__:\n    a()\nelse:\n    b()\n', 'if x is True:\n    a()\n', 'if x == True:\n    a()\n', 'def f():\n    if __debug__:\n        a()\n',
    'def f():\n    if __debug__ is True:\n        a()\n    else:\n        b()\n', 'def f():\n    return None\n', 'def f():\n    return\n    return\n', 'def f():\n    x = 1\n    return None\n',
    'def f():\n    pass\n', 'class A(object):\n    pass\n', 'try:\n    pass\nexcept E:\n    pass\nfinally:\n    pass\n', 'match v:\n    case 1:\n        pass\n',
    'import a\nimport b\nfrom c import d\nfrom c import e\nfrom f import g\nfrom c import h\nimport i\n',
    'import json\nimport json as j\nimport os.path as p\nimport os.path\nimport textwrap, textwrap as tw\nprint(json, j, p, os, tw)\n', 'from m import a\nfrom m import a as b\nfrom m import a\nimport m\nimport m\n',
    'def f():\n    import json\n    import json as j\n    return json, j\nclass K:\n    import zlib\n    import zlib as z\n', 'from a import *\nfrom a import b\nfrom a import c\n',
    'from . import a\nfrom . import b\nfrom .. import c\nfrom .m import d\nfrom m import e\n', 'while x:\n    pass\nelse:\n    pass\n', 'for i in y:\n    assert i\n',
    'def f():\n    "doc"\n', '"""module doc"""\nx = 1\n', 'def f():\n    """doc"""\n    return 1\n', 'def f():\n    0\n', 'def f():\n    assert x\n    if __debug__:\n        y()\n',
    'def f():\n    lambda: None\n    return None\n', '"""doc"""\nprint(__doc__)\n', '"""doc"""\ndef f():\n    "fdoc"\n    return m.__doc__\n', '"""doc"""\ndef f():\n    "fdoc"\n    return 1\n', 'async def f():\n    return None\n', 'def f():\n    def g():\n        return None\n    return g\n',
]


def programs(r, tier):
    out = list(DIRECTED)
    n = 120 if tier == 'quick' else 3000
    for _ in range(n):
        out.append(gen_suite(r, r.choice([1, 2, 3]), False, False) + '\n')
    good = []
    for p in out:
        try:
            compile(p, '<p>', 'exec')
            good.append(p)
        except SyntaxError:
            pass
    return good


# ------------------------------------------------------------------------------------------------ leg T
def transformers():
    from python_minifier.transforms.remove_pass import RemovePass
    from python_minifier.transforms.remove_asserts import RemoveAsserts
    from python_minifier.transforms.remove_debug import RemoveDebug
    from python_minifier.transforms.remove_literal_statements import RemoveLiteralStatements
    from python_minifier.transforms.remove_explicit_return_none import RemoveExplicitReturnNone
    from python_minifier.transforms.remove_object_base import RemoveObject
    from python_minifier.transforms.combine_imports import CombineImports
    return [('RemovePass', RemovePass, 'module_suite drop_pass %s'), ('RemoveAsserts', RemoveAsserts, 'module_suite drop_assert %s'),
            ('RemoveDebug', RemoveDebug, 'module_suite drop_debug %s'), ('RemoveLiteralStatements', RemoveLiteralStatements, 'lit_transform DOC %s'),
            ('RemoveExplicitReturnNone', RemoveExplicitReturnNone, 'map ret_visit %s'), ('RemoveObject', RemoveObject, 'map obj_visit %s'),
            ('CombineImports', CombineImports, 'imp_suite %s')]


def leg_T(res, progs):
    from python_minifier.ast_annotation import add_parent
    from python_minifier.rename import add_namespace
    cases, meta, hits = [], [], collections.Counter()
    for p in progs:
        for name, cls, tmpl in transformers():
            tree = ast.parse(p)
            I = Interner()
            before = sk_suite(tree.body, I)
            add_parent(tree)
            add_namespace(tree)
            try:
                tree = cls()(tree)
            except Exception as e:   # noqa
                res.add_violation('c05-transformer-raises', '%s raised %s' % (name, type(e).__name__), {'source': p, 'transformer': name})
                continue
            after = sk_suite(tree.body, I)
            if after != before:
                hits[name] += 1
            uses_doc = any((isinstance(x, ast.Name) and x.id == '__doc__') or (isinstance(x, ast.Attribute) and x.attr == '__doc__') for x in ast.walk(ast.parse(p)))
            cases.append('stmts_eqb (%s) %s' % ((tmpl % before).replace('DOC', 'true' if uses_doc else 'false'), after))
            meta.append((name, p))
    header = ['From PM Require Import Model.Base Model.Struct Model.StructTable.']
    n, failing, raw = common.run_cases('c05T', header, cases, shard=300)
    if failing is None:
        res.broken.append(('correspondence', 'leg T: skeleton model evaluation failed: ' + raw[-500:]))
    elif failing:
        by = collections.Counter(meta[i][0] for i in failing)
        name, p = meta[failing[0]]
        res.broken.append(('correspondence', 'leg T: Model/Struct.v disagrees with the real transformers on %d of %d (program, transformer) cases %r, e.g. %s on %r' % (len(failing), n, dict(by), name, p)))
    for name, _c, _t in transformers():
        if hits[name] < 3:
            res.broken.append(('correspondence', 'inconclusive tie: transformer %s changed only %d generated programs' % (name, hits[name])))
    return n, dict(hits), [meta[i] for i in (failing or [])[:40]]


# ------------------------------------------------------------------------------------------------ canon_O oracle
BUILTIN_EXC = None


def builtin_exceptions():
    global BUILTIN_EXC
    if BUILTIN_EXC is None:
        import builtins
        BUILTIN_EXC = {n for n in dir(builtins) if isinstance(getattr(builtins, n), type) and issubclass(getattr(builtins, n), BaseException)}
    return BUILTIN_EXC


def may_be_shadowed_dynamically(tree):
    """a star import, or a reference that reaches module level as exec / eval / locals / globals / vars (the module is "tainted"):
    any builtin name may be re-bound behind the analysis' back, so no name counts as un-shadowed"""
    from harness import pyscope
    for n in ast.walk(tree):
        if isinstance(n, ast.ImportFrom) and any(a.name == '*' for a in n.names):
            return True
        if isinstance(n, (ast.Import, ast.ImportFrom)) and any(a.name.split('.')[0] == 'timeit' for a in n.names):
            return True
    try:
        r = pyscope.Resolver(tree)
        for (node, _f, _i, name, _sc, ctx), ident in zip(r.occ, r.identities()):
            if name in ('exec', 'eval', 'locals', 'globals', 'vars') and ident[0] in ('module', 'free') and ctx == 'load':
                return True
    except Exception:
        return True
    return False


def bound_names(tree):
    if may_be_shadowed_dynamically(tree):
        return set(builtin_exceptions()) | {'__everything__'}
    b = set()
    for n in ast.walk(tree):
        if isinstance(n, ast.Name) and isinstance(n.ctx, (ast.Store, ast.Del)):
            b.add(n.id)
        elif isinstance(n, (ast.FunctionDef, ast.AsyncFunctionDef, ast.ClassDef)):
            b.add(n.name)
        elif isinstance(n, ast.alias):
            b.add((n.asname or n.name).split('.')[0])
        elif isinstance(n, ast.arg):
            b.add(n.arg)
        elif isinstance(n, ast.ExceptHandler) and n.name:
            b.add(n.name)
        elif isinstance(n, (ast.Global, ast.Nonlocal)):
            b.update(n.names)
        elif isinstance(n, (ast.MatchAs, ast.MatchStar)) and n.name:
            b.add(n.name)
        elif isinstance(n, ast.MatchMapping) and n.rest:
            b.add(n.rest)
    return b


def is_zero_stmt(s):
    return isinstance(s, ast.Expr) and isinstance(s.value, ast.Constant) and type(s.value.value) is int and s.value.value == 0


def is_lit_stmt(s):
    return isinstance(s, ast.Expr) and isinstance(s.value, ast.Constant) and s.value.value is not Ellipsis


def debug_form(s):
    if not isinstance(s, ast.If) or s.orelse:
        return False
    t = s.test
    if isinstance(t, ast.Name) and t.id == '__debug__':
        return True
    if isinstance(t, ast.Compare) and len(t.ops) == 1 and isinstance(t.left, ast.Name) and t.left.id == '__debug__' and isinstance(t.comparators[0], ast.Constant):
        c = t.comparators[0].value
        return (isinstance(t.ops[0], ast.Is) and c is True) or (isinstance(t.ops[0], ast.IsNot) and c is False) or (isinstance(t.ops[0], ast.Eq) and c is True)
    return False


def protected_class(c):
    """dataclass / NamedTuple / TypedDict (the syntactic test the documentation states)"""
    for dec in c.decorator_list:
        t = dec.func if isinstance(dec, ast.Call) else dec
        if (isinstance(t, ast.Name) and t.id == 'dataclass') or (isinstance(t, ast.Attribute) and t.attr == 'dataclass'):
            return True
    for b in c.bases:
        if (isinstance(b, ast.Name) and b.id in ('NamedTuple', 'TypedDict')) or (isinstance(b, ast.Attribute) and b.attr in ('NamedTuple', 'TypedDict')):
            return True
    return False


class Canon(ast.NodeTransformer):
    def __init__(self, O, shadowed):
        self.O = O
        self.shadowed = shadowed
        self.cls = []
        self.erase_zero = any(O.get(k) for k in ('remove_pass', 'remove_asserts', 'remove_debug', 'remove_literal_statements', 'remove_explicit_return_none'))

    def suite(self, body, func=False):
        O = self.O
        out = []
        for s in body:
            if O.get('remove_pass') and isinstance(s, ast.Pass):
                continue
            if self.erase_zero and is_zero_stmt(s):
                continue
            if O.get('remove_literal_statements') and is_lit_stmt(s):
                continue
            if O.get('remove_asserts') and isinstance(s, ast.Assert):
                continue
            if O.get('remove_debug') and debug_form(s):
                continue
            out.append(s)
        if O.get('combine_imports'):
            flat = []
            for s in out:
                if isinstance(s, ast.Import):
                    flat += [ast.Import(names=[a]) for a in s.names]
                elif isinstance(s, ast.ImportFrom) and not (len(s.names) == 1 and s.names[0].name == '*'):
                    flat += [ast.ImportFrom(module=s.module, names=[a], level=s.level) for a in s.names]
                else:
                    flat.append(s)
            out = flat
        if func and O.get('remove_explicit_return_none'):
            while out and isinstance(out[-1], ast.Return) and out[-1].value is None:
                out.pop()
        return out

    def generic_visit(self, node):
        # only statements that are direct children of a class body are "class attributes" (the documented, syntactic test)
        cl = getattr(self, 'class_level', False)
        if isinstance(node, ast.stmt):
            self.class_level = False
        node = super().generic_visit(node)
        self.class_level = cl
        for f in ('body', 'orelse', 'finalbody'):
            v = getattr(node, f, None)
            if isinstance(v, list) and (not v or isinstance(v[0], ast.stmt)):
                setattr(node, f, self.suite(v, func=(f == 'body' and isinstance(node, (ast.FunctionDef, ast.AsyncFunctionDef)))))
        return node

    def visit_Return(self, node):
        node = self.generic_visit(node)
        if self.O.get('remove_explicit_return_none') and isinstance(node.value, ast.Constant) and node.value.value is None:
            node.value = None
        return node

    def visit_ClassDef(self, node):
        self.cls.append(node)
        prot = protected_class(node)
        old = getattr(self, 'in_protected', False)
        self.in_class_body = True
        self.in_protected = prot
        body = []
        for s in node.body:
            self.class_level = True
            body.append(self.visit(s))
        node.body = body
        self.in_protected = old
        self.class_level = False
        node.decorator_list = [self.visit(x) for x in node.decorator_list]
        node.bases = [self.visit(x) for x in node.bases]
        node.keywords = [self.visit(x) for x in node.keywords]
        node.body = self.suite(node.body)
        if self.O.get('remove_object_base'):
            node.bases = [b for b in node.bases if not (isinstance(b, ast.Name) and b.id == 'object')]
        self.cls.pop()
        return node

    def visit_FunctionDef(self, node):
        old = getattr(self, 'in_protected', False)
        self.in_protected = False
        node = self.generic_visit(node)
        self.in_protected = old
        if self.O.get('ann_ret'):
            node.returns = None
        return node
    visit_AsyncFunctionDef = visit_FunctionDef

    def visit_Lambda(self, node):
        return self.generic_visit(node)

    def visit_arguments(self, node):
        node = self.generic_visit(node)
        if self.O.get('convert_posargs_to_args'):
            node.args = node.posonlyargs + node.args
            node.posonlyargs = []
        return node

    def visit_arg(self, node):
        if self.O.get('ann_arg'):
            node.annotation = None
        return self.generic_visit(node)

    def visit_AnnAssign(self, node):
        cl = getattr(self, 'class_level', False)
        node = self.generic_visit(node)
        if cl:
            if not self.O.get('ann_cls') or getattr(self, 'in_protected', False):
                return node
        elif not self.O.get('ann_var'):
            return node
        if node.value is not None:
            return ast.Assign(targets=[node.target], value=node.value, type_comment=None)
        node.annotation = ast.Constant(value=0)
        return node

    def visit_Raise(self, node):
        node = self.generic_visit(node)
        if self.O.get('remove_builtin_exception_brackets') and isinstance(node.exc, ast.Call) and isinstance(node.exc.func, ast.Name) \
                and not node.exc.args and not node.exc.keywords and node.exc.func.id in builtin_exceptions() and node.exc.func.id not in self.shadowed:
            node.exc = node.exc.func
        return node

    def visit_stmt_default(self, node):
        return self.generic_visit(node)


def canon(tree, O, shadowed):
    tree = copy.deepcopy(tree)
    c = Canon(O, shadowed)
    # statements directly in a class body need the class_level flag only for themselves
    tree = c.visit(tree)
    if isinstance(tree, ast.Module):
        tree.body = c.suite(tree.body)
    return astcmp.dump(tree)


OPTS = ['remove_pass', 'remove_literal_statements', 'combine_imports', 'remove_object_base', 'remove_asserts', 'remove_debug', 'remove_explicit_return_none',
        'remove_builtin_exception_brackets', 'convert_posargs_to_args', 'ann_var', 'ann_ret', 'ann_arg', 'ann_cls']


def minify_with(src, O):
    import python_minifier
    from python_minifier import RemoveAnnotationsOptions
    kw = {k: bool(O.get(k)) for k in OPTS if not k.startswith('ann_')}
    kw['remove_annotations'] = RemoveAnnotationsOptions(remove_variable_annotations=bool(O.get('ann_var')), remove_return_annotations=bool(O.get('ann_ret')),
                                                        remove_argument_annotations=bool(O.get('ann_arg')), remove_class_attribute_annotations=bool(O.get('ann_cls')))
    return python_minifier.minify(src, hoist_literals=False, rename_locals=False, rename_globals=False, preserve_shebang=False, constant_folding=False, **kw)


ORACLE_EXTRA = [
    'import functools\nfrom dataclasses import dataclass\ndef register(c):\n    return c\n@register\n@functools.total_ordering\n@dataclass(eq=False)\nclass Version:\n    major: int = 0\n    minor: int\n    def __lt__(self, other):\n        return self.major < other.major\n',
    'import dataclasses\n@register\n@dataclasses.dataclass\nclass P:\n    x: int\n    y: int = 2\n@a.b.dataclass(frozen=True)\n@other\nclass Q:\n    z: str = "s"\n',
    'import typing\nclass Row(Mixin, typing.NamedTuple):\n    a: int\n    b: str = "b"\nclass Doc(Base, TypedDict, total=False):\n    title: str\nclass Plain(Mixin):\n    c: int = 1\n    d: int\n',
    'class Outer:\n    class Inner:\n        v: int = 1\n    w: int\n    def m(self, p: int = 1, *a: int, k: str = "k", **kw: int) -> str:\n        q: int = p\n        r: str\n        return q\n',
    'import dataclasses\n@dataclasses.dataclass\nclass A:\n    x: int = 1\n    y: str\nclass B:\n    z: int = 2\n    w: str\ndef f(a: int, b: str = "s") -> None:\n    c: int = 1\n    d: int\n    return None\n',
    'from typing import NamedTuple, TypedDict\nclass P(NamedTuple):\n    x: int\nclass Q(TypedDict):\n    y: int\n@dataclass\nclass R:\n    z: int\n',
    'def f(a, /, b, *, c):\n    return a\nlambda x, /, y: x\n',
    'raise ValueError()\n', 'def f():\n    raise KeyError()\n', 'ValueError = E\nraise ValueError()\n', 'def f(ValueError):\n    raise ValueError()\n', 'raise ValueError(1)\n', 'raise E()\n',
    'def f():\n    raise TypeError() from None\n', 'import ValueError\nraise ValueError()\n',
    # keyword-only calls keep their brackets; in a module where names can be re-bound dynamically nothing is "un-shadowed"
    'raise ImportError(name=n, path=p)\n', 'raise ValueError(**details)\n', 'def f():\n    raise KeyError(*args)\n', 'raise ValueError(value=v)\n',
    'from helpers import *\ndef f():\n    raise ValueError()\n', 'import timeit\nraise KeyError()\n', "eval('1')\ndef f():\n    raise TypeError()\n", 'def f():\n    print(locals())\n    raise OSError()\n',
    'def f():\n    global vars\n    raise ValueError()\n', 'class K:\n    def m(self):\n        exec("x")\n        raise IndexError()\n', 'from . import *\nraise RuntimeError()\n',
    # a value-less annotation is the only thing that makes the name local
    'def f():\n    size: int\n    def g():\n        nonlocal size\n        size = 1\n    g()\n    return [size for size in (size,)]\n', 'def f():\n    size: int\n    class C:\n        size = 0\n    def g():\n        nonlocal size\n        size = 2\n    g()\n    return size, C.size\n',
    # a bare return that is NOT the end of the function: inside try with an else clause, inside loops, before finally
    'def f(x):\n    try:\n        x()\n        return\n    except ValueError:\n        pass\n    else:\n        print("else")\n', 'def f(x):\n    for i in x:\n        if i:\n            return\n    else:\n        print(1)\n',
    'def f(x):\n    if x:\n        return None\n    else:\n        return\n', 'def f(x):\n    with x:\n        return None\n', 'def f(x):\n    try:\n        return None\n    finally:\n        print(2)\n', 'def f(x):\n    while x:\n        return\n    print(3)\n',
    '"""doc"""\nprint(__doc__)\n', '"""doc"""\ndef f():\n    "fdoc"\n    return __doc__\n', '"""doc"""\nimport m\nprint(m.__doc__)\n', '"""doc"""\nx = 1\n',
    # every way a module can mention __doc__: augmented assignment (reads the old value), store, delete, attribute store, global, in a branch, in a class, formatted
    '"""doc"""\n__doc__ += " more"\n', '"""doc"""\nif x:\n    __doc__ += "a"\nelse:\n    __doc__ += "b"\n', '"""doc"""\n__doc__ = "other"\n', '"""doc"""\ndel __doc__\n',
    '"""doc"""\ndef f():\n    global __doc__\n    __doc__ += "x"\n', '"""doc"""\nimport m\nm.__doc__ = "set"\n', '"""doc"""\nimport m\nm.__doc__ += "aug"\n', '"""doc"""\nclass C:\n    "cdoc"\n    __doc__ += "x"\n',
    '"""doc"""\nx = f"{__doc__}"\n', '"""doc"""\nx = [__doc__ for _ in y]\n', '"""doc"""\ndef f(d=__doc__):\n    "fdoc"\n    return d\n', '"""doc"""\nfor __doc__ in y:\n    pass\n',
    '"""doc"""\nwith a as __doc__:\n    pass\n', '"""doc"""\n(__doc__ := 1)\n', '"""doc"""\nimport m as __doc__\n', '"""doc"""\ndef f():\n    "fdoc"\n    f.__doc__ += "z"\n',
    'x: int\ny: int = 2\ndef f():\n    z: int\n    z = 1\n    return z\n', 'class C:\n    a: int\n    b: int = 1\n    def m(self, q: int) -> int:\n        r: int = q\n        return r\n',
]


def oracle(res, progs, r, tier):
    n = 0
    optsets = [{}] + [{o: True} for o in OPTS] + [{o: True for o in OPTS}]
    nrand = 6 if tier == 'quick' else 40
    for _ in range(nrand):
        optsets.append({o: True for o in OPTS if r.random() < 0.5})
    files = []
    if tier != 'quick':
        lib = common.STDLIB
        names = sorted(f for f in os.listdir(lib) if f.endswith('.py'))
        for f in names[:: 2 if tier == 'thorough' else 10]:
            try:
                files.append(open(os.path.join(lib, f), encoding='utf-8').read())
            except Exception:
                pass
    docs = []
    ddir = os.path.join(common.REPO, 'docs/source/transforms')
    for f in sorted(os.listdir(ddir)):
        if f.endswith('.py') and not f.endswith('.min.py'):
            docs.append(open(os.path.join(ddir, f)).read())
    allp = ORACLE_EXTRA + docs + progs + files
    for i, p in enumerate(allp):
        try:
            tree = ast.parse(p)
        except SyntaxError:
            continue
        shadowed = bound_names(tree)
        uses_doc = any((isinstance(x, ast.Name) and x.id == '__doc__') or (isinstance(x, ast.Attribute) and x.attr == '__doc__') for x in ast.walk(tree))
        sets = optsets if i < len(ORACLE_EXTRA) + len(docs) + 40 else [optsets[(i * 7 + k) % len(optsets)] for k in range(3)]
        for O in sets:
            n += 1
            try:
                out = minify_with(p, O)
                otree = ast.parse(out)
            except Exception as e:   # noqa
                res.add_violation('c05-minify-raises', 'minify raised %s' % type(e).__name__, {'source': p, 'options': O})
                continue
            # "un-shadowed" is judged on the tree the bracket transform saw: the blocks other enabled options removed (a star import or an
            # eval() inside a removed `if __debug__:`) no longer count, so dynamic shadowing is read off the OUTPUT
            shadowed_o = shadowed if not may_be_shadowed_dynamically(tree) else bound_names(otree)
            a, b = canon(tree, O, shadowed_o), canon(otree, O, shadowed_o)
            if a != b:
                res.add_violation('c05-undocumented-rewrite:' + diff_kind(tree, otree, O), 'output differs from the input by more than the documented rewrites of the enabled options', {'source': p, 'options': O, 'output': out})
                continue
            if O.get('remove_literal_statements') and uses_doc and tree.body and is_lit_stmt(tree.body[0]) and isinstance(tree.body[0].value.value, str):
                if not (otree.body and is_lit_stmt(otree.body[0]) and otree.body[0].value.value == tree.body[0].value.value):
                    res.add_violation('c05-module-docstring-dropped', 'the module uses __doc__ but its docstring was removed', {'source': p, 'options': O, 'output': out})
            # value-less annotated variable stays a local: `x: T` must remain an AnnAssign
            if O.get('ann_var'):
                ia = sum(1 for x in ast.walk(tree) if isinstance(x, ast.AnnAssign) and x.value is None)
                oa = sum(1 for x in ast.walk(otree) if isinstance(x, ast.AnnAssign) and x.value is None)
                if ia != oa:
                    res.add_violation('c05-valueless-annotation-dropped', 'a value-less annotated variable disappeared (%d -> %d)' % (ia, oa), {'source': p, 'options': O, 'output': out})
    return n


def diff_kind(a, b, O):
    """coarse classification of an undocumented difference, used as the finding signature"""
    ka = collections.Counter(type(x).__name__ for x in ast.walk(a))
    kb = collections.Counter(type(x).__name__ for x in ast.walk(b))
    gone = sorted(k for k in ka if ka[k] > kb.get(k, 0))
    return '-'.join(gone[:3]) or 'same-kinds'



# ------------------------------------------------------------------------------------------------ leg CF: the control-flow semantics
def cf_gen(r, depth, in_func=True):
    """a random suite over atoms, returns, if / while-else / with / try-else-finally / nested def: (coq term, python lines)"""
    n = r.randint(1, 3)
    coq, py = [], []
    for _ in range(n):
        k = r.random()
        if depth <= 0 or k < 0.35:
            a = r.randint(1, 60)
            c = r.random()
            if c < 0.5:
                coq.append('Simple (KOther %d)' % a); py.append('ev(%d)' % a)
            elif c < 0.6:
                coq.append('Simple KPass'); py.append('pass')
            elif c < 0.7:
                coq.append('Simple (KLit %d)' % a); py.append('%d' % a)
            elif c < 0.8:
                coq.append('Simple (KReturn RBare)'); py.append('return')
            elif c < 0.9:
                coq.append('Simple (KReturn RNoneConst)'); py.append('return None')
            else:
                coq.append('Simple (KReturn (ROther %d))' % a); py.append('return ev(%d)' % a)
            continue
        b1c, b1p = cf_gen(r, depth - 1)
        b2c, b2p = cf_gen(r, depth - 1) if r.random() < 0.7 else ('[]', [])
        ind = lambda ls: ['    ' + x for x in ls]
        if k < 0.55:
            coq.append('Block (BIf (TOther 0)) [%s] [%s] []' % (b1c, b2c))
            py += ['if orc():'] + ind(b1p) + (['else:'] + ind(b2p) if b2p else [])
        elif k < 0.68:
            coq.append('Block (BLoop 0) [%s] [%s] []' % (b1c, b2c))
            py += ['while orc():'] + ind(b1p) + (['else:'] + ind(b2p) if b2p else [])
        elif k < 0.78:
            coq.append('Block (BWith 0) [%s] [] []' % b1c)
            py += ['with ctx:'] + ind(b1p)
        elif k < 0.93:
            b3c, b3p = cf_gen(r, depth - 1) if r.random() < 0.6 else ('[]', [])
            coq.append('Block BTry [%s] [%s; %s] [[Simple (KOther 99)]]' % (b1c, b2c, b3c))
            py += ['try:'] + ind(b1p) + ['except ZeroDivisionError:', '    ev(99)'] + (['else:'] + ind(b2p) if b2p else []) + (['finally:'] + ind(b3p) if b3p else [])
        else:
            a = r.randint(61, 90)
            coq.append('Block (BFunc %d) [%s] [] []' % (a, b1c))
            py += ['ev(%d)' % a, 'def inner_%d():' % a] + ind(b1p)
    return '[' + '; '.join(coq) + ']', py


CF_PRELUDE = """import contextlib, json, sys
trace = []
def ev(i):
    trace.append(i)
    return i
ctx = contextlib.nullcontext()
class Exhausted(Exception):
    pass
def orc():
    if not oracle:
        raise Exhausted()
    return oracle.pop(0)
"""


def leg_CF(res, r, tier):
    """Model/ControlFlow.v (`call`) against CPython: the same function body, the same oracle -> the same events, returned value and
    number of oracle answers consumed; also for the body RemoveExplicitReturnNone's model makes of it"""
    import subprocess
    n = 60 if tier == 'quick' else 600
    bodies = [cf_gen(r, 3) for _ in range(n)]
    oracles = [[r.random() < 0.45 for _ in range(30)] for _ in range(n)]
    prog = [CF_PRELUDE]
    for i, (c, p) in enumerate(bodies):
        prog += ['def f_%d():' % i] + ['    ' + x for x in p] + ['']
    prog += ['out = []', 'for i, orc_list in enumerate(%r):' % oracles, '    oracle = list(orc_list)', '    del trace[:]',
             '    try:', '        v = globals()["f_%d" % i]()', '        out.append([list(trace), v, len(oracle)])', '    except Exhausted:', '        out.append(None)', 'print(json.dumps(out))']
    with common.scratch('c05cf-') as d_:
        path_ = os.path.join(d_, 'bodies.py')
        open(path_, 'w').write('\n'.join(prog))
        p = subprocess.run([common.PY, '-I', path_], stdout=subprocess.PIPE, stderr=subprocess.PIPE, timeout=600)
    if p.returncode != 0:
        res.broken.append(('reference-model', 'leg CF: the rendered skeleton programs did not run: ' + p.stderr.decode()[-300:]))
        return 0
    got = json.loads(p.stdout)
    cases = []
    for (c, _p), o, g in zip(bodies, oracles, got):
        ol = '[' + '; '.join('true' if b else 'false' for b in o) + ']'
        if g is None:
            exp = 'None'
        else:
            exp = 'Some ([%s], %s, %d)' % ('; '.join('%d%%N' % x for x in g[0]), 'None' if g[1] is None else '(Some %d%%N)' % g[1], g[2])
        for body in ('(%s)%%N' % c, '(ret_body (%s)%%N)' % c):
            cases.append('cf_eqb (call 400 %s %s) (%s)' % (ol, body, exp))
    header = ['From PM Require Import Model.Base Model.Struct Model.ControlFlow.', 'Open Scope bool_scope.',
              'Definition oN_eqb (a b : option N) : bool := match a, b with Some x, Some y => N.eqb x y | None, None => true | _, _ => false end.',
              'Definition cf_eqb (a : option (list N * option N * list bool)) (b : option (list N * option N * nat)) : bool := match a, b with',
              "  | Some (t, v, o), Some (t', v', n) => text_eqb t t' && oN_eqb v v' && Nat.eqb (length o) n",
              '  | None, None => true | _, _ => false end.']
    nn, failing, raw = common.run_cases('c05CF', header, cases, shard=60)
    if failing is None:
        res.broken.append(('reference-model', 'leg CF: control-flow model evaluation failed: ' + raw[-400:]))
    elif failing:
        res.broken.append(('reference-model', 'leg CF: Model/ControlFlow.v disagrees with CPython on %d of %d (body, oracle) cases, e.g. %s' % (len(failing), nn, cases[failing[0]][:400])))
    return nn

def run(pid, tier):
    res = common.Result(pid, tier)
    res.trusted = TRUSTED
    res.assumptions = ['the parser never produces an empty body suite', 'interned identifiers: two sub-terms with the same ast.dump are the same']
    common.standard_proof_phase(res, ['pipeline'], 'Properties/C05.v', model_targets=['Model/StructTable.vo', 'Model/ControlFlow.vo'])
    r = common.rng(pid)
    progs = programs(r, tier if not res.broken else 'thorough')
    with common.coq_lock():
        nT, hits, failing = leg_T(res, progs)
        nCF = leg_CF(res, r, tier)
    nO = oracle(res, progs, r, tier)
    res.samples = [progs[0], progs[len(DIRECTED) + 1] if len(progs) > len(DIRECTED) + 1 else progs[-1]]
    res.coverage.update({'leg_CF_control_flow_cases_vs_cpython': nCF, 'leg_T_cases': nT, 'leg_T_programs_changed_per_transformer': hits, 'oracle_cases': nO, 'evaluations': nT + nO, 'distinct_nontrivial': len(set(progs)),
                         'rule': 'programs: directed shapes + random statement trees putting every statement kind into every suite position (function/class/loop/else/except/finally/match case/try*); leg T case = (program, transformer); oracle case = (program, option record)'})
    return res.finish()
