"""Generator of scope-rich Python programs (mostly valid; validity is decided by compile()).
Every random choice comes from the Random instance passed in (derived from VERIF_SEED)."""
import ast

NAMES = ['a', 'b', 'c', 'x', 'y', 'foo', 'bar', 'data', 'item', 'value', 'result', 'total', 'handler', 'config_value', 'I', 'Q', 'A', 'B']
BUILTINS = ['len', 'print', 'str', 'int', 'range', 'list', 'ValueError', 'sorted', 'isinstance']
STRS = ["'hello world'", "'key'", "'a longer string literal'", "b'bytes here'", "''", "'x'"]


class Gen:
    def __init__(self, r, depth=3, triggers=False, allow_class=True):
        self.r = r
        self.maxdepth = depth
        self.triggers = triggers
        self.allow_class = allow_class

    def name(self):
        return self.r.choice(NAMES)

    def expr(self, d=2, scope_names=()):
        r = self.r
        k = r.random()
        pool = list(scope_names) or NAMES
        if d <= 0 or k < 0.3:
            u = r.random()
            if u < 0.5:
                return r.choice(pool)
            if u < 0.7:
                return r.choice(STRS)
            if u < 0.8:
                return r.choice(BUILTINS)
            return str(r.randint(0, 9))
        if k < 0.42:
            return '%s %s %s' % (self.expr(d - 1, pool), r.choice(['+', '-', '*', 'and', 'or', '==', '<', 'in']), self.expr(d - 1, pool))
        if k < 0.54:
            args = [self.expr(d - 1, pool) for _ in range(r.randint(0, 2))]
            if r.random() < 0.4:
                args.append('%s=%s' % (self.name(), self.expr(d - 1, pool)))
            return '%s(%s)' % (r.choice(pool + BUILTINS), ', '.join(args))
        if k < 0.6:
            return '%s.%s' % (r.choice(pool), self.name())
        if k < 0.66:
            return '%s[%s]' % (r.choice(pool), self.expr(d - 1, pool))
        if k < 0.72:
            p = [self.name() for _ in range(r.randint(0, 2))]
            p = list(dict.fromkeys(p))
            sig = list(p)
            u = r.random()
            if u < 0.15 and len(sig) >= 1:
                sig.insert(1, '/')
            if u > 0.75:
                sig.append('*args')
                p = p + ['args']
            if u > 0.88:
                sig.append('**kwargs')
                p = p + ['kwargs']
            return '(lambda %s: %s)' % (', '.join(sig), self.expr(d - 1, pool + p))
        if k < 0.84:
            t = self.name()
            t2 = self.name()
            form = r.choice(['[%s for %s in %s%s]', '{%s for %s in %s%s}', '(%s for %s in %s%s)', '{%s: 1 for %s in %s%s}'])
            cond = ''
            u = r.random()
            if u < 0.25:
                cond = ' if %s' % self.expr(d - 1, pool + [t])
            elif u < 0.4 and t2 != t:
                cond = ' for %s in %s' % (t2, self.expr(d - 1, pool + [t]))
            elif u < 0.5:
                w = self.name()
                if w != t:
                    cond = ' if (%s := %s)' % (w, self.expr(d - 1, pool + [t]))
            elif u < 0.62:
                w = self.name()
                if w not in (t, t2) and t != t2:
                    inner = r.choice(['[(%s := %s) for %s in %s]', 'any((%s := %s) > 1 for %s in %s)', '{(%s := %s): 1 for %s in %s}']) % (w, t2, t2, t)
                    return form % (inner, t, self.expr(d - 1, pool), '')
            return form % (self.expr(d - 1, pool + [t]), t, self.expr(d - 1, pool), cond)
        if k < 0.9:
            return '(%s if %s else %s)' % (self.expr(d - 1, pool), self.expr(d - 1, pool), self.expr(d - 1, pool))
        if k < 0.95:
            return "f'{%s}-{%s!r}'" % (r.choice(pool), r.choice(pool))
        return '(%s, %s)' % (self.expr(d - 1, pool), self.expr(d - 1, pool))

    def suite(self, d, ctx):
        n = self.r.choice([1, 2, 2, 3, 4])
        out = []
        for _ in range(n):
            out.extend(self.stmt(d, ctx))
        return out

    def params(self):
        r = self.r
        names = list(dict.fromkeys(self.name() for _ in range(r.randint(0, 4))))
        parts = []
        seen_default = False
        posonly = r.random() < 0.15 and len(names) >= 2
        for i, n in enumerate(names):
            if seen_default or r.random() < 0.3:
                parts.append('%s=%s' % (n, r.choice([self.name(), '1', "'d'", 'None'])))
                seen_default = True
            else:
                parts.append(n)
            if posonly and i == 0:
                parts.append('/')
        extra = []
        u = r.random()
        used = set(names)
        if u < 0.2:
            extra.append('*args')
            used.add('args')
        elif u < 0.35:
            k = self.name()
            if k not in used:
                extra.append('*')
                extra.append('%s=%s' % (k, r.choice([self.name(), '2'])))
                used.add(k)
        if r.random() < 0.15:
            extra.append('**kwargs')
            used.add('kwargs')
        return ', '.join(parts + extra), sorted(used)

    def stmt(self, d, ctx):
        """ctx: dict(kind=module|function|class, locals=[...], enclosing_func_locals=[...], loop=bool)"""
        r = self.r
        ind = lambda lines: ['    ' + l for l in lines]
        pool = ctx['locals'] + NAMES[:4]
        k = r.random()
        if d <= 0 or k < 0.4:
            u = r.random()
            t = self.name()
            if u < 0.4:
                ctx['locals'].append(t)
                return ['%s = %s' % (t, self.expr(2, pool))]
            if u < 0.5:
                ctx['locals'].append(t)
                return ['%s += %s' % (t, self.expr(1, pool))] if t in ctx['locals'][:-1] else ['%s = %s' % (t, self.expr(1, pool))]
            if u < 0.65:
                return ['print(%s)' % self.expr(2, pool)]
            if u < 0.72 and ctx['kind'] == 'function':
                return ['return %s' % self.expr(2, pool)]
            if u < 0.78:
                m = r.choice(['os', 'sys', 'json', 'collections', 'os.path'])
                if r.random() < 0.5:
                    return ['import %s' % m]
                return ['import %s as %s' % (m, t)]
            if u < 0.84:
                if r.random() < 0.5:
                    return ['from os import %s' % r.choice(['path', 'sep', 'getcwd'])]
                return ['from collections import OrderedDict as %s' % t]
            if u < 0.88 and ctx['kind'] == 'function':
                g = self.name()
                if g not in ctx['locals'] and g not in ctx.get('params', []):
                    ctx.setdefault('globals', []).append(g)
                    return ['global %s' % g, '%s = %s' % (g, self.expr(1, pool))]
            if u < 0.92 and ctx['kind'] == 'function' and ctx.get('enclosing'):
                nl = r.choice(ctx['enclosing'])
                if nl not in ctx['locals'] and nl not in ctx.get('params', []) and nl not in ctx.get('globals', []):
                    ctx.setdefault('nonlocals', []).append(nl)
                    return ['nonlocal %s' % nl, '%s = %s' % (nl, self.expr(1, pool))]
            if u < 0.95:
                return ['if (%s := %s):' % (t, self.expr(1, pool))] + ind(['print(%s)' % t])
            if self.triggers and u < 0.98:
                return [r.choice(['eval(%r)' % 'a', 'exec(%r)' % 'x = 1', 'print(locals())', 'print(globals())', 'print(vars())'])]
            return ['pass']
        if k < 0.55:
            fname = self.name()
            ps, pnames = self.params()
            inner = {'kind': 'function', 'locals': [], 'params': pnames, 'loop': False,
                     'enclosing': (ctx['locals'] + ctx.get('params', []) + ctx.get('enclosing', [])) if ctx['kind'] == 'function' else list(ctx.get('outer_function_locals', []))}
            body = self.suite(d - 1, inner)
            # global/nonlocal declarations must precede uses: move them first
            decl = [l for l in body if l.startswith(('global ', 'nonlocal '))]
            rest = [l for l in body if not l.startswith(('global ', 'nonlocal '))]
            deco = []
            if r.random() < 0.15:
                deco = ['@%s' % r.choice(['staticmethod', 'classmethod', 'property', self.name()])] if ctx['kind'] == 'class' else ['@%s' % self.name()]
            ctx['locals'].append(fname)
            head = ('async def ' if r.random() < 0.08 else 'def ') + '%s(%s):' % (fname, ('self, ' + ps if ps else 'self') if ctx['kind'] == 'class' and r.random() < 0.8 else ps)
            doc = ["'''doc'''"] if r.random() < 0.15 else []
            return deco + [head] + ind(doc + decl + (rest or ['pass']))
        if k < 0.62 and self.allow_class:
            cname = r.choice(['K', 'Widget', 'foo', 'Base'])
            inner = {'kind': 'class', 'locals': [], 'loop': False,
                     'outer_function_locals': (ctx['locals'] + ctx.get('params', [])) if ctx['kind'] == 'function' else list(ctx.get('outer_function_locals', []))}
            body = self.suite(d - 1, inner)
            ctx['locals'].append(cname)
            bases = r.choice(['', '(object)', '(%s)' % self.name(), '(Base, metaclass=%s)' % self.name()])
            return ['class %s%s:' % (cname, bases)] + ind(body or ['pass'])
        sub = lambda: ind(self.suite(d - 1, ctx) or ['pass'])
        if k < 0.7:
            return ['if %s:' % self.expr(1, pool)] + sub() + (['else:'] + sub() if r.random() < 0.4 else [])
        if k < 0.78:
            t = self.name()
            ctx['locals'].append(t)
            tgt = t if r.random() < 0.7 else '%s, %s' % (t, self.name())
            return ['for %s in %s:' % (tgt, self.expr(1, pool))] + sub()
        if k < 0.83:
            return ['while %s:' % self.expr(1, pool)] + sub() + ['    break']
        if k < 0.9:
            e = self.name()
            ctx['locals'].append(e)
            return ['try:'] + sub() + ['except %s as %s:' % (r.choice(['ValueError', 'Exception', self.name()]), e)] + sub() + (['finally:'] + sub() if r.random() < 0.3 else [])
        if k < 0.95:
            t = self.name()
            ctx['locals'].append(t)
            return ['with %s as %s:' % (self.expr(1, pool), t)] + sub()
        t, t2 = self.name(), self.name()
        ctx['locals'] += [t, t2]
        return ['match %s:' % self.expr(1, pool), '    case [%s, *%s]:' % (t, t2 if t2 != t else 'rest')] + ind(sub()) + ['    case {"k": %s, **%s}:' % (t, 'others')] + ind(sub()) + ['    case _:'] + ind(sub())

    def module(self):
        ctx = {'kind': 'module', 'locals': [], 'loop': False}
        lines = []
        if self.r.random() < 0.2:
            lines.append("'''module doc'''")
        if self.r.random() < 0.1:
            lines.append('from __future__ import annotations')
        if self.r.random() < 0.25:
            lines.append('__all__ = [%s]' % ', '.join(repr(self.name()) for _ in range(self.r.randint(1, 3))))
            if self.r.random() < 0.5:
                lines.append('__all__ += [%s]' % ', '.join(repr(self.name()) for _ in range(self.r.randint(1, 2))))
            if self.r.random() < 0.2:
                lines.append('__all__: list = __all__ + [%r]' % self.name())
        for _ in range(self.r.randint(2, 6)):
            lines.extend(self.stmt(self.maxdepth, ctx))
        return '\n'.join(lines) + '\n'


def valid(src):
    import warnings
    with warnings.catch_warnings():
        warnings.simplefilter('ignore')
        try:
            compile(src, '<gen>', 'exec', dont_inherit=True)
            return True
        except (SyntaxError, ValueError, RecursionError):
            return False


def programs(r, n, depth=3, triggers=False):
    out = []
    tries = 0
    while len(out) < n and tries < n * 20:
        tries += 1
        g = Gen(r, depth=r.choice([1, 2, depth]), triggers=triggers)
        src = g.module()
        if valid(src):
            out.append(src)
    return out


DIRECTED = [
    "GRID = [[1, 2], [3, 4]]\ncells = [[(last_cell := value) for value in row] for row in GRID]\nrows = [row for row in GRID if any((biggest := cell) > 3 for cell in row)]\nprint(last_cell, biggest)\n",
    "def f(rows):\n    found = [[(last_cell := value) for value in row] for row in rows]\n    return found, last_cell\n",
    "def outer():\n    counter = 0\n    class Registry:\n        counter = 'attribute'\n        class Entry:\n            def bump(self):\n                nonlocal counter\n                counter += 1\n                return counter\n    return Registry.Entry().bump(), counter\n",
    "def outer(limit):\n    total_value = limit\n    class Holder:\n        def read(self):\n            return total_value\n        def write(self, amount):\n            nonlocal total_value\n            total_value = amount\n    return Holder\n",
    "def fetch(*, scheme='https', fallback='https', other='https'):\n    return scheme\nclass Client:\n    def get(self, *, mode='binary mode', alt='binary mode', third='binary mode'):\n        return mode\n",
    "import sys\nclass Slotted:\n    if sys.version_info >= (3, 0):\n        __slots__ = ('first_field', 'second_field', '__weakref__')\n    else:\n        __slots__ = ('first_field',)\n    def names(self):\n        return ['first_field', 'second_field', 'first_field', 'second_field', 'first_field', 'second_field']\n",
    "__all__ = ['alpha_name']\n__all__ += ['beta_name']\n__all__: list = __all__ + ['gamma_name']\nalpha_name = 1\nbeta_name = 2\ngamma_name = 3\ndelta_name = alpha_name + beta_name + gamma_name\n",
    "handlers = [lambda *args, **kwargs: (args, kwargs), lambda first, second, /: first + second, lambda value, *rest, flag=None: (value, rest, flag)]\n",
    "def f():\n    from django.db.models import Q\n    from re import I, M\n    alpha=beta=gamma=delta=epsilon=zeta=eta=theta=iota=kappa=lam=mu=nu=xi=omicron=pi=rho=sigma=1\n    return [alpha,beta,gamma,delta,epsilon,zeta,eta,theta,iota,kappa,lam,mu,nu,xi,omicron,pi,rho,sigma,Q,I,M,alpha,beta,gamma,delta,epsilon,zeta,eta,theta,iota,kappa,lam,mu,nu,xi,omicron,pi,rho,sigma]\n",
    "x = 1\ndef f(x):\n    class C:\n        x = x\n    return C.x\nprint(f(10))\n",
    "__version_info__ = (1, 4, 2)\n__author_email__ = 'a@b'\n__all_names__ = []\n__x__ = 1\n__ = 2\n___ = 3\ndef handler(request):\n    __traceback_info__ = request\n    __traceback_supplement__ = (request, 1)\n    __tracebackhide__ = True\n    __ = request\n    return __traceback_info__, __version_info__, __tracebackhide__, __traceback_supplement__, __\nprint(handler(1), __author_email__, __all_names__, __x__, __, ___)\n",
    'def outer():\n    __private_state__ = 0\n    def inner():\n        nonlocal __private_state__\n        __private_state__ += 1\n        return __private_state__\n    class K:\n        __slots_like__ = ()\n        def method(self, __weird_arg__=1):\n            return __weird_arg__\n    return inner(), K().method()\nprint(outer())\n',
    "'''shared documentation text'''\nclass Transport:\n    '''shared documentation text'''\n    async def connect(self, host):\n        '''open the connection to the host'''\n        return host\n    async def reconnect(self, host):\n        '''open the connection to the host'''\n        return host\n    def close(self):\n        '''shared documentation text'''\n        return 'shared documentation text', 'open the connection to the host'\nasync def ping():\n    '''open the connection to the host'''\ndef pong():\n    '''shared documentation text'''\nprint(Transport.connect.__doc__, Transport.close.__doc__, ping.__doc__, pong.__doc__, __doc__)\n",
    "def outer():\n    'repeated docstring value'\n    def inner():\n        'repeated docstring value'\n        return 'repeated docstring value'\n    async def ainner():\n        'repeated docstring value'\n    class K:\n        'repeated docstring value'\n    return inner.__doc__, ainner.__doc__, K.__doc__, inner()\nprint(outer(), outer.__doc__)\n",
    "value = 'module'\ndef f(value):\n    class C:\n        global value\n        seen = value\n        items = [item for item in value]\n    return C.seen, C.items, value\nprint(f('param'))\n",
    'counter = 10\ndef outer(counter):\n    def middle():\n        class Holder:\n            global counter\n            snapshot = counter + 1\n            def method(self):\n                return counter\n        return Holder.snapshot, Holder().method(), counter\n    return middle()\nprint(outer(1))\n',
    'total = 5\ndef g(total):\n    class K:\n        global total\n        total = total + 1\n    return total\nprint(g(100), total)\n',
    "result = A.join(['hello world', 'hello world', 'hello world', 'hello world'])\nother = B('hello world') + C\n",
    "def g():\n    return A, B, 'some repeated text', 'some repeated text', 'some repeated text', 'some repeated text'\nfirst_global = 1\nsecond_global = first_global + first_global\n",
    'def gérer_événement(résumé, année_courante=1):\n    compteur_übersicht = résumé\n    return compteur_übersicht, année_courante\nrésumé = gérer_événement(1)\nñandú = résumé\nprint(ñandú)\n',
    "limit = 3\nclass Outer:\n    limit = 'outer attribute'\n    len = 'not the builtin'\n    class Inner:\n        def run(self, values):\n            local_total = len(values) + limit\n            return local_total\nprint(Outer.Inner().run([1, 2]))\n",
    'def f():\n    size: int\n    def g():\n        nonlocal size\n        size = 1\n    g()\n    return [size for size in (size,)]\nprint(f())\n',
    'def f():\n    size: int\n    class C:\n        size = 0\n    def g():\n        nonlocal size\n        size = 2\n    g()\n    return size, C.size\nprint(f())\n',
    'def f():\n    total: int\n    count: int = 0\n    def g():\n        nonlocal total, count\n        total = 5\n        count += 1\n    g()\n    return total, count\nprint(f())\n',
    'A = 1\nbbb = 2\nB = 5\ndef f():\n    global A, bbb, B\n    bbb = bbb+bbb+bbb+bbb\n    A = 3\n    B = A + bbb\nf()\nprint(A, bbb, B)\n',
    'def o():\n    A = 1\n    bbb = 2\n    B = 0\n    def f():\n        nonlocal A, bbb, B\n        bbb = bbb+bbb+bbb+bbb\n        A = 3\n        B = A\n    f()\n    return A, bbb, B\nprint(o())\n',
    'C = 1\nlong_counter_name = 2\ndef g():\n    global long_counter_name, C\n    long_counter_name += long_counter_name + long_counter_name\n    C += 1\n    return long_counter_name, C\nprint(g())\n',
    "def make(scale):\n    limit = scale * 10\n    class Config:\n        A = 'alpha'\n        B = 'beta'\n        C = 'gamma'\n        threshold = limit\n        def D(self):\n            return limit\n    return Config.threshold, Config.A, Config.B, Config().D()\nprint(make(3))\n",
    "def build(prefix, suffix):\n    joined = prefix + suffix\n    class Names:\n        A = 1\n        B = 2\n        class C:\n            inner = joined\n        first = joined\n        second = [joined for _ in range(1)]\n    return Names.first, Names.C.inner, Names.second, Names.A, Names.B\nprint(build('p', 's'))\n",
    "def tagged():\n    class Tags:\n        A = 'shared text'\n        B = 'shared text'\n        C = 'shared text', 'shared text', 'shared text'\n        D = 'other text', 'other text', 'other text', 'other text'\n    return Tags.A, Tags.B, Tags.C, Tags.D\nprint(tagged())\n",
    "class Bus:\n    def register(*handlers, priority=0, label='x'):\n        return handlers, priority, label\n    @classmethod\n    def make(*, alpha_value, beta_value=1):\n        return alpha_value, beta_value\n    async def run(*, mode_name):\n        return mode_name\n    @staticmethod\n    def static_one(*, flag_name):\n        return flag_name\n    def only_kwargs(**options):\n        return options\n    def normal(self, first_arg, *, keyword_arg=None):\n        return first_arg, keyword_arg\n    @classmethod\n    def build(cls, *parts, joiner=''):\n        return joiner.join(parts)\nprint(Bus.register(1, 2, priority=3), Bus.static_one(flag_name=1))\n",
    'def outer_function():\n    class Local:\n        def method(*args_tuple, keyword_one=1, keyword_two=2):\n            return args_tuple, keyword_one, keyword_two\n        def plain(*, only_keyword):\n            return only_keyword\n    return Local\n',
    'def f(text):\n    from re import I, M\n    from django.db.models import Q, F\n    flags = [I, M, Q, F, I, M, Q, F, I, M, Q, F, I | M]\n    alpha = beta = gamma = delta = epsilon = zeta = eta = theta = iota = kappa = lam = mu = nu = xi = 1\n    return [flags, alpha, beta, gamma, delta, epsilon, zeta, eta, theta, iota, kappa, lam, mu, nu, xi, text]\n',
    'from re import I, M\nfrom os import F_OK as F\nflags = [I, M, F, I, M, F, I, M, F, I | M]\nalpha = beta = gamma = delta = epsilon = zeta = eta = theta = iota = kappa = lam = mu = nu = xi = 1\nprint(flags, alpha, beta, gamma, delta, epsilon, zeta, eta, theta, iota, kappa, lam, mu, nu, xi)\n',
    'def g(B, A=2, *C, D=4, **E):\n    alpha = beta = gamma = delta = epsilon = zeta = eta = theta = iota = kappa = lam = mu = nu = xi = 1\n    return [A, B, C, D, E, A, B, C, D, E, alpha, beta, gamma, delta, epsilon, zeta, eta, theta, iota, kappa, lam, mu, nu, xi]\n',
    "def f(a, b=1, *args, c=2, **kwargs):\n    return a + b + c + len(args) + len(kwargs)\nprint(f(1))\n",
    "def outer():\n    total = 0\n    def inner(x):\n        nonlocal total\n        total += x\n        return total\n    return inner\n",
    "x = 1\ndef f():\n    global x\n    x = 2\n    return x\n",
    "class A:\n    attr = 1\n    def method(self, value):\n        return self.attr + value\n    other = attr\n",
    "def f(timeout):\n    def inner(url, *, timeout=timeout, retries=3):\n        return url, timeout, retries\n    return inner\n",
    "def f(items):\n    return [item * scale for item in items for scale in range(item)]\n",
    "def f(z):\n    if (n := len(z)) > 1:\n        return n\n    return [m for q in z if (m := q)]\n",
    "import os.path\nimport sys as system\nfrom collections import OrderedDict, defaultdict as dd\ndef f():\n    import json\n    return json, os, system, OrderedDict, dd\n",
    "try:\n    pass\nexcept ValueError as err:\n    print(err)\n",
    "def f(data):\n    match data:\n        case [first, *rest]:\n            return first, rest\n        case {'k': value, **others}:\n            return value, others\n        case str() as text:\n            return text\n",
    "def f(a, /, b, *, c):\n    return a + b + c\nf(1, b=2, c=3)\n",
    "def f(long_name):\n    return (lambda long_name: long_name * 2)(long_name) + (lambda y=long_name: y)()\n",
    "def deco(fn):\n    return fn\n@deco\ndef f(argument_one, argument_two=deco):\n    return argument_one, argument_two\n",
    "class K:\n    def m(self):\n        return __class__\n    @classmethod\n    def c(cls, v):\n        return cls, v\n    @staticmethod\n    def s(first, second):\n        return first, second\n",
    "def f():\n    from re import I\n    aaa=bbb=ccc=ddd=eee=fff=ggg=hhh=iii=jjj=1\n    return [aaa,bbb,ccc,ddd,eee,fff,ggg,hhh,iii,jjj,I,aaa,bbb,ccc,ddd,eee,fff,ggg,hhh,iii,jjj]\n",
    "def gen(values):\n    for value in values:\n        yield value\n    with open(values) as handle:\n        return handle\n",
    "counter = 0\ndef bump():\n    global counter\n    counter += 1\nclass C:\n    counter = counter\n",
    "def f(values):\n    total = sum(value for value in values)\n    del values\n    return total\n",
    "def f(self_like, *, key=None):\n    def g(*a, **k):\n        return self_like, key, a, k\n    return g\n",
    "import a.b.c\nimport d.e as f\nprint(a, f)\n",
    "def f(x):\n    class Inner:\n        y = x\n        def g(self):\n            return x\n    return Inner\n",
    "hello = 'hello world hello world'\ndef f():\n    return 'hello world hello world' + 'hello world hello world' + 'hello world hello world'\n",
    "def f():\n    '''doc'''\n    return 'repeated literal value', 'repeated literal value', 'repeated literal value', b'bytes literal', b'bytes literal', b'bytes literal'\n",
    "from __future__ import annotations\n'''not a docstring'''\nx = 'some repeated text', 'some repeated text', 'some repeated text'\n",
    "def f():\n    return True, True, True, True, None, None, None, None, False, False, False, False\n",
    "class S:\n    __slots__ = ('first_slot', 'second_slot')\n    names = ('first_slot', 'second_slot', 'first_slot', 'second_slot')\n",
    "def f(v):\n    match v:\n        case 'pattern text':\n            return 'pattern text' + 'pattern text' + 'pattern text'\n",
    "def f(n):\n    return f'literal part {n} literal part' + 'literal part' + 'literal part' + 'literal part'\n",
    "def outer():\n    def a():\n        return 'shared string value'\n    def b():\n        return 'shared string value', 'shared string value'\n    return a, b\n",
    "def f(d='default text', e='default text', g='default text'):\n    return d + e + g + 'default text'\n",
]


# programs on which the STRUCTURAL transforms act (annotated assignments, adjacent imports, asserts, pass, return None, object bases,
# foldable arithmetic, exception brackets, debug ifs) inside class bodies nested in functions, in headers, in comprehensions -
# with names that also exist in the enclosing scopes.  Used to compare renaming / hoisting on top of the transformed tree.
TRANSFORM_SHAPES = [
    "timeout = 99\nretries = 7\ndef build(flag):\n    class Settings:\n        timeout: int = 30\n        if flag:\n            retries: int = 3\n        else:\n            retries: int = 5\n        try:\n            verbose: bool = False\n        finally:\n            pass\n    return Settings, timeout, retries\nprint(build(True)[0].timeout, build(False)[0].retries, build(True)[1:], timeout, retries)\n",
    "def factory():\n    class Codec:\n        import json as serializer\n        import zlib as compressor\n        import base64\n        def pack(self, value):\n            return self.compressor.compress(self.serializer.dumps(value).encode())\n    return Codec\nprint(sorted(n for n in factory().__dict__ if not n.startswith('_')))\n",
    "class Codec:\n    import json as serializer\n    import zlib as compressor\n    def pack(self, value):\n        return self.compressor.compress(self.serializer.dumps(value).encode())\nserializer = 1\nprint(sorted(n for n in Codec.__dict__ if not n.startswith('_')), serializer)\n",
    "def deco(arg):\n    def wrap(fn):\n        fn.arg = arg\n        return fn\n    return wrap\n@deco(True | False)\ndef configure(strict=True | False, verbose=True & True, *, check=False | True):\n    return strict, verbose, check, True\nprint(configure(), configure.arg)\n",
    "def scaled(unit=0.5 + 0.5, base=1.5 - 0.5, *, zero=1.0 - 1.0):\n    return unit, base, zero, 1.0, 0.0\nprint(scaled())\ndef table():\n    return [2.0 - 1 for value in range(3)], [0.5 * 2 for other in range(2)], 1.0\nprint(table())\n",
    "def outer():\n    class Checked(object):\n        limit: int = 10\n        def run(self, amount: int = 1) -> None:\n            assert amount < self.limit, 'too much'\n            if __debug__:\n                print('debug')\n            pass\n            return None\n    return Checked\nprint(outer()().run())\n",
    "import os\nimport sys\ndef guard(value):\n    if value is None:\n        raise ValueError()\n    elif value < 0:\n        raise TypeError()\n    import os.path\n    import sys as system\n    return os.sep, system.maxsize > 0\nprint(guard(1))\n",
    "from typing import NamedTuple\nimport dataclasses\ndef models():\n    class Point(NamedTuple):\n        x: int = 0\n        y: int = 0\n    @dataclasses.dataclass\n    class Size:\n        w: int = 1\n        h: int = 2\n    class Plain:\n        w: int = 3\n    return Point(), Size(), Plain.w\nprint(models())\n",
    "def first(a, b, /, c, *, d=1):\n    total: int = a + b\n    other: int\n    other = c + d\n    return total, other\nprint(first(1, 2, 3))\nhandler = lambda x, /, y=2: (x, y)\nprint(handler(1))\n",
    "value = 'module level'\ndef shadow():\n    class Holder:\n        value: str = 'class level'\n        other = value\n    return Holder.value, Holder.other, value\nprint(shadow())\n",
]
