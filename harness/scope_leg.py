"""Shared legs of the scope family (C03 C04 C06 C09 C10 C11):
 leg R  - the table of bindings the real analysis hands to NameAssigner, the model's run on it (Model/Renamer.v, vm_compute)
          and the names the real NameAssigner chose;
 leg S  - the reference resolver (harness/pyscope.py) cross-checked against CPython's symtable;
 alpha  - implementation-level oracle: output is the input up to a consistent injective renaming + documented alias insertions."""
import ast, copy, collections, warnings
from harness import common, pyscope


def coq_text(s):
    return common.coq_N_list(s)


def capture(source, **opts):
    """run minify with python_minifier.rename wrapped: returns dict(table, finals, prefix_globals, preserved, out, tainted)"""
    import python_minifier
    from python_minifier.rename.renamer import all_bindings, reservation_scope
    from python_minifier.rename.binding import BuiltinBinding, NameBinding
    rec = {}
    real = python_minifier.rename

    def wrapper(module, prefix_globals=False, preserved_globals=None):
        ns_ids = {}

        def nsid(n):
            if n not in ns_ids:
                ns_ids[n] = 0 if isinstance(n, ast.Module) else len(ns_ids) + 1
            return ns_ids[n]
        nsid(module)
        rows = []
        objs = []
        for i, (namespace, b) in enumerate(all_bindings(module)):
            kind = 'KBuiltin' if isinstance(b, BuiltinBinding) else 'KName' if isinstance(b, NameBinding) else 'KHoisted'
            scope = sorted({nsid(n) for n in reservation_scope(namespace, b)})
            shoulds = []
            for k in (1, 2, 3, 4):
                try:
                    shoulds.append(bool(b.should_rename('A' * k)))
                except Exception:
                    shoulds.append(False)
            rows.append({'id': i, 'kind': kind, 'name': b.name, 'scope': scope, 'allow': bool(b.allow_rename), 'reserved': b.reserved,
                         'module': isinstance(namespace, ast.Module), 'mentions': b.new_mention_count(), 'should': shoulds, 'nrefs': len(b.references)})
            objs.append(b)
        rec['table'] = rows
        # namespace tree, owner of every binding, namespace every reference is written in
        try:
            from python_minifier.rename.renamer import reference_site
        except ImportError:
            reference_site = lambda n: n
        owners, refs = [], set()
        for i, (namespace, b) in enumerate(all_bindings(module)):
            owners.append(nsid(namespace))
            for node in b.references:
                site = reference_site(node)
                ns = getattr(site, 'namespace', None)
                if ns is not None and not (site is ns):
                    refs.add((i, nsid(ns)))
                elif ns is not None:
                    refs.add((i, nsid(getattr(ns, 'namespace', ns)) if site is not module else 0))
        rec['owners'] = owners
        rec['refs'] = sorted(refs)
        rec['parents'] = sorted((i, nsid(n.namespace)) for n, i in list(ns_ids.items()) if not isinstance(n, ast.Module))
        rec['prefix_globals'] = bool(prefix_globals)
        rec['preserved'] = list(preserved_globals or [])
        rec['tainted'] = bool(getattr(module, 'tainted', False))
        # `should_rename` can depend on what was renamed earlier (a `@classmethod` decorator already spelled through an alias makes
        # `cls` no longer renamable in place): record the answers the real run actually got, at the time it asked
        asked = {}
        for i, b in enumerate(objs):
            def rec_should(name, _b=b, _i=i, _orig=b.should_rename):
                v = _orig(name)
                asked.setdefault((_i, len(name)), bool(v))
                return v
            try:
                b.should_rename = rec_should
            except Exception:
                pass
        r = real(module, prefix_globals=prefix_globals, preserved_globals=preserved_globals)
        for (i, k), v in asked.items():
            if 1 <= k <= 4:
                rows[i]['should'][k - 1] = v
        rec['finals'] = [b.name for b in objs]
        return r
    python_minifier.rename = wrapper
    try:
        with warnings.catch_warnings():
            warnings.simplefilter('ignore')
            rec['out'] = python_minifier.minify(source, **opts)
    finally:
        python_minifier.rename = real
    return rec


def coq_opt_text(v):
    return 'None' if v is None else '(Some %s)' % coq_text(v)


def coq_binding(row):
    return ('{| b_id := %d%%N; b_kind := %s; b_name := %s; b_scope := [%s]; b_allow := %s; b_reserved := %s; b_module := %s; b_mentions := %d%%N |}'
            % (row['id'], row['kind'], coq_opt_text(row['name']), '; '.join('%d%%N' % s for s in row['scope']), 'true' if row['allow'] else 'false',
               coq_opt_text(row['reserved']), 'true' if row['module'] else 'false', row['mentions']))


def coq_rb(row, owner, final):
    return ('{| r_id := %d%%N; r_owner := %d%%N; r_orig := %s; r_final := %s; r_scope := [%s] |}'
            % (row['id'], owner, coq_opt_text(row['name']), coq_opt_text(final), '; '.join('%d%%N' % s for s in row['scope'])))


def legR_resolution_case(rec):
    """premises of C03_resolution_preserved on the real table: every reference's chain to the owner lies in the reservation
    scope; and its conclusion: wherever the original spelling resolved to the binding, the final spelling does"""
    rbs = '[' + '; '.join(coq_rb(r, o, f) for r, o, f in zip(rec['table'], rec['owners'], rec['finals'])) + ']'
    par = '[' + '; '.join('(%d%%N, %d%%N)' % p for p in rec['parents']) + ']'
    refs = '[' + '; '.join('(%d%%N, %d%%N)' % p for p in rec['refs']) + ']'
    return 'resolution_check %s %s %s' % (par, rbs, refs)


def legR_case(rec):
    bs = '[' + '; '.join(coq_binding(r) for r in rec['table']) + ']'
    tbl = '[' + '; '.join('(%d%%N, [%s])' % (r['id'], '; '.join('true' if x else 'false' for x in r['should'])) for r in rec['table']) + ']'
    finals = '[' + '; '.join('(%d%%N, %s)' % (i, coq_opt_text(n)) for i, n in enumerate(rec['finals'])) + ']'
    rg = '[' + '; '.join(coq_text(n) for n in rec['preserved'] if isinstance(n, str)) + ']'
    return ('forallb wf_bindingb %s && finals_eqb (run_real %s %s %s %s) %s' % (bs, tbl, 'true' if rec['prefix_globals'] else 'false', bs, rg, finals))


HEADER_R = ['From PM Require Import Model.Base Model.Renamer Model.RenamerRun Proofs.RenamerProofs Model.Resolve Model.ResolveRun.', 'Open Scope bool_scope.']


def leg_R(res, cases_src, tag):
    """cases_src: list of (source, opts). returns (n cases, number of bindings, number renamed)"""
    cases, kept = [], []
    nb = nren = 0
    for src, opts in cases_src:
        try:
            rec = capture(src, **opts)
        except Exception:
            continue
        if 'table' not in rec or len(rec['table']) > 120:
            continue
        if any(r['name'] is not None and not all(ord(c) < 0x110000 for c in r['name']) for r in rec['table']):
            continue
        nb += len(rec['table'])
        nren += sum(1 for r, f in zip(rec['table'], rec['finals']) if r['name'] != f)
        cases.append(legR_case(rec))
        kept.append((src, opts))
        if rec.get('refs') is not None:
            cases.append(legR_resolution_case(rec))
            kept.append((src, opts))
    n, failing, raw = common.run_cases(tag, HEADER_R, cases, shard=60)
    if failing is None:
        res.broken.append(('correspondence', 'leg R: renamer model evaluation failed: ' + raw[-500:]))
    elif failing:
        src, opts = kept[failing[0]]
        res.broken.append(('correspondence', 'leg R: Model/Renamer.v (NameAssigner over the real binding table) chooses different names than the real renamer on %d of %d programs, e.g. %r with %r' % (len(failing), n, src[:300], opts)))
    return n, nb, nren


def leg_S(res, sources):
    bad = 0
    for src in sources:
        d = pyscope.same_as_symtable(src)
        if d:
            bad += 1
            if bad <= 3:
                res.notes.setdefault('reference_resolver_vs_symtable', []).append({'source': src[:400], 'diffs': d[:5]})
    return bad


def alpha(src, out):
    """None if out is src up to consistent renaming + documented insertions; else (kind, detail)"""
    try:
        q = ast.parse(out)
    except SyntaxError as e:
        return ('output-does-not-parse', repr(e))
    try:
        with warnings.catch_warnings():
            warnings.simplefilter('ignore')
            compile(out, '<minified>', 'exec', dont_inherit=True)
    except (SyntaxError, ValueError) as e:
        return ('output-does-not-compile', repr(e))
    try:
        pyscope.compare(ast.parse(src), q)
    except pyscope.Mismatch as m:
        return (m.kind, m.detail)
    return None


RENAME_OPTS = dict(remove_annotations=False, remove_pass=False, remove_literal_statements=False, combine_imports=False, remove_object_base=False,
                   convert_posargs_to_args=False, preserve_shebang=False, remove_asserts=False, remove_debug=False, remove_explicit_return_none=False,
                   remove_builtin_exception_brackets=False, constant_folding=False)


def optsets():
    base = dict(RENAME_OPTS)
    return [dict(base, rename_locals=True, rename_globals=False, hoist_literals=False), dict(base, rename_locals=True, rename_globals=True, hoist_literals=False),
            dict(base, rename_locals=True, rename_globals=False, hoist_literals=True), dict(base, rename_locals=True, rename_globals=True, hoist_literals=True),
            dict(base, rename_locals=False, rename_globals=False, hoist_literals=True), dict(base, rename_locals=False, rename_globals=True, hoist_literals=False)]
