"""Shared legs of the scope family (C03 C04 C06 C09 C10 C11):
 leg R  - the table of bindings the real analysis hands to NameAssigner, the model's run on it (Model/Renamer.v, vm_compute)
          and the names the real NameAssigner chose;
 leg S  - the reference resolver (harness/pyscope.py) cross-checked against CPython's symtable;
 alpha  - implementation-level oracle: output is the input up to a consistent injective renaming + documented alias insertions."""
import ast, copy, collections, warnings
from harness import common, pyscope


def coq_text(s):
    return common.coq_N_list(s)


def capture(source, **opts):
    """run minify with python_minifier.rename wrapped: returns dict(table, finals, prefix_globals, preserved, out, tainted)"""
    import python_minifier
    from python_minifier.rename.renamer import all_bindings, reservation_scope
    from python_minifier.rename.binding import BuiltinBinding, NameBinding
    rec = {}
    real = python_minifier.rename

    def wrapper(module, prefix_globals=False, preserved_globals=None):
        ns_ids = {}

        def nsid(n):
            if n not in ns_ids:
                ns_ids[n] = 0 if isinstance(n, ast.Module) else len(ns_ids) + 1
            return ns_ids[n]
        nsid(module)
        rows = []
        objs = []
        for i, (namespace, b) in enumerate(all_bindings(module)):
            kind = 'KBuiltin' if isinstance(b, BuiltinBinding) else 'KName' if isinstance(b, NameBinding) else 'KHoisted'
            scope = sorted({nsid(n) for n in reservation_scope(namespace, b)})
            shoulds = []
            for k in (1, 2, 3, 4):
                try:
                    shoulds.append(bool(b.should_rename('A' * k)))
                except Exception:
                    shoulds.append(False)
            rows.append({'id': i, 'kind': kind, 'name': b.name, 'scope': scope, 'allow': bool(b.allow_rename), 'reserved': b.reserved,
                         'module': isinstance(namespace, ast.Module), 'mentions': b.new_mention_count(), 'should': shoulds, 'nrefs': len(b.references)})
            objs.append(b)
        rec['table'] = rows
        # namespace tree, owner of every binding, namespace every reference is written in
        try:
            from python_minifier.rename.renamer import reference_site
        except ImportError:
            reference_site = lambda n: n
        owners, refs = [], set()
        for i, (namespace, b) in enumerate(all_bindings(module)):
            owners.append(nsid(namespace))
            for node in b.references:
                site = reference_site(node)
                ns = getattr(site, 'namespace', None)
                if ns is not None and not (site is ns):
                    refs.add((i, nsid(ns)))
                elif ns is not None:
                    refs.add((i, nsid(getattr(ns, 'namespace', ns)) if site is not module else 0))
        rec['owners'] = owners
        rec['refs'] = sorted(refs)
        rec['parents'] = sorted((i, nsid(n.namespace)) for n, i in list(ns_ids.items()) if not isinstance(n, ast.Module))
        rec['prefix_globals'] = bool(prefix_globals)
        rec['preserved'] = list(preserved_globals or [])
        rec['tainted'] = bool(getattr(module, 'tainted', False))
        # `should_rename` can depend on what was renamed earlier (a `@classmethod` decorator already spelled through an alias makes
        # `cls` no longer renamable in place): record the answers the real run actually got, at the time it asked
        asked = {}
        for i, b in enumerate(objs):
            def rec_should(name, _b=b, _i=i, _orig=b.should_rename):
                v = _orig(name)
                asked.setdefault((_i, len(name)), bool(v))
                return v
            try:
                b.should_rename = rec_should
            except Exception:
                pass
        r = real(module, prefix_globals=prefix_globals, preserved_globals=preserved_globals)
        for (i, k), v in asked.items():
            if 1 <= k <= 4:
                rows[i]['should'][k - 1] = v
        rec['finals'] = [b.name for b in objs]
        return r
    python_minifier.rename = wrapper
    try:
        with warnings.catch_warnings():
            warnings.simplefilter('ignore')
            rec['out'] = python_minifier.minify(source, **opts)
    finally:
        python_minifier.rename = real
    return rec


def coq_opt_text(v):
    return 'None' if v is None else '(Some %s)' % coq_text(v)


def coq_binding(row):
    return ('{| b_id := %d%%N; b_kind := %s; b_name := %s; b_scope := [%s]; b_allow := %s; b_reserved := %s; b_module := %s; b_mentions := %d%%N |}'
            % (row['id'], row['kind'], coq_opt_text(row['name']), '; '.join('%d%%N' % s for s in row['scope']), 'true' if row['allow'] else 'false',
               coq_opt_text(row['reserved']), 'true' if row['module'] else 'false', row['mentions']))


def coq_rb(row, owner, final):
    return ('{| r_id := %d%%N; r_owner := %d%%N; r_orig := %s; r_final := %s; r_scope := [%s] |}'
            % (row['id'], owner, coq_opt_text(row['name']), coq_opt_text(final), '; '.join('%d%%N' % s for s in row['scope'])))


def legR_resolution_case(rec):
    """premises of C03_resolution_preserved on the real table: every reference's chain to the owner lies in the reservation
    scope; and its conclusion: wherever the original spelling resolved to the binding, the final spelling does"""
    rbs = '[' + '; '.join(coq_rb(r, o, f) for r, o, f in zip(rec['table'], rec['owners'], rec['finals'])) + ']'
    par = '[' + '; '.join('(%d%%N, %d%%N)' % p for p in rec['parents']) + ']'
    refs = '[' + '; '.join('(%d%%N, %d%%N)' % p for p in rec['refs']) + ']'
    return 'resolution_check %s %s %s && rscope_check %s %s %s' % (par, rbs, refs, par, rbs, refs)


def legR_case(rec):
    bs = '[' + '; '.join(coq_binding(r) for r in rec['table']) + ']'
    tbl = '[' + '; '.join('(%d%%N, [%s])' % (r['id'], '; '.join('true' if x else 'false' for x in r['should'])) for r in rec['table']) + ']'
    finals = '[' + '; '.join('(%d%%N, %s)' % (i, coq_opt_text(n)) for i, n in enumerate(rec['finals'])) + ']'
    rg = '[' + '; '.join(coq_text(n) for n in rec['preserved'] if isinstance(n, str)) + ']'
    return ('forallb wf_bindingb %s && finals_eqb (run_real %s %s %s %s) %s' % (bs, tbl, 'true' if rec['prefix_globals'] else 'false', bs, rg, finals))


HEADER_R = ['From PM Require Import Model.Base Model.Renamer Model.RenamerRun Proofs.RenamerProofs Model.Resolve Model.ResolveRun.', 'Open Scope bool_scope.']


def leg_R(res, cases_src, tag):
    """cases_src: list of (source, opts). returns (n cases, number of bindings, number renamed)"""
    cases, kept = [], []
    nb = nren = 0
    for src, opts in cases_src:
        try:
            rec = capture(src, **opts)
        except Exception:
            continue
        if 'table' not in rec or len(rec['table']) > 120:
            continue
        if any(r['name'] is not None and not all(ord(c) < 0x110000 for c in r['name']) for r in rec['table']):
            continue
        nb += len(rec['table'])
        nren += sum(1 for r, f in zip(rec['table'], rec['finals']) if r['name'] != f)
        cases.append(legR_case(rec))
        kept.append((src, opts))
        if rec.get('refs') is not None:
            cases.append(legR_resolution_case(rec))
            kept.append((src, opts))
    n, failing, raw = common.run_cases(tag, HEADER_R, cases, shard=60)
    if failing is None:
        res.broken.append(('correspondence', 'leg R: renamer model evaluation failed: ' + raw[-500:]))
    elif failing:
        src, opts = kept[failing[0]]
        res.broken.append(('correspondence', 'leg R: Model/Renamer.v (NameAssigner over the real binding table) chooses different names than the real renamer on %d of %d programs, e.g. %r with %r' % (len(failing), n, src[:300], opts)))
    return n, nb, nren


def leg_S(res, sources):
    bad = 0
    for src in sources:
        d = pyscope.same_as_symtable(src)
        if d:
            bad += 1
            if bad <= 3:
                res.notes.setdefault('reference_resolver_vs_symtable', []).append({'source': src[:400], 'diffs': d[:5]})
    return bad


def alpha(src, out):
    """None if out is src up to consistent renaming + documented insertions; else (kind, detail)"""
    try:
        q = ast.parse(out)
    except SyntaxError as e:
        return ('output-does-not-parse', repr(e))
    try:
        with warnings.catch_warnings():
            warnings.simplefilter('ignore')
            compile(out, '<minified>', 'exec', dont_inherit=True)
    except (SyntaxError, ValueError) as e:
        return ('output-does-not-compile', repr(e))
    try:
        pyscope.compare(ast.parse(src), q)
    except pyscope.Mismatch as m:
        return (m.kind, m.detail)
    return None



# ------------------------------------------------------------------------------------------------ leg A: the analysis itself
def capture_analysis(source):
    """run minify (every transform off) with python_minifier.resolve_names wrapped: the namespace tree as the real
    add_namespace / bind_names / resolve_names left it: frames (kind, bindings, global_names, nonlocal_names), parents,
    and for every reference node of every binding (name, namespace it is written in, namespace that owns the binding)"""
    import python_minifier
    from python_minifier.rename.renamer import all_bindings
    from python_minifier.rename.util import is_namespace
    rec = {}
    real = python_minifier.resolve_names

    def wrapper(module):
        r = real(module)
        nss = []

        def walk(n):
            if is_namespace(n):
                nss.append(n)
            for c in ast.iter_child_nodes(n):
                walk(c)
        walk(module)
        idx = {id(n): i for i, n in enumerate(nss)}
        rec['keys'] = [(type(n).__name__, getattr(n, 'lineno', 0), getattr(n, 'col_offset', 0)) for n in nss]
        rec['frames'] = [{'kind': 'KModule' if isinstance(n, ast.Module) else 'KClass' if isinstance(n, ast.ClassDef) else 'KFunction',
                          'bindings': sorted({b.name for b in n.bindings if isinstance(b.name, str)}), 'globals': sorted(n.global_names), 'nonlocals': sorted(n.nonlocal_names)} for n in nss]
        rec['parent'] = [None if n.namespace is n else idx.get(id(n.namespace)) for n in nss]
        refs = []
        for namespace, b in all_bindings(module):
            if not isinstance(b.name, str):
                continue
            for node in b.references:
                ns = getattr(node, 'namespace', None)
                if ns is None or id(ns) not in idx:
                    continue
                if isinstance(node, ast.Name) and node.id != b.name:
                    continue
                refs.append((b.name, idx[id(ns)], idx[id(namespace)], type(node).__name__, (getattr(node, 'lineno', None), getattr(node, 'col_offset', None))))
        rec['refs'] = refs
        return r
    python_minifier.resolve_names = wrapper
    try:
        with warnings.catch_warnings():
            warnings.simplefilter('ignore')
            python_minifier.minify(source, rename_locals=False, rename_globals=False, hoist_literals=False, **RENAME_OPTS)
    finally:
        python_minifier.resolve_names = real
    return rec


def coq_names(names):
    return '[' + '; '.join(coq_text(n) for n in names) + ']'


def chain_ids(parent, i):
    out = []
    while i is not None:
        out.append(i)
        i = parent[i]
        if len(out) > 200:
            break
    return out


def legA_case(src):
    """one Gallina boolean for a program, or None when it is outside the fragment (type parameters, unmatched namespaces)"""
    tree = ast.parse(src)
    if any(isinstance(n, (getattr(ast, 'TypeAlias', ()), getattr(ast, 'TypeVar', ()))) for n in ast.walk(tree)) or \
       any(getattr(n, 'type_params', None) for n in ast.walk(tree)):
        return None
    rec = capture_analysis(src)
    if 'frames' not in rec:
        return None
    r = pyscope.Resolver(tree)
    by_key = {}
    for sc in r.scopes:
        n = sc.node
        by_key[(type(n).__name__, getattr(n, 'lineno', 0), getattr(n, 'col_offset', 0))] = sc
    scs = [by_key.get(k) for k in rec['keys']]
    if any(s is None for s in scs) or len(scs) != len(r.scopes):
        return None
    sid_to_idx = {s.id: i for i, s in enumerate(scs)}
    depth = [len(chain_ids(rec['parent'], i)) - 1 for i in range(len(scs))]
    F = '[' + '; '.join('{| m_kind := %s; m_bindings := %s; m_globals := %s; m_nonlocals := %s |}' % (f['kind'], coq_names(f['bindings']), coq_names(f['globals']), coq_names(f['nonlocals']))
                        for f in rec['frames']) + ']'
    kindmap = {'module': 'KModule', 'class': 'KClass'}
    # module level: names declared global elsewhere are bound there too (the resolver adds them); not compared for the module
    S = '[' + '; '.join('{| s_kind := %s; s_bound := %s; s_gdecl := %s; s_ndecl := %s; s_loads := %s |}'
                        % (kindmap.get(s.kind, 'KFunction'), coq_names(sorted(s.bound)), coq_names(sorted(s.globals)), coq_names(sorted(s.nonlocals)), coq_names(sorted(s.uses | s.aug)))
                        for s in scs) + ']'
    refs = '[' + '; '.join('(%s, [%s], %d)' % (coq_text(name), '; '.join(str(j) for j in chain_ids(rec['parent'], ns)), depth[owner]) for name, ns, owner, _k, _pos in rec['refs']) + ']'
    occs = []
    for (_n, _f, _i, name, sc, _c), ident in zip(r.occ, r.identities()):
        if name in ('__class__',):
            continue
        i = sid_to_idx[sc.id]
        d = depth[sid_to_idx[ident[1]]] if ident[0] in ('local', 'class') else 0
        occs.append('(%s, [%s], %d)' % (coq_text(name), '; '.join(str(j) for j in chain_ids(rec['parent'], i)), d))
    O = '[' + '; '.join(occs) + ']'
    # N: every Name node is written in the namespace the reference resolver puts it in, and (outside the designed class-body
    # merge) the real analysis attached it to a binding owned by the namespace the reference resolver names
    real_at = {(pos, name): (ns, owner) for name, ns, owner, k, pos in rec['refs'] if k == 'Name'}
    bad_n = []
    for (n, _f, _i, name, sc, _c), ident in zip(r.occ, r.identities()):
        if not isinstance(n, ast.Name) or ((n.lineno, n.col_offset), name) not in real_at:
            continue
        ns, owner = real_at[((n.lineno, n.col_offset), name)]
        if ns != sid_to_idx[sc.id]:
            bad_n.append((name, n.lineno, 'written in namespace %d, reference resolver says %d' % (ns, sid_to_idx[sc.id])))
            continue
        merged = sc.kind == 'class' and name in sc.bound and name in (sc.uses | sc.aug) and name not in sc.globals and name not in sc.nonlocals
        want = sid_to_idx[ident[1]] if ident[0] in ('local', 'class') else 0
        if not merged and owner != want:
            bad_n.append((name, n.lineno, 'owned by namespace %d, reference resolver says %d' % (owner, want)))
    pre = 'let F := %s in let S := %s in let O := %s in ' % (F, S, O)
    parts = [pre + 'check_G F %s' % refs, pre + 'check_B F S', pre + 'check_S S O', pre + 'check_T S O']
    return pre + 'check_G F %s && check_B F S && check_S S O && check_T S O' % refs, len(rec['refs']), len(occs), len(scs), parts, bad_n


HEADER_A = ['From PM Require Import Model.Base Model.ScopeBase Gen.ResolveNames Model.Scope Model.ScopeRun.', 'Open Scope bool_scope.']


def leg_A(res, sources, tag):
    """returns (programs, references checked, occurrences checked, namespaces)"""
    cases, kept, bad_names = [], [], []
    nrefs = noccs = nns = 0
    for src in sources:
        try:
            c = legA_case(src)
        except Exception:
            c = None
        if c is None:
            continue
        cases.append(c[0])
        kept.append(src)
        if c[5]:
            bad_names.append((src, c[5]))
        nrefs += c[1]
        noccs += c[2]
        nns += c[3]
    if bad_names:
        res.broken.append(('correspondence', 'leg A [N]: on %d programs a Name node is written in / attached to a different namespace than the reference resolver (cross-checked against symtable) says; first: %r in %r'
                           % (len(bad_names), bad_names[0][1][:3], bad_names[0][0][:400])))
    n, failing, raw = common.run_cases(tag, HEADER_A, cases, shard=40)
    if failing is None:
        res.broken.append(('correspondence', 'leg A: scope model evaluation failed: ' + raw[-500:]))
    elif failing:
        which = ''
        try:
            _n, f2, _raw = common.run_cases(tag + 'x', HEADER_A, legA_case(kept[failing[0]])[4], shard=40)
            which = ' [failing parts: %s]' % ', '.join('GBST'[i] for i in (f2 or []))
        except Exception:
            pass
        res.broken.append(('correspondence', 'leg A%s: on %d of %d programs the model of get_binding run on the real namespaces does not find the namespace the real resolve_names chose (G), '
                           'or the real bindings/global_names/nonlocal_names are not the view of the block (B), or the reference pass disagrees with the reference resolver (S); first: %r' % (which, len(failing), n, kept[failing[0]][:400])))
    return n, nrefs, noccs, nns


RENAME_OPTS = dict(remove_annotations=False, remove_pass=False, remove_literal_statements=False, combine_imports=False, remove_object_base=False,
                   convert_posargs_to_args=False, preserve_shebang=False, remove_asserts=False, remove_debug=False, remove_explicit_return_none=False,
                   remove_builtin_exception_brackets=False, constant_folding=False)


def optsets():
    base = dict(RENAME_OPTS)
    return [dict(base, rename_locals=True, rename_globals=False, hoist_literals=False), dict(base, rename_locals=True, rename_globals=True, hoist_literals=False),
            dict(base, rename_locals=True, rename_globals=False, hoist_literals=True), dict(base, rename_locals=True, rename_globals=True, hoist_literals=True),
            dict(base, rename_locals=False, rename_globals=False, hoist_literals=True), dict(base, rename_locals=False, rename_globals=True, hoist_literals=False)]
