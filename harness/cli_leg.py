"""Legs for the command-line properties C13, C14, C15 (and the CLI part of C16):
 * scenario generation (flag subsets, preserve-list spellings, routes, trees, failure positions, encodings)
 * running the real tool (`python -m python_minifier`, PYTHONPATH=/repo/src) in a scratch directory
 * correspondence: the generated Coq model (Gen/Cli.v) evaluated by vm_compute on the same scenarios must predict
   exactly the observed stdout bytes / file writes / exit code
 * implementation-level oracle: the property statements checked directly against minify() (documented kwargs)."""
import os, sys, subprocess, json, itertools
from concurrent.futures import ThreadPoolExecutor
from harness import common

# --- the documentation's meaning of every flag (hand-written, independent of __main__.py) ---------------------
FLAGS = {
    '--no-combine-imports': ('combine_imports', False),
    '--no-remove-pass': ('remove_pass', False),
    '--remove-literal-statements': ('remove_literal_statements', True),
    '--no-hoist-literals': ('hoist_literals', False),
    '--no-rename-locals': ('rename_locals', False),
    '--rename-globals': ('rename_globals', True),
    '--no-remove-object-base': ('remove_object_base', False),
    '--no-convert-posargs-to-args': ('convert_posargs_to_args', False),
    '--no-preserve-shebang': ('preserve_shebang', False),
    '--remove-asserts': ('remove_asserts', True),
    '--remove-debug': ('remove_debug', True),
    '--no-remove-explicit-return-none': ('remove_explicit_return_none', False),
    '--no-remove-builtin-exception-brackets': ('remove_builtin_exception_brackets', False),
    '--no-constant-folding': ('constant_folding', False),
    '--no-remove-annotations': ('ann_all', False),
    '--no-remove-variable-annotations': ('ann_var', False),
    '--no-remove-return-annotations': ('ann_ret', False),
    '--no-remove-argument-annotations': ('ann_arg', False),
    '--remove-class-attribute-annotations': ('ann_cls', True),
}
FLAG_LIST = list(FLAGS)
DEFAULTS = dict(combine_imports=True, remove_pass=True, remove_literal_statements=False, hoist_literals=True, rename_locals=True,
                rename_globals=False, remove_object_base=True, convert_posargs_to_args=True, preserve_shebang=True,
                remove_asserts=False, remove_debug=False, remove_explicit_return_none=True, remove_builtin_exception_brackets=True,
                constant_folding=True)


def split_names(args):
    out = []
    for a in args or []:
        out.extend(n.strip() for n in a.split(',') if n)
    return out


def documented_kwargs(flags, pl=None, pg=None):
    from python_minifier import RemoveAnnotationsOptions
    kw = dict(DEFAULTS)
    ann = dict(ann_all=True, ann_var=True, ann_ret=True, ann_arg=True, ann_cls=False)
    for f in flags:
        k, v = FLAGS[f]
        if k.startswith('ann_'):
            ann[k] = v
        else:
            kw[k] = v
    if ann['ann_all']:
        kw['remove_annotations'] = RemoveAnnotationsOptions(remove_variable_annotations=ann['ann_var'], remove_return_annotations=ann['ann_ret'],
                                                            remove_argument_annotations=ann['ann_arg'], remove_class_attribute_annotations=ann['ann_cls'])
    else:
        kw['remove_annotations'] = RemoveAnnotationsOptions(False, False, False, False)
    kw['preserve_locals'] = split_names(pl)
    kw['preserve_globals'] = split_names(pg)
    return kw


def kwargs_key(kw):
    d = dict(kw)
    ra = d.pop('remove_annotations')
    d['ann'] = (ra.remove_variable_annotations, ra.remove_return_annotations, ra.remove_argument_annotations, ra.remove_class_attribute_annotations)
    return json.dumps(d, sort_keys=True)


def api(source, filename, kw):
    """what minify returns for these bytes and options: ('ok', text) or ('raise', ExceptionTypeName)"""
    import python_minifier
    try:
        kw = dict(kw)
        kw['preserve_locals'] = list(kw['preserve_locals'])
        kw['preserve_globals'] = list(kw['preserve_globals'])
        return ('ok', python_minifier.minify(source, filename=filename, **kw))
    except BaseException as e:   # noqa
        return ('raise', type(e).__name__)


WITNESS = b'''#!/usr/bin/env python
"""module doc"""
import os
import sys
def fff(aaa: int, /, bbb=1) -> int:
    'function doc'
    ccc: int = aaa + 10 * 10
    ddd: int
    assert ccc
    if __debug__:
        print('debug')
    pass
    print('hello world hello world', 'hello world hello world', 'hello world hello world', bbb)
    if aaa:
        raise ValueError()
    return None
class KKK(object):
    attr: int = 3
    def mmm(self):
        return None
longglobalname = 5
print(longglobalname, longglobalname, fff, KKK, os, sys)
'''
GROWING = b'a=1'          # minifies to itself (never larger)  -- used with sources that do grow below
GROW1 = b'x'              # `x` -> `x`; equal size
NONASCII = 'x="\u00e9\u00e9\u00e9\u00e9" ; y  =  "\u4e2d\u6587"\n'.encode('utf-8')
LATIN1 = b'# -*- coding: latin-1 -*-\nx = "\xe9\xe9\xe9\xe9\xe9\xe9\xe9\xe9\xe9\xe9\xe9\xe9\xe9\xe9\xe9\xe9"\n'   # re-encoding as UTF-8 doubles these bytes
BOM = b'\xef\xbb\xbfx  =  1\n'
EMPTY = b''
INVALID = b'def (:\n'
UNDECODABLE = b'x = "\xff\xfe"\n'
BOUNDARY = ["0in['\u00e9']", "x=0in['\u00e9\u00e9']", "0in['\u4e2d']", "1if'\u00e9'else 2", "'\u00e9'if 0else 1"]
COOKIE_SRC = b'# -*- coding: latin-1 -*-\nname  =  "caf\xe9 cr\xe8me"\nprint(name)\n'
COOKIE2_SRC = b'#!/usr/bin/python\n# vim: set fileencoding=iso-8859-15 :\ntitle  =  "\xa4 \xe9t\xe9"\n'
SOURCES = {'witness': WITNESS, 'tiny': GROWING, 'x': GROW1, 'nonascii': NONASCII, 'latin1': LATIN1, 'bom': BOM, 'empty': EMPTY,
           'if': b'if a:\n    pass\n', 'str': b"s = ''", 'tuple': b'()'}


# ----------------------------------------------------------------------------------------------- running the tool
def snapshot(root):
    """relpath -> ('file', bytes) | ('link', target, bytes|None) | ('dirlink', target); directory links are followed (trees have no cycles)"""
    snap = {}
    for d, dirs, files in os.walk(root, followlinks=True):
        for f in files:
            p = os.path.join(d, f)
            rel = os.path.relpath(p, root)
            if os.path.islink(p):
                try:
                    snap[rel] = ('link', os.readlink(p), open(p, 'rb').read())
                except OSError:
                    snap[rel] = ('link', os.readlink(p), None)
            else:
                try:
                    snap[rel] = ('file', open(p, 'rb').read())
                except OSError:
                    snap[rel] = ('unreadable', None)
        for dd in dirs:
            p = os.path.join(d, dd)
            if os.path.islink(p):
                snap[os.path.relpath(p, root)] = ('dirlink', os.readlink(p))
    return snap


def realpaths(root):
    real = {}
    rr = os.path.realpath(root)
    for d, dirs, files in os.walk(root, followlinks=True):
        for f in files:
            p = os.path.join(d, f)
            real[os.path.relpath(p, root)] = os.path.relpath(os.path.realpath(p), rr)
    return real


def build_tree(root, files):
    """files: relpath -> bytes | ('unreadable', bytes) | ('link', target)"""
    for rel, content in files.items():
        p = os.path.join(root, rel)
        os.makedirs(os.path.dirname(p), exist_ok=True)
        if isinstance(content, tuple) and content[0] == 'link':
            os.symlink(content[1], p)
        elif isinstance(content, tuple) and content[0] == 'unreadable':
            open(p, 'wb').write(content[1])
        elif isinstance(content, tuple) and content[0] == 'dir':
            os.makedirs(p, exist_ok=True)
        else:
            open(p, 'wb').write(content)


def run_cli(sc, root):
    """run the real tool for scenario sc in directory root. returns dict(exit, stdout, before, after, walk)"""
    build_tree(root, sc.get('files', {}))
    # unreadable files: the harness runs as root, chmod does not help; use a directory in place of a file? no -
    # an unreadable entry is modelled by a dangling symlink (open() raises OSError)
    walk = {}
    for pa in sc['paths']:
        ap = os.path.join(root, pa)
        if pa != '-' and os.path.isdir(ap):
            walk[pa] = [(pa if r == ap else os.path.join(pa, os.path.relpath(r, ap)), list(fs)) for r, _ds, fs in os.walk(ap, followlinks=True)]
    before = snapshot(root)
    real = realpaths(root)
    argv = [common.PY, '-m', 'python_minifier'] + list(sc['paths']) + list(sc.get('flags', []))
    for a in sc.get('pl') or []:
        argv += ['--preserve-locals', a]
    for a in sc.get('pg') or []:
        argv += ['--preserve-globals', a]
    if sc.get('output'):
        argv += ['--output', sc['output']]
    env = dict(os.environ)
    env['PYTHONPATH'] = common.SRC
    env['PYTHONIOENCODING'] = 'utf-8'
    env.pop('PYMINIFY_FORCE_BEST_EFFORT', None)
    if sc.get('env_force') is not None:
        env['PYMINIFY_FORCE_BEST_EFFORT'] = sc['env_force']
    p = subprocess.run(argv, cwd=root, input=sc.get('stdin', b''), stdout=subprocess.PIPE, stderr=subprocess.PIPE, env=env, timeout=300)
    after = snapshot(root)
    return {'exit': p.returncode, 'stdout': p.stdout, 'stderr': p.stderr[-600:].decode('utf-8', 'replace'), 'before': before, 'after': after, 'walk': walk, 'real': real}


def run_many(scenarios, workers=16):
    def one(sc):
        with common.scratch('pmcli-') as d:
            return run_cli(sc, d)
    with ThreadPoolExecutor(workers) as ex:
        return list(ex.map(one, scenarios))


# ----------------------------------------------------------------------------------------------- scenarios
def flag_subsets(r, n_random, include_pairs=False):
    subs = [[]] + [[f] for f in FLAG_LIST]
    if include_pairs:
        subs += [list(p) for p in itertools.combinations(FLAG_LIST, 2)]
    for _ in range(n_random):
        k = r.choice([2, 3, 5, 8, 12, 19])
        subs.append(sorted(r.sample(FLAG_LIST, min(k, len(FLAG_LIST))), key=FLAG_LIST.index))
    # the validation rule: --remove-class-attribute-annotations with --no-remove-annotations is rejected; keep those too (expected exit 1)
    return subs


PRESERVE_SPELLINGS = [None, ['aaa'], ['aaa,ccc'], ['aaa', 'ccc'], [' aaa , ccc '], ['aaa,,ccc,'], [''], [',']]


def scenarios_c13(r, tier):
    out = []
    subs = flag_subsets(r, {'quick': 8, 'search': 60}.get(tier, 400), include_pairs=(tier == 'thorough'))
    for i, fl in enumerate(subs):
        route = ['file', 'stdin', 'file-output', 'stdin-output', 'inplace'][i % 5] if tier != 'quick' else ['file', 'stdin', 'file', 'inplace', 'stdin-output'][i % 5]
        pl = PRESERVE_SPELLINGS[i % len(PRESERVE_SPELLINGS)]
        pg = [None, ['longglobalname'], ['fff, KKK'], ['longglobalname', 'fff']][i % 4]
        out.append(mk_route(route, WITNESS, fl, pl, pg))
    for k, pl in enumerate(PRESERVE_SPELLINGS):
        out.append(mk_route('file', WITNESS, ['--rename-globals'], pl, PRESERVE_SPELLINGS[(k + 3) % len(PRESERVE_SPELLINGS)]))
    # every subset of the five annotation flags (one of them is a documented invalid combination)
    ann = ['--no-remove-annotations', '--no-remove-variable-annotations', '--no-remove-return-annotations', '--no-remove-argument-annotations', '--remove-class-attribute-annotations']
    for k in range(32):
        out.append(mk_route('file', WITNESS, [a for j, a in enumerate(ann) if k >> j & 1]))
    # several modules in one invocation: every module must come out as if it were minified alone
    multi = {'exporter.py': b"__all__ = ['render_template', 'load_configuration']\ndef render_template(value):\n    return value\ndef load_configuration():\n    return render_template(1)\n",
             'private.py': b"def render_template(argument):\n    return argument * 2\ndef load_configuration():\n    return render_template(21)\nprint(load_configuration())\n",
             'generic.py': b"def first[ElementType](items: list[ElementType]) -> ElementType:\n    return items[0]\n",
             'locals.py': b"def scale(values, factor):\n    ElementType = type(values[0])\n    return [ElementType(value * factor) for value in values], ElementType, ElementType.__name__\n"}
    out.append({'paths': ['exporter.py', 'private.py'], 'files': dict(multi), 'flags': ['--in-place', '--rename-globals']})
    out.append({'paths': ['private.py', 'exporter.py'], 'files': dict(multi), 'flags': ['--in-place', '--rename-globals'], 'pg': ['main']})
    out.append({'paths': ['generic.py', 'locals.py'], 'files': dict(multi), 'flags': ['--in-place']})
    out.append({'paths': ['exporter.py', 'private.py', 'generic.py', 'locals.py'], 'files': dict(multi), 'flags': ['--in-place', '--rename-globals'], 'pl': ['factor']})
    grow = {'a_grows.py': b'True if 0in x else False', 'b_shrinks.py': WITNESS, 'c_grows.py': b'x=1e-5', 'd_shrinks.py': multi['private.py'], 'sub/e_same.py': b'a=1'}
    out.append({'paths': ['a_grows.py', 'b_shrinks.py', 'c_grows.py', 'd_shrinks.py'], 'files': dict(grow), 'flags': ['--in-place']})
    out.append({'paths': ['d_shrinks.py', 'c_grows.py', 'b_shrinks.py', 'a_grows.py'], 'files': dict(grow), 'flags': ['--in-place']})
    out.append({'paths': ['srcdir'], 'files': {'srcdir/' + k: v for k, v in grow.items()}, 'flags': ['--in-place']})
    hoisty = b"def greet(name):\n    return 'hello world', 'hello world', 'hello world', name\nprint(greet('hello world'), 'another text', 'another text', 'another text')\n"
    for pg in (['_A'], ['_A', '_B'], ['A'], ['_A,_B']):
        out.append(mk_route('file', hoisty, [], None, pg))
        out.append(mk_route('stdin', hoisty, ['--no-rename-locals'], ['_A'], pg))
    # the size rule is part of what the tool writes: sources at the boundary (same number of characters, more UTF-8 bytes; legacy encodings)
    for k, b in enumerate(BOUNDARY):
        out.append(mk_route(['file', 'stdin', 'file-output', 'inplace', 'stdin-output'][k % 5], b.encode('utf-8'), []))
    for k, b in enumerate([LATIN1, COOKIE_SRC, COOKIE2_SRC, NONASCII, GROWING, GROW1, EMPTY, BOM]):
        out.append(mk_route(['file', 'inplace', 'stdin', 'file-output', 'stdin-output'][k % 5], b, [] if k % 2 else ['--rename-globals']))
    # invalid combinations: nothing may be read or written
    out.append({'paths': ['-', 'a.py'], 'files': {'a.py': WITNESS}, 'stdin': WITNESS, 'flags': ['--in-place']})
    out.append({'paths': ['-', 'a.py'], 'files': {'a.py': WITNESS}, 'stdin': WITNESS, 'flags': []})
    out.append({'paths': ['-'], 'stdin': WITNESS, 'flags': ['--in-place']})
    out.append({'paths': ['a.py', 'b.py'], 'files': {'a.py': WITNESS, 'b.py': WITNESS}, 'flags': []})
    out.append({'paths': ['a.py', 'b.py'], 'files': {'a.py': WITNESS, 'b.py': WITNESS}, 'flags': [], 'output': 'o.py'})
    out.append({'paths': ['d'], 'files': {'d/a.py': WITNESS}, 'flags': []})
    out.append({'paths': ['d'], 'files': {'d/a.py': WITNESS}, 'flags': [], 'output': 'o.py'})
    out.append({'paths': ['a.py'], 'files': {'a.py': WITNESS}, 'flags': ['--remove-class-attribute-annotations', '--no-remove-annotations']})
    return out


def mk_route(route, src, flags, pl=None, pg=None, env_force=None):
    sc = {'flags': list(flags), 'pl': pl, 'pg': pg, 'env_force': env_force, 'route': route}
    if route.startswith('stdin'):
        sc['paths'] = ['-']
        sc['stdin'] = src
    else:
        sc['paths'] = ['m.py']
        sc['files'] = {'m.py': src}
    if route.endswith('-output'):
        sc['output'] = 'out.py'
    if route == 'inplace':
        sc['flags'] = sc['flags'] + ['--in-place']
    return sc


def scenarios_c14(r, tier):
    out = []
    srcs = ['witness', 'tiny', 'x', 'nonascii', 'latin1', 'bom', 'empty', 'if', 'str', 'tuple']
    routes = ['file', 'stdin', 'file-output', 'stdin-output', 'inplace']
    for s in srcs:
        for rt in routes:
            out.append(mk_route(rt, SOURCES[s], []))
    # sources at the size boundary whose minified form has the same number of characters but more UTF-8 bytes
    for b in BOUNDARY:
        for rt in routes:
            out.append(mk_route(rt, b.encode('utf-8'), []))
    for rt in routes:
        out.append(mk_route(rt, COOKIE_SRC, []))
    # bodies whose minified form is 0, 1 or 2 bytes LARGER than the source, behind every kind of first line
    bodies = ['EPSILON=1e-5', 'for a,in b:0', 'x=1..real', 'x=1e-5;y=1e-6', 'a=1', 'x', "s=''", 'if a:\n\tpass', 'x=0x10', 'def f():return 1e-7']
    firsts = ['', '#!/usr/bin/env python3\n', '#!/usr/bin/python\r\n', '#!/usr/bin/python\r', '#!/usr/bin/env python3\n\n', '# comment\n', '#!/opt/caf\u00e9/python\n']
    k = 0
    for b in bodies:
        for f in firsts:
            for nl in ('', '\n'):
                k += 1
                out.append(mk_route(routes[k % len(routes)], (f + b + nl).encode('utf-8'), [] if k % 3 else ['--no-preserve-shebang']))
    # the size rule under EVERY single flag (no option may switch it off), on sources that grow, stay equal, or use CRLF line ends
    growers = [b'x=1e-5', b"print('\\a')", b'x=1e-5\r\ny=2', b'x=1e-5\r\ny=2\r\nz=3\r\n', b'a=1\r\nb=2\r\n', b'EPSILON=1e-5\nassert EPSILON', b'if __debug__:x=1e-5', b"'doc'\nx=1e-5"]
    k = 0
    for fl in FLAG_LIST:
        for g in growers[:3] if tier == 'quick' else growers:
            k += 1
            out.append(mk_route(routes[k % len(routes)], g, [fl]))
    for g in growers:
        for rt in routes:
            out.append(mk_route(rt, g, []))
    # several modules in one in-place invocation: a growing module after / between / before shrinking ones, as paths and as a directory
    many = {'m1_shrinks.py': WITNESS, 'm2_grows.py': b'True if 0in x else False ;y=1e-5', 'm3_shrinks.py': b'def render_template(argument):\n    return argument * 2\n', 'm4_grows.py': b'EPSILON=1e-9',
            'm5_same.py': b'a=1', 'm6_shrinks.py': b'import os\nimport sys\n'}
    for order in (sorted(many), sorted(many, reverse=True), ['m2_grows.py', 'm1_shrinks.py', 'm4_grows.py', 'm3_shrinks.py']):
        out.append({'paths': order, 'files': dict(many), 'flags': ['--in-place'], 'route': 'inplace'})
    out.append({'paths': ['pkgdir'], 'files': {'pkgdir/' + k: v for k, v in many.items()}, 'flags': ['--in-place'], 'route': 'inplace'})
    for sb in ('#!/bin/sh', '#!/bin/sh\n', '#!/bin/sh\r\n', '#!x'):
        for rt in routes[:3]:
            out.append(mk_route(rt, sb.encode(), []))
    for s in ['latin1', 'tiny', 'str']:
        for rt in routes:
            out.append(mk_route(rt, SOURCES[s], [], env_force='1'))
            out.append(mk_route(rt, SOURCES[s], [], env_force=''))
    if tier == 'thorough':
        for s in srcs:
            for fl in flag_subsets(r, 6)[1:]:
                out.append(mk_route(r.choice(routes), SOURCES[s], fl))
    return out


def scenarios_c15(r, tier):
    out = []
    good = [b'x  =  1\n', b'def f(abc):\n    return abc\n', WITNESS, b'import a\nimport b\n', COOKIE_SRC, COOKIE2_SRC, 'text  =  "\u00e9\u4e2d"\n'.encode('utf-8'), b'\xef\xbb\xbfbom  =  1\n']
    bad = [('invalid', INVALID), ('undecodable', UNDECODABLE), ('unreadable', ('link', 'nonexistent-target'))]
    n = {'quick': 3, 'search': 4}.get(tier, 6)
    # failure at every position of a flat list of explicit file arguments and of a directory
    for nfiles in range(1, n + 1):
        for pos in range(nfiles):
            for kind, content in bad:
                files = {}
                for i in range(nfiles):
                    files['f%d.py' % i] = content if i == pos else good[(i + 3 * pos + 2 * nfiles) % len(good)]
                out.append({'paths': sorted(files), 'files': files, 'flags': ['--in-place'], 'fail': kind})
                dfiles = {'d/' + k: v for k, v in files.items()}
                dfiles['d/notes.txt'] = b'not python  =  1\n'
                dfiles['d/sub/g.pyw'] = b'y  =  2\n'
                dfiles['d/sub/.hidden.py'] = b'z  =  3\n'
                dfiles['d/sub/data.pyc'] = b'\x00\x01'
                dfiles['e/other.py'] = b'untouched  =  1\n'
                out.append({'paths': ['d'], 'files': dfiles, 'flags': ['--in-place'], 'fail': kind})
            if tier == 'quick' and nfiles >= 2:
                break
    # no failure: nested dirs, symlinks to a file and to a directory, several path arguments
    tree = {'p/a.py': good[0], 'p/b.txt': b'text  =  1', 'p/q/c.pyw': good[1], 'p/q/r/d.py': good[2], 'p/Makefile': b'all:\n\tpass\n',
            'p/q/e.py.bak': b'k  =  1\n', 'p/a_tolerances.py': b'EPSILON=1e-9', 'p/q/b_grows.py': b'x=1 .real', 'p/q/r/c_grows.py': b'1if x else 2', 'p/a.py.tmp': b'tmp  =  1\n', 'p/a.py~': b'bk  =  1\n', 'p/a.pyi': b'x: int\n', 'p/a.py.orig': b'orig  =  1\n', 'p/.a.py.swp': b'swap', 'p/a.py.lock': b'',
            'p/q/c.pyw.tmp': b'tmp  =  2\n', 'p/q/c.pyw.new': b'new  =  2\n', 'p/q/tmp': b'plain', 'p/a.tmp': b'a tmp', 'p/a': b'no extension  =  1\n', 'x.py.tmp': b'tmp  =  3\n', 'x.tmp': b't', 'p/a.py.d/keep.txt': b'dir sibling', 'p/legacy.py': COOKIE_SRC, 'p/q/legacy_window.pyw': COOKIE2_SRC, 'p/q/r/utf8.py': good[6], 'p/bom.py': good[7], 'x.py': good[3], 'outside/z.py': good[0], 'p/ln.py': ('link', '../outside/z.py'), 'p/lnd': ('link', '../outside')}
    out.append({'paths': ['p', 'x.py'], 'files': tree, 'flags': ['--in-place']})
    out.append({'paths': ['p'], 'files': tree, 'flags': ['--in-place', '--rename-globals']})
    out.append({'paths': ['x.py'], 'files': tree, 'flags': [], 'output': 'o.py'})
    out.append({'paths': ['x.py'], 'files': tree, 'flags': []})
    out.append({'paths': ['nonexistent.py'], 'files': tree, 'flags': ['--in-place'], 'fail': 'unreadable'})
    globby = {'mod[1].py': good[0], 'mod1.py': good[1], 'pkg[ab]/x.py': good[0], 'pkga/x.py': good[1], 'pkgb/y.py': good[2], 'star*.py': good[0], 'starry.py': good[1], 'q?.py': good[0], 'qq.py': good[1]}
    out.append({'paths': ['mod[1].py'], 'files': dict(globby), 'flags': ['--in-place']})
    out.append({'paths': ['pkg[ab]'], 'files': dict(globby), 'flags': ['--in-place']})
    out.append({'paths': ['star*.py', 'q?.py'], 'files': dict(globby), 'flags': ['--in-place']})
    out.append({'paths': ['mod[1].py'], 'files': dict(globby), 'flags': [], 'output': 'o.py'})
    # --output that IS the source (same path, through a symlink), and a failing source next to an --output file
    out.append({'paths': ['x.py'], 'files': tree, 'flags': [], 'output': 'x.py'})
    out.append({'paths': ['p/a.py'], 'files': dict(tree, **{'alias.py': ('link', 'p/a.py')}), 'flags': [], 'output': 'alias.py'})
    out.append({'paths': ['alias.py'], 'files': dict(tree, **{'alias.py': ('link', 'p/a.py')}), 'flags': [], 'output': 'p/a.py'})
    out.append({'paths': ['bad.py'], 'files': dict(tree, **{'bad.py': INVALID}), 'flags': [], 'output': 'bad.py', 'fail': 'invalid'})
    out.append({'paths': ['bad.py'], 'files': dict(tree, **{'bad.py': UNDECODABLE, 'alias.py': ('link', 'bad.py')}), 'flags': [], 'output': 'alias.py', 'fail': 'undecodable'})
    return out


# ----------------------------------------------------------------------------------------------- Coq side
def coq_text(b):
    if isinstance(b, str):
        b = [ord(c) for c in b]
    return '[' + ';'.join(str(x) for x in b) + ']%N'


def coq_opt(v, f):
    return 'None' if v is None else '(Some %s)' % f(v)


def coq_list(l, f):
    return '[' + '; '.join(f(x) for x in l) + ']'


def coq_flag(f):
    return 'F_' + f.lstrip('-').replace('-', '_')


def coq_options(kw):
    ra = kw['remove_annotations']
    b = lambda x: 'true' if x else 'false'
    fields = ['o_remove_annotations := {| ro_remove_variable_annotations := %s; ro_remove_return_annotations := %s; ro_remove_argument_annotations := %s; ro_remove_class_attribute_annotations := %s |}'
              % (b(ra.remove_variable_annotations), b(ra.remove_return_annotations), b(ra.remove_argument_annotations), b(ra.remove_class_attribute_annotations))]
    for k, v in kw.items():
        if k == 'remove_annotations':
            continue
        if isinstance(v, bool):
            fields.append('o_%s := %s' % (k, b(v)))
        else:
            fields.append('o_%s := %s' % (k, coq_list(v, coq_text)))
    return '{| ' + '; '.join(fields) + ' |}'


def model_cases(scenarios, observed):
    """emit Cases/cli_cases.v: for each scenario the generated model must predict the observed stdout / writes / exit."""
    lines = ['From Coq Require Import String.', 'From PM Require Import Model.CliBase Model.CliObs Gen.Cli Proofs.CliSpec.', 'Open Scope bool_scope.']
    names = []
    for i, (sc, ob) in enumerate(zip(scenarios, observed)):
        flags = [f for f in sc.get('flags', [])]
        fset = coq_list(flags, coq_flag)
        pl, pg = sc.get('pl'), sc.get('pg')
        kw = documented_kwargs([f for f in flags if f != '--in-place'], pl, pg)
        # the api oracle for this scenario: answers only for the documented options (anything else: ApiRaise 99)
        srcs = {}
        if sc['paths'] == ['-']:
            srcs['stdin'] = sc.get('stdin', b'')
        for rel, ent in ob['before'].items():
            if ent[0] == 'file':
                srcs[rel] = ent[1]
            elif ent[0] == 'link' and ent[2] is not None:
                srcs[rel] = ent[2]
        entries = []
        for fn, content in srcs.items():
            r = api(content, fn, kw)
            res = 'ApiOk %s' % coq_text(r[1]) if r[0] == 'ok' else 'ApiRaise 1'
            entries.append('if text_eqb fn %s && text_eqb src %s then %s else' % (coq_text(fn), coq_text(content), res))
        lines.append('Definition api_%d : api_t := fun src fn o => if negb (options_eqb o %s) then ApiRaise 99 else' % (i, coq_options(kw)))
        for e in entries:
            lines.append('  ' + e)
        lines.append('  ApiRaise 98.')
        # file system
        isdirs = [pa for pa in sc['paths'] if pa in ob['walk']]
        lines.append('Definition fs_%d : fsys := {| fs_isdir := fun p => mem_text p %s;' % (i, coq_list(isdirs, coq_text)))
        lines.append('  fs_walk := fun p => ' + ''.join('if text_eqb p %s then %s else ' % (coq_text(pa), coq_list(w, lambda x: 'inl (%s, %s)' % (coq_text(x[0]), coq_list(x[1], coq_text)))) for pa, w in ob['walk'].items()) + '[];')
        lines.append('  fs_read := fun p => ' + ''.join('if text_eqb p %s then Some %s else ' % (coq_text(fn), coq_text(c)) for fn, c in srcs.items() if fn != 'stdin') + 'None |}.')
        envf = coq_opt(sc.get('env_force'), coq_text)
        lines.append('Definition tr_%d : trace := cli api_%d fs_%d %s %s (args_of (fun f => existsb (flag_eqb f) %s) %s %s %s %s).'
                     % (i, i, i, envf, coq_text(sc.get('stdin', b'')), fset, coq_list(sc['paths'], coq_text), coq_opt(sc.get('output'), coq_text),
                        coq_opt(pl, lambda l: coq_list(l, coq_text)), coq_opt(pg, lambda l: coq_list(l, coq_text))))
        # observed: stdout, changed files, exit
        changed = sorted((rel, v[1]) for rel, v in ob['after'].items() if v[0] == 'file' and ob['before'].get(rel) != v)
        exp_exit = ob['exit']
        lines.append('Definition ok_%d : bool := obs_eqb (observe fs_%d tr_%d) (%s, %s, %d%%Z).'
                     % (i, i, i, coq_text(ob['stdout']), coq_list(changed, lambda x: '(%s, %s)' % (coq_text(x[0]), coq_text(x[1]))), exp_exit))
        names.append('ok_%d' % i)
    lines.append('Definition oks : list bool := %s.' % coq_list(names, str))
    lines.append('Definition failing : list nat := filter (fun i => negb (nth i oks true)) (seq 0 (length oks)).')
    lines.append('Eval vm_compute in (length oks, failing).')
    return '\n'.join(lines) + '\n'


def resolve_links(root_before, ob):
    pass


def run_model(scenarios, observed, tag):
    """returns (n_cases, failing indices, raw output)"""
    os.makedirs(os.path.join(common.COQ, 'Cases'), exist_ok=True)
    path = os.path.join(common.COQ, 'Cases', 'cli_cases_%s.v' % tag)
    open(path, 'w').write(model_cases(scenarios, observed))
    p = subprocess.run(['timeout', '900', 'coqc', '-R', '.', 'PM', os.path.relpath(path, common.COQ)], cwd=common.COQ,
                       stdout=subprocess.PIPE, stderr=subprocess.STDOUT, text=True)
    out = p.stdout
    import re
    m = re.search(r'=\s*\((\d+)(?:%nat)?,\s*\[(.*?)\]\)', out, re.S)
    if p.returncode != 0 or not m:
        return 0, None, out[-2000:]
    failing = [int(x) for x in re.findall(r'\d+', m.group(2))]
    return int(m.group(1)), failing, out[-500:]
