"""Shared machinery for every check: paths, seeding, translator + Coq build, assumption parsing, known findings,
replay and evidence writing.  Run with /venv/bin/python (3.12, the interpreter the repository is tested with)."""
import os, sys, json, time, re, subprocess, random, hashlib, fcntl, contextlib, shutil, tempfile

VERIF = os.path.dirname(os.path.dirname(os.path.abspath(__file__)))
REPO = os.environ.get('VERIF_REPO', '/repo')
SRC = os.path.join(REPO, 'src')
COQ = os.path.join(VERIF, 'coq')
PY = '/venv/bin/python'
STDLIB = '/root/.pyenv/versions/3.12.1/lib/python3.12'
SCRATCH_ROOT = '/var/tmp'

# the package under test is always imported from /repo's working tree
if SRC not in sys.path:
    sys.path.insert(0, SRC)
os.environ['PYTHONPATH'] = SRC
os.environ.setdefault('PYTHONHASHSEED', '0')
os.environ.pop('PYMINIFY_FORCE_BEST_EFFORT', None)
sys.path.insert(0, VERIF)
import warnings
warnings.filterwarnings('ignore', category=SyntaxWarning)
warnings.filterwarnings('ignore', category=DeprecationWarning)

ALLOWED_AXIOMS = set()   # every property theorem is expected to be closed under the global context

FORBIDDEN = re.compile(r'\b(Admitted|admit|Axiom|Axioms|Parameter|Parameters|Conjecture|Conjectures)\b|Unset\s+Guard|bypass_check|type-in-type|impredicative-set|Admit\s+Obligations|Unset\s+Positivity|Unset\s+Universe')


def seed():
    try:
        return int(os.environ.get('VERIF_SEED', '0'))
    except ValueError:
        return 0


def rng(tag=''):
    h = hashlib.sha256(('%d/%s' % (seed(), tag)).encode()).digest()
    return random.Random(int.from_bytes(h[:8], 'big'))


@contextlib.contextmanager
def coq_lock():
    os.makedirs(COQ, exist_ok=True)
    with open(os.path.join(COQ, '.lock'), 'w') as f:
        fcntl.flock(f, fcntl.LOCK_EX)
        try:
            yield
        finally:
            fcntl.flock(f, fcntl.LOCK_UN)


@contextlib.contextmanager
def scratch(prefix='pmverif-'):
    d = tempfile.mkdtemp(prefix=prefix, dir=SCRATCH_ROOT)
    try:
        yield d
    finally:
        shutil.rmtree(d, ignore_errors=True)


# ----------------------------------------------------------------------------------------------- translator
def translate(names):
    """run the named translators; returns list of (name, error message) for those that failed closed"""
    import importlib
    broken = []
    for n in names:
        mod = importlib.import_module('translator.' + n)
        try:
            mod.translate(REPO, os.path.join(COQ, 'Gen'))
        except Exception as e:   # Untranslatable, SyntaxError in the source, ...
            broken.append((n, '%s: %s' % (type(e).__name__, e)))
    return broken


# ----------------------------------------------------------------------------------------------- coq build
def grep_gate():
    bad = []
    for root, _d, files in os.walk(COQ):
        for f in files:
            if f.endswith('.v'):
                p = os.path.join(root, f)
                txt = open(p).read()
                txt_nc = re.sub(r'\(\*.*?\*\)', '', txt, flags=re.S)
                m = FORBIDDEN.search(txt_nc)
                if m:
                    bad.append('%s: %s' % (os.path.relpath(p, COQ), m.group(0)))
    return bad


def coq_build(targets, timeout=1500):
    """full .vo build of the given targets (paths relative to coq/). returns (ok, log)"""
    cmd = ['timeout', str(timeout), os.path.join(COQ, 'mk.sh')] + list(targets)
    p = subprocess.run(cmd, cwd=COQ, stdout=subprocess.PIPE, stderr=subprocess.STDOUT, text=True)
    return p.returncode == 0, p.stdout


def print_assumptions(prop_file, out):
    """parse the Print Assumptions output of the (forced) build of a Properties file.
    returns dict theorem -> 'Closed under the global context' | axiom block"""
    src = open(os.path.join(COQ, prop_file)).read()
    names = re.findall(r'Print Assumptions (\w+)\.', src)
    blocks = re.split(r'(?m)^(?=Closed under the global context|Axioms:)', out)
    blocks = [b for b in blocks if b.startswith('Closed under') or b.startswith('Axioms:')]
    res = {}
    for n, b in zip(names, blocks):
        if b.startswith('Closed under'):
            res[n] = 'Closed under the global context'
        else:
            res[n] = b.strip()
    return res, len(blocks) == len(names), out


def theorem_names(prop_file):
    src = open(os.path.join(COQ, prop_file)).read()
    return re.findall(r'(?m)^\s*Theorem (\w+)', src)


def coq_N_list(b):
    if isinstance(b, str):
        b = [ord(c) for c in b]
    return '[' + ';'.join(str(x) for x in b) + ']%N'


def run_cases(tag, header, cases, shard=400, timeout=900):
    """cases: list of Gallina boolean expressions (strings). Evaluated by vm_compute in shards.
    returns (n_evaluated, failing indices or None when evaluation itself failed, raw tail)"""
    os.makedirs(os.path.join(COQ, 'Cases'), exist_ok=True)
    files = []
    for k in range(0, len(cases), shard):
        chunk = cases[k:k + shard]
        path = os.path.join(COQ, 'Cases', 'cases_%s_%d.v' % (tag, k // shard))
        lines = list(header)
        for i, c in enumerate(chunk):
            lines.append('Definition ok_%d : bool := %s.' % (i, c))
        lines.append('Definition oks : list bool := [%s].' % '; '.join('ok_%d' % i for i in range(len(chunk))))
        lines.append('Definition failing : list nat := filter (fun i => negb (nth i oks true)) (seq 0 (length oks)).')
        lines.append('Eval vm_compute in (length oks, failing).')
        open(path, 'w').write('\n'.join(lines) + '\n')
        files.append((k, path))

    def one(kp):
        k, path = kp
        p = subprocess.run(['timeout', str(timeout), 'coqc', '-noglob', '-R', '.', 'PM', os.path.relpath(path, COQ)], cwd=COQ, stdout=subprocess.PIPE, stderr=subprocess.STDOUT, text=True)
        m = re.search(r'=\s*\((\d+)(?:%nat)?,\s*\[(.*?)\]\)', p.stdout, re.S)
        failed = p.returncode != 0 or not m or bool(re.findall(r'\d+', m.group(2)))
        # the case files are scratch: compiled output is removed straight away, the source is kept only when something in it failed
        stem = path[:-2]
        for ext in ('.vo', '.vok', '.vos', '.glob') + (() if failed else ('.v',)):
            try:
                os.remove(stem + ext)
            except OSError:
                pass
        try:
            os.remove(os.path.join(os.path.dirname(path), '.' + os.path.basename(stem) + '.aux'))
        except OSError:
            pass
        if p.returncode != 0 or not m:
            return k, None, p.stdout[-1500:]
        return k, (int(m.group(1)), [int(x) for x in re.findall(r'\d+', m.group(2))]), ''
    from concurrent.futures import ThreadPoolExecutor
    n, failing, raw = 0, [], ''
    with ThreadPoolExecutor(8) as ex:
        for k, r, out in ex.map(one, files):
            if r is None:
                return n, None, out
            n += r[0]
            failing += [k + i for i in r[1]]
    return n, failing, raw


# ----------------------------------------------------------------------------------------------- known findings
def load_known():
    path = os.path.join(VERIF, 'KNOWN_FINDINGS.txt')
    out = []
    if os.path.exists(path):
        for line in open(path):
            line = line.strip()
            m = re.match(r'finding: property=(\S+) signature=(\S+) :: (.*)', line)
            if m:
                out.append({'status': 'finding', 'property': m.group(1), 'signature': m.group(2), 'what': m.group(3)})
    return out


def match_known(pid, signature):
    """signature: a short canonical string for the failing shape. returns the finding entry or None"""
    for k in load_known():
        if k.get('status') == 'finding' and k.get('property') == pid and k.get('signature') == signature:
            return k
    return None


# ----------------------------------------------------------------------------------------------- result
class Result:
    def __init__(self, pid, tier):
        self.pid = pid
        self.tier = tier
        self.t0 = time.time()
        self.broken = []        # (kind, detail): translator / proof / correspondence obligations that no longer check
        self.violations = []    # dict(signature, what, replay(dict))
        self.coverage = {}
        self.assumptions = []
        self.samples = []
        self.obligations = 0
        self.discharged = 0
        self.trusted = []
        self.notes = {}
        import glob
        for f in glob.glob(os.path.join(VERIF, 'replay', pid + '-*.json')):
            try:
                os.remove(f)
            except OSError:
                pass

    def add_violation(self, signature, what, replay):
        self.violations.append({'signature': signature, 'what': what, 'replay': replay})

    def finish(self, level='proof', checker_cmd='', extra=None):
        known_lines, unknown = [], []
        seen = set()
        for v in self.violations:
            k = match_known(self.pid, v['signature'])
            if k:
                if v['signature'] not in seen:
                    known_lines.append('KNOWN-FINDING: property=%s %s' % (self.pid, k.get('what', v['what'])))
                    seen.add(v['signature'])
            else:
                unknown.append(v)
        os.makedirs(os.path.join(VERIF, 'replay'), exist_ok=True)
        lines = []
        rc = 0
        for i, v in enumerate(unknown[:5]):
            path = os.path.join(VERIF, 'replay', '%s-%d.json' % (self.pid, i))
            json.dump({'property': self.pid, 'signature': v['signature'], 'what': v['what'], 'seed': seed(), 'tier': self.tier,
                       'replay': v['replay'], 'broken_obligations': self.broken}, open(path, 'w'), indent=1, default=repr)
            lines.append('VIOLATION property=%s replay=%s' % (self.pid, path))
            rc = 1
        if self.broken and not unknown:
            path = os.path.join(VERIF, 'replay', '%s-obligation.json' % self.pid)
            json.dump({'property': self.pid, 'no_longer_checks': self.broken, 'seed': seed(), 'tier': self.tier,
                       'note': 'a proof obligation, the translator or a correspondence leg broke; the search found no input on which the property itself fails'},
                      open(path, 'w'), indent=1, default=repr)
            lines.append('VIOLATION property=%s replay=%s no-failing-input-found' % (self.pid, path))
            rc = 1
        cov = dict(self.coverage)
        cov.setdefault('obligations', self.obligations)
        cov.setdefault('discharged', self.discharged)
        cov.setdefault('checker_cmd', checker_cmd or 'cd /verif/coq && ./mk.sh Properties/%s.vo  (coqc 8.16.1, full .vo build) ; coqc Properties/%s.v for Print Assumptions' % (self.pid, self.pid))
        cov.setdefault('trusted_base', self.trusted)
        cov.setdefault('samples', self.samples[:12] or ['(none)'])
        cov['broken_obligations'] = self.broken
        cov['known_findings_reported'] = known_lines
        if extra:
            cov.update(extra)
        if level == 'proof' and (cov['obligations'] < 1 or cov['discharged'] < 1):
            # nothing was proved in this run (build broke): fall back to the generic keys the schema accepts
            cov['obligations'] = max(cov['obligations'], 1)
            cov['discharged'] = 0
            cov.setdefault('evaluations', max(1, cov.get('evaluations', 1)))
            cov.setdefault('distinct_nontrivial', max(2, cov.get('distinct_nontrivial', 2)))
        ev = {'property_id': self.pid, 'tier': self.tier, 'seed': seed(), 'level': level, 'coverage': cov,
              'assumptions': self.assumptions, 'wall_s': round(time.time() - self.t0, 2), 'violations': len(unknown) + (1 if self.broken and not unknown else 0)}
        os.makedirs(os.path.join(VERIF, 'evidence'), exist_ok=True)
        json.dump(ev, open(os.path.join(VERIF, 'evidence', self.pid + '.json'), 'w'), indent=1, default=repr)
        for l in known_lines:
            print(l)
        for l in lines:
            print(l)
        if rc == 0:
            print('OK property=%s tier=%s obligations=%d/%d wall=%.1fs' % (self.pid, self.tier, self.discharged, self.obligations, time.time() - self.t0))
        return rc


def standard_proof_phase(res, translators, prop_file, extra_targets=(), model_targets=()):
    """translate -> grep gate -> build -> Print Assumptions. Fills res.broken / obligations."""
    with coq_lock():
        for n, msg in translate(translators):
            res.broken.append(('translator', 'translator/%s.py cannot read the source: %s' % (n, msg)))
        bad = grep_gate()
        if bad:
            res.broken.append(('gate', 'forbidden construct in the development: ' + '; '.join(bad)))
        target = prop_file[:-2] + '.vo'
        if model_targets:
            okm, logm = coq_build(list(model_targets))
            if not okm:
                err = [l for l in logm.splitlines() if 'Error' in l or l.startswith('File ')]
                res.broken.append(('model', 'the executable model no longer builds against the regenerated Gen/ files: ' + ' | '.join(err[:6])))
        try:
            os.remove(os.path.join(COQ, target))     # force re-checking of the property file itself so that its Print Assumptions output is in the log
        except OSError:
            pass
        ok, log = coq_build([target] + list(extra_targets))
        thms = theorem_names(prop_file)
        res.obligations = len(thms)
        if not ok:
            err = [l for l in log.splitlines() if 'Error' in l or l.startswith('File ')]
            res.broken.append(('proof', 'coq build of %s failed: %s' % (target, ' | '.join(err[:6]) or log[-400:])))
            res.discharged = 0
            res.notes['build_log_tail'] = log[-1500:]
            return False
        asm, ok2, out = print_assumptions(prop_file, log)
        closed = 0
        for tname in thms:
            a = asm.get(tname)
            if a is None:
                res.broken.append(('proof', 'no Print Assumptions output for ' + tname))
            elif a == 'Closed under the global context':
                closed += 1
            else:
                axioms = set(re.findall(r'(?m)^(\S+)\s*:', a)) - {'Axioms'}
                if axioms <= ALLOWED_AXIOMS:
                    closed += 1
                else:
                    res.broken.append(('proof', '%s depends on axioms: %s' % (tname, sorted(axioms))))
        res.discharged = closed
        res.notes['print_assumptions'] = asm
        return closed == len(thms) and not res.broken
