#!/venv/bin/python
"""seeded_run.py <seeded dir> [extra check ids...]: apply /verif/seeded/<name>/patch.diff to /repo, run the quick check of the
property it breaks (plus any extra ids), undo the patch, and record which checks raised the alarm in results.json."""
import sys, os, json, subprocess
VERIF = os.path.dirname(os.path.dirname(os.path.abspath(__file__)))


def sh(cmd, **kw):
    return subprocess.run(cmd, shell=True, stdout=subprocess.PIPE, stderr=subprocess.STDOUT, text=True, **kw)


def main():
    d = os.path.abspath(sys.argv[1])
    meta = json.load(open(os.path.join(d, 'meta.json')))
    ids = [meta['property']] + sys.argv[2:]
    if sh('git -C /repo status --porcelain').stdout.strip():
        print('refusing: /repo is not clean')
        return 2
    if os.environ.get('SEED_REVERT'):
        c = os.environ['SEED_REVERT']
        sh('git -C /repo diff %s %s~1 | git -C /repo apply' % (c, c))
    a = sh('git -C /repo apply %s' % os.path.join(d, 'patch.diff'))
    if a.returncode != 0:
        print('patch does not apply:', a.stdout[-300:])
        return 2
    results = {}
    try:
        for pid in ids:
            p = sh('/venv/bin/python %s/harness/check.py %s quick' % (VERIF, pid), cwd=VERIF, timeout=3600)
            lines = [l for l in p.stdout.splitlines() if l.startswith(('VIOLATION', 'OK ', 'KNOWN-FINDING'))]
            detail = None
            try:
                ev = json.load(open(os.path.join(VERIF, 'evidence', pid + '.json')))
                detail = {'broken_obligations': ev['coverage'].get('broken_obligations'), 'violations': ev.get('violations')}
                sigs = []
                import glob
                for f in sorted(glob.glob(os.path.join(VERIF, 'replay', pid + '-*.json'))):
                    r = json.load(open(f))
                    if 'signature' in r:
                        sigs.append(r['signature'])
                detail['signatures'] = sorted(set(sigs))
            except Exception as e:   # noqa
                detail = {'error': repr(e)}
            results[pid] = {'exit': p.returncode, 'lines': lines[:8], 'detail': detail}
            print(pid, 'exit', p.returncode, lines[:3])
    finally:
        sh('git -C /repo checkout -- .')
        sh('/venv/bin/python -c "import sys; sys.path.insert(0, \'%s\'); from harness import common; common.translate([\'cli\',\'pipeline\',\'evalsites\',\'namegen\',\'prectable\',\'tokenrules\'])"' % VERIF)
    json.dump(results, open(os.path.join(d, 'results.json'), 'w'), indent=1)
    return 0


if __name__ == '__main__':
    sys.exit(main())
