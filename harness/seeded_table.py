#!/venv/bin/python
"""seeded_table.py: regenerate the table of DESIGN.md section 0.6 (which checks catch which seeded changes) from
/verif/seeded/*/meta.json and results.json."""
import os, json, glob, re
VERIF = os.path.dirname(os.path.dirname(os.path.abspath(__file__)))
BEGIN, END = '<!-- SEEDED-TABLE-BEGIN -->', '<!-- SEEDED-TABLE-END -->'


def short(t, n):
    t = re.sub(r'\s+', ' ', t).strip().replace('|', '/')
    return t if len(t) <= n else t[:n - 1].rsplit(' ', 1)[0] + ' …'


def main():
    rows, stats = [], {'with-input': 0, 'no-input': 0, 'quiet': 0, 'other-only': 0, 'not-evaluated': 0}
    for d in sorted(glob.glob(os.path.join(VERIF, 'seeded', 'C*'))):
        name = os.path.basename(d)
        try:
            meta = json.load(open(os.path.join(d, 'meta.json')))
            res = json.load(open(os.path.join(d, 'results.json')))
        except Exception:
            continue
        pid = meta.get('property', name[:3])
        files = ', '.join(os.path.basename(f) for f in meta.get('files_touched', []))
        if 'not_run' in res:
            rows.append('| %s | %s | %s | not evaluated: %s | |' % (name, files, short(meta.get('summary', ''), 220), short(res['not_run'], 200)))
            stats['not-evaluated'] += 1
            continue
        own = res.get(pid, {})
        v = own.get('verdict', '?')
        owntxt = {'alarm-with-failing-input': 'VIOLATION with replay: ' + ', '.join('`%s`' % s for s in own.get('signatures', [])[:3]),
                  'alarm-no-failing-input-found': 'VIOLATION no-failing-input-found (' + short('; '.join(own.get('broken_obligations', [])[:1]), 140) + ')',
                  'quiet': '**quiet**'}.get(v, v)
        others = []
        for cid, r in res.items():
            if cid == pid or not isinstance(r, dict):
                continue
            if r.get('verdict') == 'alarm-with-failing-input':
                others.append('%s (replay)' % cid)
            elif r.get('verdict') == 'alarm-no-failing-input-found':
                others.append('%s (obligation)' % cid)
        if v == 'alarm-with-failing-input':
            stats['with-input'] += 1
        elif v == 'alarm-no-failing-input-found':
            stats['no-input'] += 1
        elif others:
            stats['other-only'] += 1
        else:
            stats['quiet'] += 1
        extra = ''
        if meta.get('requires_reverting'):
            extra = ' (evaluated with fix %s reverted)' % meta['requires_reverting']
        if meta.get('rebased_onto'):
            extra = ' (patch re-based by hand)'
        rows.append('| %s | %s | %s%s | %s | %s |' % (name, files, short(meta.get('summary', ''), 220), extra, owntxt, ', '.join(others)))
    head = ['', '| Seed | File(s) | What the change does | Its own property\'s quick check | Other quick checks that alarm |', '|---|---|---|---|---|']
    summ = ('%d seeded changes are kept under `seeded/`: the quick check of the property each was written against reports a violation WITH a concrete failing input for %d, '
            'a violation without one (`no-failing-input-found`: a translator / proof / correspondence obligation broke and the search found no input) for %d, '
            'stays quiet for %d (of which %d are caught by another property\'s check); %d are recorded but were not evaluated (see the row).'
            % (len(rows), stats['with-input'], stats['no-input'], stats['quiet'] + stats['other-only'], stats['other-only'], stats['not-evaluated']))
    text = '\n'.join([BEGIN, summ] + head + rows + [END])
    p = os.path.join(VERIF, 'DESIGN.md')
    s = open(p).read()
    if BEGIN in s:
        s = s[:s.index(BEGIN)] + text + s[s.index(END) + len(END):]
    else:
        raise SystemExit('markers not found in DESIGN.md')
    open(p, 'w').write(s)
    print(summ)


if __name__ == '__main__':
    main()
