"""Runs minify() under sys.addaudithook in a fresh process and reports, per case, every source text that was compiled
for execution and every import/open/process/network event.  stdin: JSON list of {source, options}; stdout: JSON list."""
import sys, json, io, tokenize

events = []
recording = [False]


def hook(name, args):
    if not recording[0]:
        return
    if name == 'compile':
        src, fn = args[0], args[1]
        if isinstance(src, bytes):
            try:
                src = src.decode('utf-8', 'replace')
            except Exception:
                src = repr(src)
        events.append(('compile', src if isinstance(src, str) else None, fn if isinstance(fn, str) else repr(fn)))
    elif name == 'exec':
        code = args[0]
        events.append(('exec', getattr(code, 'co_filename', '?'), list(getattr(code, 'co_names', ()))))
    elif name in ('import', 'open', 'os.system', 'subprocess.Popen', 'os.exec', 'os.posix_spawn', 'os.spawn', 'os.fork', 'ctypes.dlopen',
                  'urllib.Request', 'socket.connect', 'socket.bind', 'socket.__new__', 'socket.getaddrinfo', 'os.startfile', 'pty.spawn', 'os.remove', 'os.rename', 'shutil.rmtree'):
        events.append((name, repr(args[0])[:200], ''))


def main():
    import os
    # the results go to a private copy of stdout; fd 1 itself is pointed at /dev/null so that nothing the code under test (or input code
    # it wrongly runs) prints can corrupt them
    out_fd = os.dup(1)
    devnull = os.open(os.devnull, os.O_WRONLY)
    os.dup2(devnull, 1)
    sys.stdout = open(os.devnull, 'w')
    import python_minifier
    cases = json.load(sys.stdin)
    # warm up: lazy imports done by the package / the interpreter (re, encodings, warnings...) happen here
    for warm in ("import os\nx = f'{1+1}' + 'a' * 2\nprint(f\"a{x!r:>{10}}b{'q'}\")\nassert x\n", b'# -*- coding: latin-1 -*-\nx = 1 + 2\n'):
        try:
            python_minifier.minify(warm, remove_literal_statements=True, rename_globals=True, remove_asserts=True, remove_debug=True)
        except Exception:
            pass
    sys.addaudithook(hook)
    out = []
    for c in cases:
        src = c['source']
        if c.get('bytes'):
            src = src.encode('latin-1')
        del events[:]
        recording[0] = True
        err = None
        try:
            python_minifier.minify(src, **c.get('options', {}))
        except BaseException as e:   # noqa
            err = type(e).__name__
        recording[0] = False
        out.append({'error': err, 'events': list(events)})
    with os.fdopen(out_fd, 'w') as f:
        json.dump(out, f)


if __name__ == '__main__':
    main()
