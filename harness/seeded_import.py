#!/venv/bin/python
"""seeded_import.py [names...]: bring every seeded change whose confirmation is complete into /verif/seeded/<ID>-<v>/
(patch.diff, demo.py, meta.json extended with what the confirmation ran and saw) and evaluate the CURRENT checks against it.

Nothing here touches /repo's working tree or /verif's evidence: the checks run from a scratch copy of /verif
(/var/tmp/vcopy<k>) with VERIF_REPO pointing at a scratch git worktree of /repo HEAD that has the patch applied
(and, for a seed that relies on a since-repaired defect, the named fix commit reverted)."""
import os, sys, json, shutil, subprocess, glob
from concurrent.futures import ThreadPoolExecutor
VERIF = os.path.dirname(os.path.dirname(os.path.abspath(__file__)))
ROUNDS = [('/tmp/seed/out', '/root/seedtools/confirm', 'ab'), ('/tmp/seed2/out', '/root/seedtools/confirm2', 'c'), ('/tmp/seed3/out', '/root/seedtools/confirm4', 'de'), ('/tmp/seed4/out', '/root/seedtools/confirm5', 'f')]
REBASED = '/var/tmp/preseed'        # patches re-based by hand onto the repaired tree live here (see meta.json: rebased_onto)
EXTRA = {'C01': ['C05', 'C03'], 'C02': ['C08'], 'C03': ['C08', 'C04'], 'C04': ['C03'], 'C06': ['C03', 'C07'], 'C07': ['C06', 'C01'], 'C08': ['C03'], 'C09': ['C03'], 'C10': [], 'C11': [], 'C12': ['C08'],
         'C13': ['C14'], 'C14': ['C13'], 'C15': ['C13'], 'C16': ['C13'], 'C17': [], 'C05': ['C01']}
NOTES = {
    'C13-a': {'requires_reverting': '17ce2e9', 'note_on_base': 'relies on minify() extending the caller\'s preserve lists in place (defect D5, repaired by fix commit 17ce2e9); evaluated with 17ce2e9 reverted (two cooperating sites)'},
    'C11-a': {'dropped': 'the same change as C13-a; as a C11 violation it exists only through defect D5 itself (repaired by 17ce2e9): with the fix reverted C11 alarms with or without the seed, so it discriminates nothing'},
    'C10-b': {'rebased_onto': 'the repaired tree: the normalisation of preserve_locals/preserve_globals had been rewritten by fix 17ce2e9; the seeded helper _name_list() was re-applied by hand on top of it'},
    'C16-a': {'rebased_onto': 'the repaired tree: the shebang regex had been changed by fix 10b82d1; the seeded .decode(\'latin-1\') was re-applied by hand'},
    'C03-e': {'rebased_onto': 'the repaired tree: fix 0cf6ced inserted the module-level taint test at the top of get_binding; the seeded reordering (nonlocal_names tested before global_names) was re-applied by hand below it', 'rebased_confirm': '/root/seedtools/confirm4'},
    'C09-e': {'dropped': 'moves the taint test of get_binding into a post-pass; it conflicts with fix 0cf6ced (D22) which rewrote the same lines, and on its own base the repaired defect D22 already makes the strengthened C09 check alarm, so it discriminates nothing'},
    'C12-b': {'rebased_onto': 'the repaired tree: PEP 701 support for f_string.Bytes was added by fix commits 06cc3a4/9762545; the seeded defect (no escape for the backslash byte) was re-created by deleting that branch'},
}


def sh(cmd, **kw):
    return subprocess.run(cmd, shell=True, stdout=subprocess.PIPE, stderr=subprocess.STDOUT, text=True, **kw)


def worktree(name, meta, patch):
    wt = '/tmp/seedeval-' + name
    sh('git -C /repo worktree remove --force %s' % wt)
    if sh('git -C /repo worktree add -q %s HEAD' % wt).returncode != 0:
        return None, 'cannot create worktree'
    rev = meta.get('requires_reverting')
    if rev:
        sh('git -C %s diff %s %s~1 | git -C %s apply' % (wt, rev, rev, wt))
    return wt, None


def evaluate(job):
    name, dst, slot = job
    meta = json.load(open(os.path.join(dst, 'meta.json')))
    wt, err = worktree(name, meta, os.path.join(dst, 'patch.diff'))
    if wt is None:
        return name, {'not_run': err}
    try:
        clean = sh('PYTHONPATH=%s/src timeout 900 /venv/bin/python %s' % (wt, os.path.join(dst, 'demo.py'))).returncode
        ap = sh('git -C %s apply %s' % (wt, os.path.join(dst, 'patch.diff')))
        if ap.returncode != 0:
            return name, {'not_run': 'patch does not apply to the current /repo HEAD: ' + ap.stdout[-200:]}
        patched = sh('PYTHONPATH=%s/src timeout 900 /venv/bin/python %s' % (wt, os.path.join(dst, 'demo.py'))).returncode
        meta.setdefault('confirmed_by_me', {})['demo_exit_on_current_head'] = {'without_patch': clean, 'with_patch': patched}
        json.dump(meta, open(os.path.join(dst, 'meta.json'), 'w'), indent=1)
        if clean != 0 or patched != 1:
            return name, {'not_run': 'on the current /repo HEAD the demonstration exits %d without and %d with the patch: the seed no longer separates the trees' % (clean, patched)}
        copy = '/var/tmp/vcopy%d' % slot
        sh('rsync -a --delete --exclude .git --exclude coq/Cases --exclude replay %s/ %s/' % (VERIF, copy))
        os.makedirs(os.path.join(copy, 'replay'), exist_ok=True)
        results = {}
        pid = meta['property']
        own_only = bool(os.environ.get('SEED_OWN_ONLY'))
        if own_only:      # re-evaluate the check of the seed's own property only; keep what the other checks said last time
            try:
                results = {k: v for k, v in json.load(open(os.path.join(dst, 'results.json'))).items() if isinstance(v, dict) and k != pid}
            except Exception:   # noqa
                results = {}
        for cid in [pid] + ([] if own_only else [x for x in EXTRA.get(pid, []) if x != pid]):
            for f in glob.glob(os.path.join(copy, 'replay', cid + '-*.json')):
                os.remove(f)
            p = sh('/venv/bin/python harness/check.py %s quick' % cid, cwd=copy, env=dict(os.environ, VERIF_REPO=wt), timeout=5400)
            lines = [l for l in p.stdout.splitlines() if l.startswith(('VIOLATION', 'OK '))]
            sigs, broken = set(), []
            for f in sorted(glob.glob(os.path.join(copy, 'replay', cid + '-*.json'))):
                try:
                    r = json.load(open(f))
                except Exception:
                    continue
                if 'signature' in r:
                    sigs.add(r['signature'])
                for b in r.get('no_longer_checks', []) or r.get('broken_obligations', []) or []:
                    broken.append(str(b)[:300])
            verdict = 'quiet' if p.returncode == 0 else ('alarm-with-failing-input' if sigs else 'alarm-no-failing-input-found')
            results[cid] = {'exit': p.returncode, 'verdict': verdict, 'lines': [l[:200] for l in lines[:4]], 'signatures': sorted(sigs)[:8], 'broken_obligations': sorted(set(broken))[:4]}
        return name, ({pid: results[pid], **{k: v for k, v in results.items() if k != pid}} if own_only else results)
    finally:
        sh('git -C /repo worktree remove --force %s' % wt)


def main():
    only = set(sys.argv[1:])
    head = sh('git -C /repo rev-parse --short HEAD').stdout.strip()
    jobs = []
    for out, conf, versions in ROUNDS:
        for pdir in sorted(glob.glob(os.path.join(out, 'C??'))):
            pid = os.path.basename(pdir)
            for v in versions:
                name = '%s-%s' % (pid, v)
                src = os.path.join(pdir, v)
                if only and name not in only:
                    continue
                if not os.path.exists(os.path.join(src, 'patch.diff')) or not os.path.exists(os.path.join(src, 'meta.json')):
                    continue
                note = NOTES.get(name, {})
                dst = os.path.join(VERIF, 'seeded', name)
                if 'dropped' in note:
                    os.makedirs(dst, exist_ok=True)
                    meta = json.load(open(os.path.join(src, 'meta.json')))
                    meta.update(note)
                    json.dump(meta, open(os.path.join(dst, 'meta.json'), 'w'), indent=1)
                    shutil.copy(os.path.join(src, 'patch.diff'), os.path.join(dst, 'patch.diff'))
                    shutil.copy(os.path.join(src, 'demo.py'), os.path.join(dst, 'demo.py'))
                    json.dump({'not_run': note['dropped']}, open(os.path.join(dst, 'results.json'), 'w'), indent=1)
                    continue
                log = os.path.join(conf, name + '.log')
                txt = open(log).read() if os.path.exists(log) else ''
                if 'rebased_onto' in note:
                    rl = os.path.join(note.get('rebased_confirm', '/root/seedtools/confirm3'), name + '.log')
                    txt = open(rl).read() if os.path.exists(rl) else ''
                if not ('ALL STABLE TESTS PASS' in txt or 'BROKEN TESTS' in txt):
                    print(name, 'confirmation not finished')
                    continue
                ok = 'clean_rc=0' in txt and 'applied=yes' in txt and 'patched_rc=1' in txt and 'ALL STABLE TESTS PASS' in txt
                os.makedirs(dst, exist_ok=True)
                psrc = os.path.join(REBASED, name) if 'rebased_onto' in note else src
                shutil.copy(os.path.join(psrc, 'patch.diff'), os.path.join(dst, 'patch.diff'))
                shutil.copy(os.path.join(src, 'demo.py'), os.path.join(dst, 'demo.py'))
                meta = json.load(open(os.path.join(src, 'meta.json')))
                meta['property'] = pid
                meta.update(note)
                meta['confirmed_by_me'] = {'what_i_ran': 'in a scratch worktree of /repo (HEAD incl. the fix: commits at that time): demo.py without the patch (exit 0), `git apply patch.diff`, demo.py with the patch (exit 1), '
                                           'then the full pinned test suite with the patch applied (/root/seedtools/run_tests.sh: every one of the 6212 tests that pass on the unchanged tree still passes)',
                                           'confirmation_log_tail': txt[-1200:], 'confirmed': ok, 'checks_evaluated_against_repo_head': head}
                try:
                    prev = json.load(open(os.path.join(dst, 'meta.json'))).get('confirmed_by_me', {}).get('demo_exit_on_current_head')
                except Exception:   # noqa
                    prev = None
                if prev:
                    meta['confirmed_by_me']['demo_exit_on_current_head'] = prev
                json.dump(meta, open(os.path.join(dst, 'meta.json'), 'w'), indent=1)
                if not ok:
                    json.dump({'not_run': 'not confirmed (see meta.json): kept for the record only'}, open(os.path.join(dst, 'results.json'), 'w'), indent=1)
                    print(name, 'NOT CONFIRMED')
                    continue
                jobs.append(name)
    if os.environ.get('SEED_ONLY_NEW'):
        jobs = [j for j in jobs if not os.path.exists(os.path.join(VERIF, 'seeded', j, 'results.json')) or 'not_run' in open(os.path.join(VERIF, 'seeded', j, 'results.json')).read()]
    print('evaluating', len(jobs), 'seeds')

    def run(ix_name):
        ix, name = ix_name
        dst = os.path.join(VERIF, 'seeded', name)
        try:
            nm, res = evaluate((name, dst, ix % 3))
        except Exception as e:   # noqa
            nm, res = name, {'not_run': 'evaluation failed: %r' % e}
        json.dump(res, open(os.path.join(dst, 'results.json'), 'w'), indent=1)
        print(nm, {k: (v.get('verdict') if isinstance(v, dict) else v) for k, v in res.items()}, flush=True)
    # three scratch copies: a slot is used by one evaluation at a time
    slots = [[], [], []]
    for i, nme in enumerate(jobs):
        slots[i % 3].append((i, nme))
    with ThreadPoolExecutor(3) as ex:
        list(ex.map(lambda lst: [run(x) for x in lst], slots))


if __name__ == '__main__':
    main()
