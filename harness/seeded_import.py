#!/venv/bin/python
"""seeded_import.py: copy every seed whose confirmation log is complete into /verif/seeded/<ID>-<v>/ (patch.diff, demo.py,
meta.json extended with what the confirmation ran and saw) and run the checks against it (seeded_run.py)."""
import os, sys, json, re, shutil, subprocess, glob
VERIF = os.path.dirname(os.path.dirname(os.path.abspath(__file__)))
CONF = '/root/seedtools/confirm'
EXTRA = {'C01': ['C05', 'C03'], 'C02': ['C08'], 'C03': ['C08'], 'C04': ['C03'], 'C06': ['C03'], 'C08': ['C02', 'C05', 'C03'], 'C09': [], 'C10': [], 'C11': ['C13'], 'C12': [], 'C13': ['C11'],
         'C14': ['C13'], 'C15': ['C13'], 'C16': ['C13'], 'C17': [], 'C05': ['C01'], 'C07': ['C12']}
for log in sorted(glob.glob(os.path.join(CONF, '*.log'))):
    name = os.path.basename(log)[:-4]
    pid, v = name.split('-')
    dst = os.path.join(VERIF, 'seeded', name)
    if os.path.exists(os.path.join(dst, 'results.json')):
        continue
    txt = open(log).read()
    ok = 'clean_rc=0' in txt and 'applied=yes' in txt and 'patched_rc=1' in txt and 'ALL STABLE TESTS PASS' in txt
    if not ('ALL STABLE TESTS PASS' in txt or 'BROKEN TESTS' in txt):
        continue      # confirmation still running
    src = '/tmp/seed/out/%s/%s' % (pid, v)
    os.makedirs(dst, exist_ok=True)
    for f in ('patch.diff', 'demo.py'):
        shutil.copy(os.path.join(src, f), os.path.join(dst, f))
    meta = json.load(open(os.path.join(dst, 'meta.json'))) if os.path.exists(os.path.join(dst, 'meta.json')) else json.load(open(os.path.join(src, 'meta.json')))
    meta['property'] = pid
    meta['confirmed_by_me'] = {'base_commit': subprocess.run('git -C /repo rev-parse --short HEAD', shell=True, stdout=subprocess.PIPE, text=True).stdout.strip(),
                               'what_i_ran': 'scratch worktree of /repo HEAD: demo.py without the patch (exit 0), `git apply patch.diff`, demo.py with the patch (exit 1), the full pinned test suite with the patch (all 6212 stable tests pass)',
                               'confirmation_log': txt[-1500:], 'confirmed': ok}
    json.dump(meta, open(os.path.join(dst, 'meta.json'), 'w'), indent=1)
    if not ok:
        json.dump({'not_run': 'confirmation failed: see meta.json'}, open(os.path.join(dst, 'results.json'), 'w'))
        print(name, 'NOT CONFIRMED')
        continue
    # the fixes committed to /repo since the seed was written may have neutralised it: re-run the demo on the current HEAD
    wt = '/var/tmp/seedchk-' + name
    subprocess.run('git -C /repo worktree remove --force %s; git -C /repo worktree add -q %s HEAD' % (wt, wt), shell=True, stdout=subprocess.DEVNULL, stderr=subprocess.DEVNULL)
    revert = meta.get('requires_reverting')
    if revert:
        subprocess.run('git -C %s diff %s %s~1 | git -C %s apply' % (wt, revert, revert, wt), shell=True)
    ap = subprocess.run('git -C %s apply %s' % (wt, os.path.join(dst, 'patch.diff')), shell=True)
    demo = subprocess.run('PYTHONPATH=%s/src timeout 900 /venv/bin/python %s' % (wt, os.path.join(dst, 'demo.py')), shell=True, stdout=subprocess.DEVNULL, stderr=subprocess.DEVNULL)
    subprocess.run('git -C /repo worktree remove --force %s' % wt, shell=True, stdout=subprocess.DEVNULL, stderr=subprocess.DEVNULL)
    meta['confirmed_by_me']['demo_exit_on_current_head_with_patch'] = demo.returncode
    json.dump(meta, open(os.path.join(dst, 'meta.json'), 'w'), indent=1)
    if ap.returncode != 0 or demo.returncode != 1:
        json.dump({'not_run': 'on the current /repo HEAD (with the fix: commits) the patch %s and the demo exits %d: the seed no longer breaks the property' % ('applies' if ap.returncode == 0 else 'does not apply', demo.returncode)}, open(os.path.join(dst, 'results.json'), 'w'))
        print(name, 'NEUTRALISED (demo exit %d, apply %d)' % (demo.returncode, ap.returncode))
        continue
    print('==', name)
    subprocess.run([os.path.join(VERIF, 'harness', 'seeded_run.py'), dst] + EXTRA.get(pid, []), env=dict(os.environ, SEED_REVERT=revert or ''))
