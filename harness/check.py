#!/venv/bin/python
"""check.py <property id> <quick|thorough>   -- the command registered in MANIFEST.json for every property."""
import sys, os, importlib
sys.path.insert(0, os.path.dirname(os.path.dirname(os.path.abspath(__file__))))
from harness import common

MODULES = {
    'C13': 'cli_props', 'C14': 'cli_props', 'C15': 'cli_props', 'C16': 'c16', 'C12': 'c12', 'C07': 'c07', 'C05': 'c05', 'C02': 'c02', 'C08': 'c08', 'C17': 'c17', 'C01': 'c01', 'C03': 'scope_props', 'C04': 'scope_props', 'C06': 'scope_props', 'C09': 'scope_props', 'C10': 'scope_props', 'C11': 'scope_props',
}


def main():
    if len(sys.argv) < 2:
        print('usage: check.py <ID> [quick|thorough]')
        return 2
    pid = sys.argv[1]
    tier = sys.argv[2] if len(sys.argv) > 2 else os.environ.get('VERIF_TIER', 'quick')
    if tier not in ('quick', 'thorough'):
        tier = 'quick'
    mod = importlib.import_module('harness.props.' + MODULES[pid])
    return mod.run(pid, tier)


if __name__ == '__main__':
    sys.exit(main())
