"""Reference resolver for Python's scoping rules (the SPECIFICATION side of C03/C04/C06/C09/C10), written from the
language reference, and an alpha-equivalence comparison of a source tree with its minified tree.

resolve: every identifier occurrence -> binding identity
   ('local', scope_id, name)    bound in a function/lambda/comprehension scope (incl. through nonlocal / free variable lookup)
   ('module', name)             bound at module level (also through `global`)
   ('class', scope_id, name)    bound in a class body (an attribute of the class; loads there are dynamic: class dict, then globals)
   ('free', name)               not bound anywhere visible: builtin or unresolved global
The resolver is cross-checked against CPython's `symtable` module (same_as_symtable)."""
import ast, symtable, collections


class Scope:
    def __init__(self, kind, node, parent, sid):
        self.kind, self.node, self.parent, self.id = kind, node, parent, sid
        self.bound, self.globals, self.nonlocals = set(), set(), set()
        self.children = []
        self.uses = set()
        self.aug = set()         # names that are the target of an augmented assignment directly in this scope

    def functionlike(self):
        return self.kind in ('function', 'lambda', 'comp')


class Resolver:
    def __init__(self, tree):
        self.tree = tree
        self.scopes = []
        self.occ = []            # (node, field, index, name, scope, ctx) in traversal order
        self.root = self.new_scope('module', tree, None)
        self.visit_body(tree.body, self.root)
        # a name declared global in a scope and bound there is bound at module level
        for sc in self.scopes:
            for name in sc.globals & sc.bound:
                self.root.bound.add(name)

    def new_scope(self, kind, node, parent):
        s = Scope(kind, node, parent, len(self.scopes))
        self.scopes.append(s)
        if parent:
            parent.children.append(s)
        return s

    # ---- occurrence recording
    def add(self, node, field, idx, name, scope, ctx):
        self.occ.append((node, field, idx, name, scope, ctx))
        if ctx in ('store', 'del', 'def', 'param', 'import', 'except', 'match'):
            scope.bound.add(name)
        elif ctx == 'global':
            scope.globals.add(name)
        elif ctx == 'nonlocal':
            scope.nonlocals.add(name)
        else:
            scope.uses.add(name)

    def visit_body(self, body, scope):
        for st in body:
            self.visit(st, scope)

    def walrus_scope(self, scope):
        while scope.kind == 'comp':
            scope = scope.parent
        return scope

    def visit_args(self, args, outer, inner):
        for a in args.posonlyargs + args.args + args.kwonlyargs:
            if a.annotation is not None:
                self.visit(a.annotation, outer)
        for a in (args.vararg, args.kwarg):
            if a is not None and a.annotation is not None:
                self.visit(a.annotation, outer)
        for d in args.defaults + [k for k in args.kw_defaults if k is not None]:
            self.visit(d, outer)
        for a in args.posonlyargs + args.args:
            self.add(a, 'arg', None, a.arg, inner, 'param')
        if args.vararg:
            self.add(args.vararg, 'arg', None, args.vararg.arg, inner, 'param')
        for a in args.kwonlyargs:
            self.add(a, 'arg', None, a.arg, inner, 'param')
        if args.kwarg:
            self.add(args.kwarg, 'arg', None, args.kwarg.arg, inner, 'param')

    def visit(self, n, scope):
        if n is None:
            return
        if isinstance(n, list):
            for x in n:
                self.visit(x, scope)
            return
        if isinstance(n, (ast.FunctionDef, ast.AsyncFunctionDef)):
            for d in n.decorator_list:
                self.visit(d, scope)
            self.add(n, 'name', None, n.name, scope, 'def')
            inner = self.new_scope('function', n, scope)
            self.visit_args(n.args, scope, inner)
            if n.returns is not None:
                self.visit(n.returns, scope)
            self.visit_body(n.body, inner)
            return
        if isinstance(n, ast.Lambda):
            inner = self.new_scope('lambda', n, scope)
            self.visit_args(n.args, scope, inner)
            self.visit(n.body, inner)
            return
        if isinstance(n, ast.ClassDef):
            for d in n.decorator_list:
                self.visit(d, scope)
            for b in n.bases:
                self.visit(b, scope)
            for k in n.keywords:
                self.visit(k.value, scope)
            self.add(n, 'name', None, n.name, scope, 'def')
            inner = self.new_scope('class', n, scope)
            self.visit_body(n.body, inner)
            return
        if isinstance(n, (ast.ListComp, ast.SetComp, ast.GeneratorExp, ast.DictComp)):
            inner = self.new_scope('comp', n, scope)
            first = True
            for g in n.generators:
                self.visit(g.iter, scope if first else inner)
                self.visit(g.target, inner)
                for i in g.ifs:
                    self.visit(i, inner)
                first = False
            if isinstance(n, ast.DictComp):
                self.visit(n.key, inner)
                self.visit(n.value, inner)
            else:
                self.visit(n.elt, inner)
            return
        if isinstance(n, ast.NamedExpr):
            self.visit(n.value, scope)
            tgt = self.walrus_scope(scope)
            self.add(n.target, 'id', None, n.target.id, tgt, 'store')
            return
        if isinstance(n, ast.Name):
            ctx = {ast.Load: 'load', ast.Store: 'store', ast.Del: 'del'}[type(n.ctx)]
            self.add(n, 'id', None, n.id, scope, ctx)
            return
        if isinstance(n, ast.Global):
            for i, name in enumerate(n.names):
                self.add(n, 'names', i, name, scope, 'global')
            return
        if isinstance(n, ast.Nonlocal):
            for i, name in enumerate(n.names):
                self.add(n, 'names', i, name, scope, 'nonlocal')
            return
        if isinstance(n, (ast.Import, ast.ImportFrom)):
            for a in n.names:
                if a.name == '*':
                    continue
                bound = a.asname if a.asname else a.name.split('.')[0]
                self.add(a, 'alias', None, bound, scope, 'import')
            return
        if isinstance(n, ast.ExceptHandler):
            self.visit(n.type, scope)
            if n.name:
                self.add(n, 'name', None, n.name, scope, 'except')
            self.visit_body(n.body, scope)
            return
        if isinstance(n, (ast.MatchAs, ast.MatchStar)):
            if isinstance(n, ast.MatchAs) and n.pattern is not None:
                self.visit(n.pattern, scope)
            if n.name:
                self.add(n, 'name', None, n.name, scope, 'match')
            return
        if isinstance(n, ast.MatchMapping):
            for k in n.keys:
                self.visit(k, scope)
            for p in n.patterns:
                self.visit(p, scope)
            if n.rest:
                self.add(n, 'rest', None, n.rest, scope, 'match')
            return
        if isinstance(n, ast.AugAssign):
            # target is read and written; evaluation order: target (load), value, store
            if isinstance(n.target, ast.Name):
                scope.aug.add(n.target.id)
            self.visit(n.target, scope)
            self.visit(n.value, scope)
            return
        for _f, v in ast.iter_fields(n):
            if isinstance(v, ast.AST):
                self.visit(v, scope)
            elif isinstance(v, list):
                for x in v:
                    if isinstance(x, ast.AST):
                        self.visit(x, scope)

    # ---- resolution
    def resolve(self, scope, name):
        s = scope
        if s.kind == 'class':
            if name in s.globals:
                return ('module', name) if name in self.root.bound else ('free', name)
            if name in s.nonlocals:
                return self.free_lookup(s.parent, name)
            if name in s.bound:
                return ('class', s.id, name)
            return self.free_lookup(s.parent, name)
        if s.kind == 'module':
            return ('module', name) if name in s.bound else ('free', name)
        if name in s.globals:
            return ('module', name) if name in self.root.bound else ('free', name)
        if name in s.nonlocals:
            return self.free_lookup(s.parent, name)
        if name in s.bound:
            return ('local', s.id, name)
        return self.free_lookup(s.parent, name)

    def free_lookup(self, s, name):
        while s is not None:
            if s.kind == 'module':
                return ('module', name) if name in s.bound else ('free', name)
            if s.functionlike():
                if name in s.globals:
                    return ('module', name) if name in self.root.bound else ('free', name)
                if name in s.bound and name not in s.nonlocals:
                    return ('local', s.id, name)
            s = s.parent
        return ('free', name)

    def identities(self):
        return [self.resolve(sc, name) for (_n, _f, _i, name, sc, _c) in self.occ]

    def class_fallbacks(self):
        """occurrence key -> identity the interpreter falls back to when a class-body load of a class-bound name
        does not find it in the class dict (LOAD_NAME: class dict, then globals, then builtins)"""
        out = {}
        for (n, f, i, name, sc, c) in self.occ:
            if sc.kind == 'class' and c == 'load' and name in sc.bound and name not in sc.globals and name not in sc.nonlocals:
                out[(id(n), f, i)] = ('module', name) if name in self.root.bound else ('free', name)
        return out


def same_as_symtable(src):
    """cross-check the resolver's per-scope classification with CPython's symtable; returns list of disagreements"""
    try:
        tree = ast.parse(src)
        top = symtable.symtable(src, '<s>', 'exec')
    except Exception:
        return []
    r = Resolver(tree)
    diffs = []
    # match scopes by (kind, name, lineno) multiset order
    def st_children(t):
        return [c for c in t.get_children() if c.get_type() in ('function', 'class')]

    def name_of(s):
        n = s.node
        if s.kind == 'lambda':
            return 'lambda'
        if s.kind == 'comp':
            return {ast.ListComp: 'listcomp', ast.SetComp: 'setcomp', ast.DictComp: 'dictcomp', ast.GeneratorExp: 'genexpr'}[type(n)]
        return getattr(n, 'name', 'top')

    def walk(s, t):
        for name in s.bound | s.uses | s.globals | s.nonlocals:
            if name in ('__class__', '__classdict__'):
                continue      # implicit closure cells created by the compiler
            try:
                sym = t.lookup(name)
            except KeyError:
                continue
            ident = r.resolve(s, name)
            if s.kind in ('function', 'lambda', 'comp'):
                if ident[0] == 'local' and ident[1] == s.id:
                    ok = sym.is_local() and not sym.is_global()
                elif ident[0] == 'local':
                    ok = sym.is_free()
                elif ident[0] in ('module', 'free'):
                    ok = sym.is_global()
                else:
                    ok = True
                if not ok:
                    diffs.append((name_of(s), getattr(s.node, 'lineno', 0), name, ident[0], 'local=%s free=%s global=%s' % (sym.is_local(), sym.is_free(), sym.is_global())))
        mine = collections.defaultdict(list)
        for c in s.children:
            mine[(name_of(c), getattr(c.node, 'lineno', 0))].append(c)
        theirs = collections.defaultdict(list)
        for c in st_children(t):
            theirs[(c.get_name(), c.get_lineno())].append(c)
        for k, lst in mine.items():
            tl = theirs.get(k, [])
            if len(tl) == len(lst) == 1:      # several same-named scopes on one line cannot be matched reliably
                for a, b in zip(lst, tl):
                    walk(a, b)
    walk(r.root, top)
    return diffs


# ------------------------------------------------------------------------------------------------ alpha equivalence
class Mismatch(Exception):
    def __init__(self, kind, detail):
        Exception.__init__(self, kind + ': ' + detail)
        self.kind = kind
        self.detail = detail


IDENT_FIELDS = {ast.Name: ['id'], ast.FunctionDef: ['name'], ast.AsyncFunctionDef: ['name'], ast.ClassDef: ['name'], ast.arg: ['arg'], ast.ExceptHandler: ['name'],
                ast.MatchAs: ['name'], ast.MatchStar: ['name'], ast.MatchMapping: ['rest'], ast.Global: ['names'], ast.Nonlocal: ['names']}


def prefix_len(body):
    """statements after which util.insert places a new node: docstring-position string statements and __future__ imports"""
    k = 0
    for st in body:
        if (isinstance(st, ast.ImportFrom) and st.module == '__future__') or (isinstance(st, ast.Expr) and isinstance(st.value, ast.Constant) and isinstance(st.value.value, str)):
            k += 1
        else:
            break
    return k


def const_key(c):
    v = c.value
    return (type(v).__name__, repr(v))


def compare(ptree, qtree):
    """raises Mismatch unless qtree is ptree up to a consistent injective renaming of bindings, inserted alias assignments
    (`new = parameter`, `new = builtin`, `new = literal`) at the start of function/module bodies, and literal -> alias name"""
    P, Q = Resolver(ptree), Resolver(qtree)
    pid = {(id(n), f, i): ident for (n, f, i, _nm, _s, _c), ident in zip(P.occ, P.identities())}
    qid = {(id(n), f, i): ident for (n, f, i, _nm, _s, _c), ident in zip(Q.occ, Q.identities())}
    qname = {(id(n), f, i): nm for (n, f, i, nm, _s, _c) in Q.occ}
    pname = {(id(n), f, i): nm for (n, f, i, nm, _s, _c) in P.occ}
    fwd, bwd = {}, {}
    alias_of = {}       # identity in Q -> identity in Q (parameter / builtin) it aliases
    alias_const = {}    # identity in Q -> constant key
    inserted = []
    alias_uses = collections.Counter()

    def canon_q(ident):
        seen = set()
        while ident in alias_of and ident not in seen:
            seen.add(ident)
            ident = alias_of[ident]
        return ident

    pfb, qfb = P.class_fallbacks(), Q.class_fallbacks()

    def pair(pk, qk):
        if pk in pfb or qk in qfb:
            fa, fb = pfb.get(pk), qfb.get(qk)
            if fa != fb:
                raise Mismatch('class-body-fallback-changed', 'a class-body load of %r falls back to %r in the source but to %r in the output' % (pname[pk], fa, fb))
        a, b = pid[pk], canon_q(qid[qk])
        if a[0] == 'free' or b[0] == 'free':
            if a != b:
                raise Mismatch('free-name-changed', 'unbound/builtin name %r became %r' % (pname[pk], qname[qk]))
            return
        if a[0] == 'class' or b[0] == 'class':
            if a[0] != b[0] or a[2] != b[2]:
                raise Mismatch('class-attribute-changed', '%r -> %r' % (a, b))
        if fwd.setdefault(a, b) != b:
            raise Mismatch('binding-split', 'occurrences of one binding %r now refer to different bindings %r and %r' % (a, fwd[a], b))
        if bwd.setdefault(b, a) != a:
            raise Mismatch('bindings-merged', 'distinct bindings %r and %r now refer to the same binding %r' % (bwd[b], a, b))

    no_hoist = [0]

    def walk(p, q):
        if isinstance(p, ast.Expr) and isinstance(p.value, ast.Constant) and not isinstance(q.value if isinstance(q, ast.Expr) else None, ast.Constant):
            raise Mismatch('literal-statement-replaced', 'a literal statement (docstring position) was replaced')
        if isinstance(p, ast.Assign) and any(isinstance(t_, ast.Name) and t_.id == '__slots__' for t_ in p.targets):
            no_hoist[0] += 1
            try:
                return walk_inner(p, q)
            finally:
                no_hoist[0] -= 1
        return walk_inner(p, q)

    def walk_inner(p, q):
        if isinstance(p, ast.Constant) and isinstance(q, ast.Name) and isinstance(q.ctx, ast.Load):
            if no_hoist[0]:
                raise Mismatch('literal-replaced-in-slots', 'a literal inside a __slots__ assignment was replaced by the name %r' % q.id)
            ident = qid[(id(q), 'id', None)]
            if alias_const.get(ident) != const_key(p):
                raise Mismatch('literal-replaced-by-wrong-name', 'literal %r replaced by name %r which is not an alias of an identical constant' % (p.value, q.id))
            alias_uses[ident] += 1
            return
        if type(p) is not type(q):
            raise Mismatch('structure', '%s vs %s' % (type(p).__name__, type(q).__name__))
        if isinstance(p, ast.alias):
            if p.name != q.name:
                raise Mismatch('import-name-changed', '%r -> %r' % (p.name, q.name))
            if p.name != '*':
                pair((id(p), 'alias', None), (id(q), 'alias', None))
            return
        for f in IDENT_FIELDS.get(type(p), []):
            pv, qv = getattr(p, f), getattr(q, f)
            if isinstance(pv, list):
                if len(pv) != len(qv):
                    raise Mismatch('structure', 'global/nonlocal name count')
                for i in range(len(pv)):
                    pair((id(p), f, i), (id(q), f, i))
            elif pv is None or qv is None:
                if pv != qv:
                    raise Mismatch('structure', 'optional name %r vs %r' % (pv, qv))
            else:
                pair((id(p), f, None), (id(q), f, None))
        for f, pv in ast.iter_fields(p):
            if f in IDENT_FIELDS.get(type(p), []) or f in ('ctx', 'lineno', 'col_offset', 'end_lineno', 'end_col_offset', 'kind', 'type_comment'):
                continue
            qv = getattr(q, f)
            if isinstance(pv, list):
                if f in ('body',) and pv and isinstance(pv[0], ast.stmt) and isinstance(p, (ast.Module, ast.FunctionDef, ast.AsyncFunctionDef)) and len(qv) > len(pv):
                    qv = strip_inserted(p, q, pv, qv)
                if len(pv) != len(qv):
                    raise Mismatch('structure', '%s.%s has %d vs %d elements' % (type(p).__name__, f, len(pv), len(qv)))
                for a, b in zip(pv, qv):
                    if isinstance(a, ast.AST):
                        walk(a, b)
                    elif a != b:
                        raise Mismatch('structure', '%s.%s' % (type(p).__name__, f))
            elif isinstance(pv, ast.AST):
                if not isinstance(qv, ast.AST):
                    raise Mismatch('structure', '%s.%s missing' % (type(p).__name__, f))
                walk(pv, qv)
            else:
                if isinstance(p, ast.Constant) and f == 'value':
                    if const_key(p) != const_key(q):
                        raise Mismatch('constant-changed', '%r -> %r' % (p.value, q.value))
                elif pv != qv:
                    raise Mismatch('non-variable-identifier-changed', '%s.%s: %r -> %r' % (type(p).__name__, f, pv, qv))

    def strip_inserted(p, q, pbody, qbody):
        m = len(qbody) - len(pbody)
        k = prefix_len(qbody)
        if prefix_len(pbody) != k:
            raise Mismatch('prefix-changed', 'docstring / __future__ prefix of a body changed')
        extra = qbody[k:k + m]
        params = set()
        if not isinstance(p, ast.Module):
            a = q.args
            params = {x.arg for x in a.posonlyargs + a.args + a.kwonlyargs + [y for y in (a.vararg, a.kwarg) if y]}
        for st in extra:
            if not (isinstance(st, ast.Assign) and len(st.targets) == 1 and isinstance(st.targets[0], ast.Name)):
                raise Mismatch('inserted-statement-shape', ast.dump(st)[:80])
            tid = qid[(id(st.targets[0]), 'id', None)]
            if isinstance(st.value, ast.Name):
                vid = qid[(id(st.value), 'id', None)]
                if isinstance(p, ast.Module):
                    if vid[0] != 'free':
                        raise Mismatch('inserted-alias-of-non-builtin', '%s = %s at module level' % (st.targets[0].id, st.value.id))
                elif st.value.id not in params or vid[0] != 'local':
                    raise Mismatch('inserted-alias-of-non-parameter', '%s = %s' % (st.targets[0].id, st.value.id))
                if tid in alias_of or tid in alias_const:
                    raise Mismatch('alias-assigned-twice', st.targets[0].id)
                alias_of[tid] = vid
            elif isinstance(st.value, ast.Constant):
                if tid in alias_of or tid in alias_const:
                    raise Mismatch('alias-assigned-twice', st.targets[0].id)
                alias_const[tid] = const_key(st.value)
            else:
                raise Mismatch('inserted-statement-shape', ast.dump(st)[:80])
            inserted.append((q, st, tid))
        return qbody[:k] + qbody[k + m:]

    # aliases must be known before their uses are walked: pre-scan Q for inserted statements is implicit in the
    # traversal order (bodies are stripped when their owner is entered, uses are inside)
    walk(ptree, qtree)
    # every alias is stored exactly once (the inserted assignment) and never deleted
    stores = collections.Counter()
    for (n, f, i, nm, sc, c), ident in zip(Q.occ, Q.identities()):
        if c in ('store', 'del', 'def', 'param', 'import', 'except', 'match') and (ident in alias_const or (ident in alias_of and alias_of[ident][0] == 'free')):
            stores[ident] += 1
    for ident, cnt in stores.items():
        if cnt != 1:
            raise Mismatch('alias-rebound', 'introduced name %r is bound %d times' % (ident, cnt))
    return {'bindings': len(fwd), 'inserted': len(inserted), 'literal_uses': sum(alias_uses.values()), 'map': fwd, 'alias_const': dict(alias_const), 'alias_of': dict(alias_of)}
