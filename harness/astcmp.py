"""Strict AST comparison: structure, identifiers and constants by type, value and sign; positions and `kind` ignored."""
import ast


def _norm(node):
    for n in ast.walk(node):
        if isinstance(n, ast.Constant) and hasattr(n, 'kind'):
            n.kind = None
    return node


def dump(tree):
    return ast.dump(_norm(tree), annotate_fields=True, include_attributes=False)


def strict_eq(a, b):
    return dump(a) == dump(b)


def parse(src, name='<verif>'):
    return ast.parse(src, name)
