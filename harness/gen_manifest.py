#!/venv/bin/python
"""(re)write /verif/MANIFEST.json from the table below; run by hand when a property is added."""
import json, os
VERIF = os.path.dirname(os.path.dirname(os.path.abspath(__file__)))
CLAIMS = {}


def chk(pid, text, note, tech, ref, category='proof'):
    CLAIMS[pid] = {"property_id": pid, "quick_cmd": "/venv/bin/python harness/check.py %s quick" % pid,
                   "thorough_cmd": "/venv/bin/python harness/check.py %s thorough" % pid,
                   "evidence_file": "/verif/evidence/%s.json" % pid, "replay_cmd_template": "cat {path}", "engine": "coq-proof",
                   "level_claimed": {"category": category, "text": text, "design_ref": ref}, "level_note": note, "technique": tech}


chk("C13", "Theorems C13_kwargs, C13_own_option_only, C13_every_option_forwarded, C13_preserve_split/_repeated, C13_invalid_rejected, C13_bytes_file/_stdin proved in Coq for all flag subsets, all preserve-list spellings, any api and any source, about a model of __main__.py that is regenerated from the source by a fail-closed translator on every run; the regenerated model is additionally executed (vm_compute) against the real tool.",
    "Trusted: Coq kernel; translator/cli.py; the hand-written meanings of Python primitives (Model/CliBase.v) and of the flags (Proofs/CliSpec.v); argparse semantics modelled, not verified. All theorems closed under the global context.",
    "Coq proof over translator-regenerated shallow model + vm_compute correspondence with the real CLI", "DESIGN.md 5.13")
chk("C14", "C14_never_larger (every byte string emitted on all five routes is no longer than the source it derives from, and is the source itself when minification would grow it), C14_in_place_growing_untouched, C14_override_only proved for any api/file system/arguments over the regenerated model of do_minify/main.",
    "Same trusted base as C13; short writes/ENOSPC unmodelled; utf8 modelled as a total encoder.",
    "Coq proof over translator-regenerated shallow model + vm_compute correspondence with the real CLI", "DESIGN.md 5.14")
chk("C15", "C15_targets, C15_selected_files, C15_content_in_place, C15_failure_prefix, C15_walk_error_prefix, C15_order proved over the effect model of main/source_modules regenerated from the source: any finite tree, any failure position, any api.",
    "Same trusted base as C13; crash atomicity of truncate-then-write, symlink cycles and concurrent modification of the tree are not modelled (named in DESIGN.md 5.15).",
    "Coq proof over translator-regenerated effect model + vm_compute correspondence with the real CLI on generated trees", "DESIGN.md 5.15")

chk("C05", "For the four suite-filtering transformers (pass, literal statements, asserts, __debug__ blocks) and any program skeleton: output and input are equal once the documented rewrite is erased from both at every depth (C05_remove_pass/_literal_statements/_asserts/_debug, generic C05_suite_filter_generic), asserts+debug leave exactly what python -O runs (C05_equals_python_O), an `if` is removed only in the documented forms (C05_debug_only_documented_forms), suites are never left empty, a transformer without targets is the identity, imports are merged without reordering and never across a star import/another module (C05_combine_imports_order), only `object` bases disappear; every transformer is called exactly under its own switch in the statement list of minify() re-read from the source (C05_switch_off_means_not_called / _on_means_called / _stage_order). Partial: RemoveExplicitReturnNone only for simple statements; annotation, exception-bracket and posarg rewrites are decided by the canon_O oracle, not in Coq.",
    "Trusted: Coq kernel; Model/Struct.v transcription (tied by leg T: vm_compute vs each real transformer on generated programs with every statement kind in every suite position); translator/pipeline.py; the AST->skeleton abstraction; the second implementation of canon_O in the harness. Three genuine defects found and fixed (D1-D3).",
    "Coq proof over statement skeletons + translator-extracted gates + vm_compute correspondence per transformer + canon_O differential oracle", "DESIGN.md 5.5")
chk("C07", "C07_fold_preserves_eval: for every expression tree (any depth, any context) and every printer/interpreter satisfying the stated premises, evaluating the folded tree gives identically the same value (type, value, sign of zero, infinities) or raises exactly when the original does; C07_one_step; C07_no_nan_literal, C07_shorter_or_untouched, C07_div_pow_never_folded, C07_only_constant_operands hold for ANY oracles. The proof turns the code's `==`/type check into identity through the repr-sign device (the candidate is an unsigned literal, or its negation).",
    "Proof relative to premises HL/HE/HEv/HRc (what a re-parsing Num candidate evaluates to) and compositionality of evaluation, all sampled against CPython on every run; Model/Fold.v is a hand transcription tied to the code by leg F (vm_compute with table oracles recorded from the real run). Exceptions identified up to 'raises' in the theorem. Context-dependent length (parenthesisation) is covered by the oracle only.",
    "Coq proof over an oracle-parametric model of visit_BinOp + vm_compute correspondence (decisions and literals) + eval differential oracle", "DESIGN.md 5.7")
chk("C12", "C12_ministring_closed_short/_long: for every string, both modes and both quote characters, the text MiniString passes to eval() is scanned by a reference string-literal scanner as exactly one literal (proved by induction over the string); C12_eval_sites_are_the_reviewed_ones and C12_fold_operands_are_constants: the list of eval/import/open/process call sites and the operand guard of the folding eval, re-read from the source on every run, are exactly the reviewed ones. Partial: the quote selection of f_string.Str/Bytes is not modelled in Coq; every eval during minify() is instead monitored through an audit hook and classified with CPython's tokenizer.",
    "Trusted: Coq kernel; Model/MiniString.v transcription (tied by vm_compute correspondence with ministring.py); the reference scanner; translator/evalsites.py; sys.addaudithook monitor. Genuine defect found and fixed (non-finite complex results evaluated the names inf/nan).",
    "Coq proof (induction over strings) + translator-extracted eval-site list + audit-hook monitored correspondence", "DESIGN.md 5.12")
chk("C16", "C16_bytes_text_agree (for every text, the bytes-level shebang match on its UTF-8 encoding is the encoding of the text-level match), C16_first_line / C16_output (the re-attached line is exactly the first physical line, ending at the first \\n or \\r; absent when preservation is off), C16_epilogue_position, C16_utf8_output: proved for all strings over the two regular expressions and the statement list that the translator re-reads from __init__.py on every run. Partial: decoding of the source (cookies, BOM) and repr of strings are CPython's and are covered by the differential oracle over encodings x newline conventions x shebang spellings only.",
    "Trusted: Coq kernel; translator/pipeline.py (regex subset, statement classifier); Model/PipelineBase.v regex semantics (validated against re.match on every run by vm_compute cases); the specification first_line. Known finding: non-UTF-8 bytes in the shebang line (KNOWN_FINDINGS.txt).",
    "Coq proof over translator-extracted regexes/pipeline + vm_compute correspondence with _find_shebang + encoding/newline differential oracle", "DESIGN.md 5.16")

ALL = ['C%02d' % i for i in range(1, 18)]
m = {"version": 1, "setup_cmd": "/venv/bin/python harness/setup.py",
     "hooks": {"guard": "PYTHON_MINIFIER_VERIF",
               "enable": "no hooks are needed: the harness imports the package from /repo/src and runs `python -m python_minifier` with PYTHONPATH=/repo/src",
               "baseline_off_cmd": "cd /repo && /venv/bin/python -m pytest -ra -q -p no:cacheprovider --timeout=900 --continue-on-collection-errors",
               "source_commits": [], "add_only": True},
     "engines": [{"name": "coq-proof", "path": "/verif/coq", "serves_properties": sorted(CLAIMS),
                  "kind_free_text": "Coq 8.16.1 development (Model/, Gen/ regenerated by translator/, Proofs/, Properties/) + Python harness (harness/) for translator, correspondence legs and implementation-level search"}],
     "checks": [CLAIMS[p] for p in sorted(CLAIMS)],
     "not_applicable": [{"property_id": p, "reason": "check under construction (DESIGN.md section 5.%d); not claimed yet" % int(p[1:])} for p in ALL if p not in CLAIMS],
     "notes": "Every check: translate /repo -> coq/Gen, full .vo build of Properties/<id>.v, Print Assumptions scan, correspondence leg(s), implementation-level oracle, evidence. See DESIGN.md."}
json.dump(m, open(os.path.join(VERIF, 'MANIFEST.json'), 'w'), indent=1)
print('claimed:', sorted(CLAIMS))
