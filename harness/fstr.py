"""Generator of f-string-heavy modules (shared by C02, C08, C12): random JoinedStr trees - literal parts with quotes,
braces, backslashes, newlines and non-ASCII text; replacement fields holding string / bytes constants with every quote
character, nested f-strings, dict/set/lambda/conditional/walrus expressions, conversions, nested format specs, debug
specifiers - rendered to source by CPython's own ast.unparse (so every generated source is valid by construction and
independent of the printer under test)."""
import ast

TEXTS = ['', '\r', '\x00', 'a\rb', 'a', ' ', "'", '"', "'''", '"""', '\'"', '{', '}', '{}', '{{x}}', '\\', '\\n', '\n', '\r\n', '\t', 'café', '中', '\U0001f600', '#', 'x=', 'x = ', 'a:b', '!r', '%s', "it's", 'say "hi"',
         '\\N{DASH}', 'a\\', "'\\", '\\x41', 'end\n', 'f"{x}"', '${v}', ':', '=', ';', '\x7f', '\x1b[0m']
BYTES = [b'', b'\r', b'a\r\nb', b'\x00\xff', b'a', b"'", b'"', b'\'"', b'\\', b'\n', b'{}', b'ab c', b'\t', b"'''", b'#']
NAMES = ['a', 'b', 'value', 'obj']


class Gen:
    def __init__(self, r):
        self.r = r

    def const_str(self):
        r = self.r
        k = r.random()
        if k < 0.6:
            return r.choice(TEXTS)
        return ''.join(r.choice(TEXTS) for _ in range(r.randint(2, 3)))

    def expr(self, d):
        r = self.r
        k = r.random()
        if d <= 0 or k < 0.25:
            return ast.Name(id=r.choice(NAMES), ctx=ast.Load())
        if k < 0.45:
            return ast.Constant(value=self.const_str())
        if k < 0.52:
            return ast.Constant(value=r.choice(BYTES))
        if k < 0.58:
            return ast.Constant(value=r.choice([0, 1, -1, 1.5, 1e22, 2j, None, True, ...]))
        if k < 0.66:
            return self.joined(d - 1)
        if k < 0.72:
            return ast.Dict(keys=[ast.Constant(value=self.const_str())], values=[self.expr(d - 1)])
        if k < 0.76:
            return ast.Set(elts=[self.expr(d - 1)])
        if k < 0.80:
            return ast.Lambda(args=ast.arguments(posonlyargs=[], args=[], kwonlyargs=[], kw_defaults=[], defaults=[]), body=self.expr(d - 1))
        if k < 0.84:
            return ast.IfExp(test=self.expr(d - 1), body=self.expr(d - 1), orelse=self.expr(d - 1))
        if k < 0.88:
            return ast.Subscript(value=ast.Name(id='obj', ctx=ast.Load()), slice=ast.Constant(value=self.const_str()), ctx=ast.Load())
        if k < 0.92:
            return ast.Call(func=ast.Attribute(value=ast.Constant(value=self.const_str()), attr='join', ctx=ast.Load()), args=[self.expr(d - 1)], keywords=[])
        if k < 0.95:
            return ast.BinOp(left=self.expr(d - 1), op=r.choice([ast.Add(), ast.Mod(), ast.Mult()]), right=self.expr(d - 1))
        if k < 0.97:
            return ast.NamedExpr(target=ast.Name(id='w', ctx=ast.Store()), value=self.expr(d - 1))
        if k < 0.985:
            return ast.Compare(left=self.expr(d - 1), ops=[r.choice([ast.NotEq(), ast.Eq(), ast.Lt(), ast.In()])], comparators=[self.expr(d - 1)])
        return ast.Tuple(elts=[self.expr(d - 1), self.expr(d - 1)], ctx=ast.Load())

    def field(self, d):
        r = self.r
        spec = None
        if r.random() < 0.3:
            parts = []
            for _ in range(r.randint(1, 2)):
                if r.random() < 0.5:
                    parts.append(ast.Constant(value=r.choice(['>10', '^', '.2f', 'x', '', ' ', '0>', '=+', ',', '%Y-%m', "'", '"'])))
                else:
                    parts.append(ast.FormattedValue(value=self.expr(min(d - 1, 1)), conversion=-1, format_spec=None))
            spec = ast.JoinedStr(values=parts)
        return ast.FormattedValue(value=self.expr(d), conversion=r.choice([-1, -1, -1, 114, 115, 97]), format_spec=spec)

    def joined(self, d):
        r = self.r
        vals = []
        for _ in range(r.randint(0, 4)):
            if r.random() < 0.45:
                vals.append(ast.Constant(value=self.const_str()))
            else:
                vals.append(self.field(d))
        return ast.JoinedStr(values=vals)


DEBUG = ["f'1.0={1!r}'", "f'True={1!r}'", "f'1={1.0!r}'", "f'0={False!r}'", "f'1={True!r}'", "f'0.0={0!r}'", "f'1={1!r}'", "f'-1={-1.0!r}'", "f'1+1={1+1.0!r}'", "f'{1.0=}{1=}{True=}'", "f'{a=}'", "f'{a = }'", "f'{a=!r}'", "f'{a=:>10}'", "f'{a = !s:^{b}}'", "f'{obj[\"k\"]=}'", "f'''{a=\n}'''", "f'{a+b=}'", "f'{(w:=a)=}'", "f'x={a=}{b=}'", "f'{ a = }'", "f'{a=}' 'plain' f'{b}'",
         "f'{f\"{a=}\"}'", "f\"{'=' + a=}\"", "f'{a!r=}'" ]


def sources(r, n):
    """n modules, each with several assignments of generated f-strings (plus the debug-specifier shapes, which ast.unparse cannot produce)"""
    g = Gen(r)
    out = []
    for i in range(n):
        body = []
        for j in range(r.randint(1, 3)):
            e = g.joined(r.randint(1, 3))
            body.append(ast.Assign(targets=[ast.Name(id='v%d' % j, ctx=ast.Store())], value=e, lineno=1))
        m = ast.Module(body=body, type_ignores=[])
        ast.fix_missing_locations(m)
        try:
            src = ast.unparse(m) + '\n'
            compile(src, '<fstr>', 'exec', dont_inherit=True)
        except Exception:
            continue
        out.append('a = b = value = 1\nobj = {}\n' + src)
    for dsrc in DEBUG:
        try:
            compile('x = ' + dsrc, '<fstr>', 'exec', dont_inherit=True)
        except SyntaxError:
            continue
        out.append('a = b = 1\nobj = {"k": 2}\nx = ' + dsrc + '\n')
    return out
