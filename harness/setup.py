#!/venv/bin/python
"""setup: regenerate coq/Gen from /repo and build the whole Coq development (full .vo) from files on disk."""
import sys, os
sys.path.insert(0, os.path.dirname(os.path.dirname(os.path.abspath(__file__))))
from harness import common

ALL_TRANSLATORS = ['cli', 'pipeline', 'evalsites', 'namegen', 'prectable', 'tokenrules', 'resolve', 'statesites']

if __name__ == '__main__':
    with common.coq_lock():
        broken = common.translate(ALL_TRANSLATORS)
        for b in broken:
            print('translator failed closed:', b)
        ok, log = common.coq_build([])
        print(log[-3000:])
        bad = common.grep_gate()
        if bad:
            print('forbidden constructs:', bad)
    sys.exit(0 if ok and not bad else 1)
