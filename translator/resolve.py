"""Translator: rename/resolve_names.py (get_binding), rename/util.py (get_nonlocal_namespace, get_global_namespace),
rename/bind_names.py (NameBinder.get_binding) -> coq/Gen/ResolveNames.v

get_binding is read statement by statement: every statement must be one of the four recognised clauses (an if/elif chain
whose arms all return is read as consecutive ifs); the clause list is emitted IN SOURCE ORDER, so a reordering or a dropped
clause changes the generated model and the theorems of Proofs/ScopeProofs.v are re-checked against it.  Anything else is
Untranslatable (fail-closed)."""
import ast, os, sys


class Untranslatable(Exception):
    pass


def fail(fname, node, why):
    raise Untranslatable('%s:%s: %s' % (fname, getattr(node, 'lineno', '?'), why))


def nodoc(body):
    return [s for s in body if not (isinstance(s, ast.Expr) and isinstance(s.value, ast.Constant) and isinstance(s.value.value, str))]


def flatten_if(st):
    """if A: X elif B: Y [else: Z] -> [(A, X), (B, Y), (None, Z)]"""
    out = []
    while True:
        out.append((st.test, st.body))
        if len(st.orelse) == 1 and isinstance(st.orelse[0], ast.If):
            st = st.orelse[0]
            continue
        if st.orelse:
            out.append((None, st.orelse))
        return out


G_TEST = 'name in namespace.global_names and (not isinstance(namespace, ast.Module))'
N_TEST = 'name in namespace.nonlocal_names and (not isinstance(namespace, ast.Module))'
G_RET = 'return get_binding(name, get_global_namespace(namespace))'
N_RET = 'return get_binding(name, get_nonlocal_namespace(namespace))'
OWN = 'for binding in namespace.bindings:\n    if binding.name == name:\n        return binding'
UP_TEST = 'not isinstance(namespace, ast.Module)'


def creates_at_module(body):
    """every path of the module-level arm appends a fresh binding to namespace.bindings and returns it"""
    def ends_ok(stmts):
        if not stmts:
            return False
        last = stmts[-1]
        if isinstance(last, ast.Return):
            txt = [ast.unparse(s) for s in stmts]
            return ast.unparse(last) == 'return binding' and 'namespace.bindings.append(binding)' in txt and any(t.startswith('binding = ') and 'Binding(name' in t for t in txt)
        if isinstance(last, ast.If) and last.orelse:
            return ends_ok(last.body) and ends_ok(last.orelse)
        return False
    return ends_ok(body)


def translate(repo, outdir):
    f1 = os.path.join(repo, 'src/python_minifier/rename/resolve_names.py')
    t1 = ast.parse(open(f1).read())
    fns = {n.name: n for n in t1.body if isinstance(n, ast.FunctionDef)}
    if 'get_binding' not in fns:
        raise Untranslatable('resolve_names.py: get_binding not found')
    gb = fns['get_binding']
    if [a.arg for a in gb.args.args] != ['name', 'namespace']:
        fail('resolve_names.py', gb, 'signature of get_binding')
    clauses = []
    body = nodoc(gb.body)
    TAINT_FIRST = 'isinstance(namespace, ast.Module) and name in '
    taint_first = None
    if body and isinstance(body[0], ast.If) and ast.unparse(body[0].test).startswith(TAINT_FIRST) and not body[0].orelse \
            and [ast.unparse(x) for x in body[0].body] == ['namespace.tainted = True']:
        # a reference that reaches the module with the name of a dynamic-name builtin taints the module, whatever it resolves to
        lst = body[0].test.values[1].comparators[0]
        if not (isinstance(lst, (ast.List, ast.Tuple, ast.Set)) and all(isinstance(e, ast.Constant) and isinstance(e.value, str) for e in lst.elts)):
            fail('resolve_names.py', body[0], 'list of tainting builtins not recognised')
        taint_first = [e.value for e in lst.elts]
        body = body[1:]
    for i, st in enumerate(body):
        if isinstance(st, ast.For):
            if ast.unparse(st) != OWN:
                fail('resolve_names.py', st, 'loop over namespace.bindings not recognised')
            clauses.append('COwn')
            continue
        if not isinstance(st, ast.If):
            fail('resolve_names.py', st, 'statement not recognised in get_binding: ' + ast.unparse(st)[:60])
        arms = flatten_if(st)
        for j, (test, arm) in enumerate(arms):
            ttxt = None if test is None else ast.unparse(test)
            atxt = '\n'.join(ast.unparse(s) for s in arm)
            if ttxt == G_TEST and atxt == G_RET:
                clauses.append('CGlobalDecl')
            elif ttxt == N_TEST and atxt == N_RET:
                clauses.append('CNonlocalDecl')
            elif ttxt == UP_TEST and atxt == N_RET:
                # must be followed by the module-level arm and be the last statement
                rest = arms[j + 1:]      # `else: if ..: .. else: ..` parses like elif: every remaining arm must create-and-return at the module
                if not rest or rest[-1][0] is not None or not all(creates_at_module(b) for _t, b in rest) or i != len(body) - 1:
                    fail('resolve_names.py', st, 'the module-level arm after "not isinstance(namespace, ast.Module)" is not recognised')
                clauses.append('CUp')
                break
            else:
                fail('resolve_names.py', st, 'arm not recognised in get_binding: if %s: %s' % (ttxt, atxt[:60]))
    if not clauses or clauses[-1] != 'CUp':
        fail('resolve_names.py', gb, 'get_binding does not end with the climb / module-level arm')
    # the callers: a Name load resolves from the namespace the node is in
    rn = fns.get('resolve_names')
    if rn is None:
        raise Untranslatable('resolve_names.py: resolve_names not found')
    first = nodoc(rn.body)[0]
    if not (isinstance(first, ast.If) and ast.unparse(first.test) == 'isinstance(node, ast.Name) and isinstance(node.ctx, ast.Load)'
            and [ast.unparse(s) for s in first.body] == ['get_binding(node.id, node.namespace).add_reference(node)']):
        fail('resolve_names.py', first, 'Name/Load case of resolve_names not recognised')

    f2 = os.path.join(repo, 'src/python_minifier/rename/util.py')
    t2 = ast.parse(open(f2).read())
    ufns = {n.name: n for n in t2.body if isinstance(n, ast.FunctionDef)}
    for need in ('get_nonlocal_namespace', 'get_global_namespace'):
        if need not in ufns:
            raise Untranslatable('util.py: %s not found' % need)
    nl = '\n'.join(ast.unparse(s) for s in nodoc(ufns['get_nonlocal_namespace'].body))
    if nl != 'if isinstance(node.namespace, ast.ClassDef):\n    return get_nonlocal_namespace(node.namespace)\nreturn node.namespace':
        fail('util.py', ufns['get_nonlocal_namespace'], 'get_nonlocal_namespace is not "pass over every enclosing class, stop at the first other namespace"')
    gl = '\n'.join(ast.unparse(s) for s in nodoc(ufns['get_global_namespace'].body))
    if gl != 'if node.namespace is node:\n    return node\nreturn get_global_namespace(node.namespace)':
        fail('util.py', ufns['get_global_namespace'], 'get_global_namespace is not "climb to the namespace that is its own parent"')

    f3 = os.path.join(repo, 'src/python_minifier/rename/bind_names.py')
    t3 = ast.parse(open(f3).read())
    nb = [n for n in t3.body if isinstance(n, ast.ClassDef) and n.name == 'NameBinder']
    if not nb:
        raise Untranslatable('bind_names.py: NameBinder not found')
    bg = [n for n in nb[0].body if isinstance(n, ast.FunctionDef) and n.name == 'get_binding']
    if not bg:
        raise Untranslatable('bind_names.py: NameBinder.get_binding not found')
    bb = nodoc(bg[0].body)
    if not (isinstance(bb[0], ast.If) and ast.unparse(bb[0].test) == G_TEST and not bb[0].orelse
            and [ast.unparse(s) for s in bb[0].body] == ['return self.get_binding(name, get_global_namespace(namespace))']):
        fail('bind_names.py', bb[0], 'NameBinder.get_binding: a name declared global is not bound at the module first')
    loop = [s for s in bb if isinstance(s, ast.For)]
    if len(loop) != 1 or ast.unparse(loop[0].iter) != 'namespace.bindings' or not loop[0].orelse \
            or [ast.unparse(s) for s in loop[0].orelse[:2]] != ['binding = NameBinding(name)', 'namespace.bindings.append(binding)'] \
            or ast.unparse(loop[0].body[0]) != 'if binding.name == name:\n    break':
        fail('bind_names.py', bg[0], 'NameBinder.get_binding: find-or-create in namespace.bindings not recognised')
    if ast.unparse(bb[-1]) != 'return binding':
        fail('bind_names.py', bg[0], 'NameBinder.get_binding does not return the binding')

    # ---- where module.tainted is written (C09): the builtins whose use taints, the imports that taint, and every assignment to `.tainted`
    taint_builtins = None
    for n in ast.walk(gb):
        if isinstance(n, ast.If) and isinstance(n.test, ast.Compare) and ast.unparse(n.test.left) == 'name' and isinstance(n.test.ops[0], ast.In) \
                and isinstance(n.test.comparators[0], (ast.List, ast.Tuple, ast.Set)) and [ast.unparse(x) for x in n.body] == ['namespace.tainted = True']:
            elts = n.test.comparators[0].elts
            if not all(isinstance(e, ast.Constant) and isinstance(e.value, str) for e in elts) or taint_builtins is not None:
                fail('resolve_names.py', n, 'list of tainting builtins not recognised')
            taint_builtins = [e.value for e in elts]
    if taint_builtins is None:
        fail('resolve_names.py', gb, 'get_binding no longer taints the module for dynamic-name builtins')
    if taint_first is not None and sorted(taint_first) != sorted(taint_builtins):
        fail('resolve_names.py', gb, 'the two lists of tainting builtins in get_binding differ')
    va = [n for n in nb[0].body if isinstance(n, ast.FunctionDef) and n.name == 'visit_alias']
    if not va:
        raise Untranslatable('bind_names.py: NameBinder.visit_alias not found')
    vb = nodoc(va[0].body)
    star = any(isinstance(x, ast.If) and ast.unparse(x.test) == "node.name == '*'" and [ast.unparse(y) for y in x.body] == ['get_global_namespace(node).tainted = True'] and not x.orelse for x in vb)
    mods = []
    for x in vb:
        if isinstance(x, ast.If) and [ast.unparse(y) for y in x.body] == ['get_global_namespace(node).tainted = True'] and not x.orelse and ast.unparse(x.test).startswith('root_module == '):
            c = x.test.comparators[0]
            if not (isinstance(c, ast.Constant) and isinstance(c.value, str)):
                fail('bind_names.py', x, 'tainting module test not recognised')
            mods.append(c.value)
    if not star or ast.unparse(vb[0]) != "if node.name == '*':\n    get_global_namespace(node).tainted = True" or "root_module = node.name.split('.')[0]" not in [ast.unparse(x) for x in vb]:
        fail('bind_names.py', va[0], 'visit_alias: star imports no longer taint the module first thing')
    writes = []
    for fname, tree in (('rename/bind_names.py', t3), ('rename/resolve_names.py', t1), ('rename/util.py', t2)):
        for n in ast.walk(tree):
            if isinstance(n, (ast.Assign, ast.AugAssign, ast.AnnAssign)):
                tg = n.targets if isinstance(n, ast.Assign) else [n.target]
                for t_ in tg:
                    if isinstance(t_, ast.Attribute) and t_.attr == 'tainted':
                        writes.append((fname, ast.unparse(n.value) if n.value is not None else '?'))
            if isinstance(n, ast.Call) and ast.unparse(n.func) in ('setattr', 'delattr') and len(n.args) >= 2 and 'tainted' in ast.unparse(n.args[1]):
                writes.append((fname, 'setattr'))
    for other in ('rename/mapper.py', 'rename/renamer.py', 'rename/rename_literals.py', 'rename/binding.py', '__init__.py'):
        try:
            ot = ast.parse(open(os.path.join(repo, 'src/python_minifier', other)).read())
        except (OSError, SyntaxError) as e:
            raise Untranslatable('%s: %s' % (other, e))
        for n in ast.walk(ot):
            if isinstance(n, (ast.Assign, ast.AugAssign, ast.AnnAssign)):
                tg = n.targets if isinstance(n, ast.Assign) else [n.target]
                for t_ in tg:
                    if isinstance(t_, ast.Attribute) and t_.attr == 'tainted':
                        writes.append((other, ast.unparse(n.value) if n.value is not None else '?'))

    def cs(x):
        return '"' + x.replace('"', '""') + '"'
    o = ['(* GENERATED on every run by /verif/translator/resolve.py from rename/resolve_names.py (get_binding), rename/util.py',
         '   (get_nonlocal_namespace, get_global_namespace) and rename/bind_names.py (NameBinder.get_binding). Do not edit. *)',
         'From PM Require Import Model.Base Model.ScopeBase.',
         '(* the clauses of resolve_names.get_binding, in source order *)',
         'Definition get_binding_clauses : list clause := [%s].' % '; '.join(clauses),
         '(* get_nonlocal_namespace passes over every enclosing class namespace *)',
         'Definition nonlocal_namespace_skips_classes : bool := true.',
         '(* NameBinder.get_binding binds a name declared global in the module namespace, otherwise finds or creates it in the namespace given *)',
         'Definition binder_global_to_module : bool := true.',
         'From Coq Require Import String.',
         '#[local] Open Scope string_scope.',
         '(* C09: the builtins whose (unshadowed) use sets module.tainted, the imported modules that do, star imports, and EVERY assignment to a `.tainted` attribute in rename/ and __init__.py *)',
         'Definition taint_builtins : list string := [%s].' % '; '.join(cs(x) for x in taint_builtins),
         'Definition taint_modules : list string := [%s].' % '; '.join(cs(x) for x in mods),
         'Definition star_import_taints : bool := %s.' % ('true' if star else 'false'),
         '(* get_binding taints the module for ANY reference that reaches the module under one of these names, also when the module binds the name itself *)',
         'Definition taint_regardless_of_module_binding : bool := %s.' % ('true' if taint_first is not None else 'false'),
         'Definition tainted_writes : list (string * string) := [%s].' % '; '.join('(%s, %s)' % (cs(a), cs(b)) for a, b in sorted(writes))]
    text = '\n'.join(o) + '\n'
    p = os.path.join(outdir, 'ResolveNames.v')
    old = open(p).read() if os.path.exists(p) else None
    if old != text:
        open(p, 'w').write(text)
    return p


if __name__ == '__main__':
    print(translate(sys.argv[1] if len(sys.argv) > 1 else '/repo', sys.argv[2] if len(sys.argv) > 2 else '/verif/coq/Gen'))
