"""Translator: /repo/src/python_minifier/__init__.py (minify, _find_shebang, awslambda) -> coq/Gen/Pipeline.v

The body of minify() is straight-line code: a fixed sequence of optional stages.  It is read statement by statement
into a list of `pstmt` (a small deep embedding declared in Model/PipelineBase.v); every statement must be of one of the
recognised forms, anything else fails closed.  Gates are boolean expressions over the option parameters and
`module.tainted`.  `_find_shebang`'s two regular expressions are extracted as pattern ASTs."""
import ast, os, sys


class Untranslatable(Exception):
    pass


def fail(node, why):
    raise Untranslatable('__init__.py:%s: %s' % (getattr(node, 'lineno', '?'), why))


def q(s):
    return '"%s"' % s.replace('"', '""')


class P:
    def __init__(self, repo):
        self.path = os.path.join(repo, 'src/python_minifier/__init__.py')
        self.src = open(self.path).read()
        self.mod = ast.parse(self.src)
        self.fns = {n.name: n for n in self.mod.body if isinstance(n, ast.FunctionDef)}
        for need in ('minify', '_find_shebang', 'unparse', 'awslambda'):
            if need not in self.fns:
                raise Untranslatable('__init__.py: function %s not found' % need)
        fn = self.fns['minify']
        self.params = [a.arg for a in fn.args.args]

    def gate(self, e):
        if isinstance(e, ast.Name) and e.id in self.params:
            return '(GOpt %s)' % q(e.id)
        if isinstance(e, ast.Name) and e.id == 'remove_annotations_options':
            return 'GAnnAny'
        if isinstance(e, ast.Attribute) and ast.unparse(e) == 'module.tainted':
            return 'GTainted'
        if isinstance(e, ast.UnaryOp) and isinstance(e.op, ast.Not):
            return '(GNot %s)' % self.gate(e.operand)
        if isinstance(e, ast.BoolOp) and isinstance(e.op, ast.And):
            g = self.gate(e.values[0])
            for v in e.values[1:]:
                g = '(GAnd %s %s)' % (g, self.gate(v))
            return g
        if isinstance(e, ast.Compare) and len(e.ops) == 1 and isinstance(e.ops[0], ast.Is) and isinstance(e.comparators[0], ast.Constant) \
                and e.comparators[0].value is True and isinstance(e.left, ast.Name) and e.left.id in self.params:
            return '(GIsTrue %s)' % q(e.left.id)
        fail(e, 'gate expression ' + ast.unparse(e))

    def call_stage(self, call, gate, st):
        """module = X(args)(module) | module = f(module, ...) | f(module, ...)"""
        if isinstance(call.func, ast.Call):      # X(args)(module)
            inner = call.func
            if not (len(call.args) == 1 and ast.unparse(call.args[0]) == 'module' and not call.keywords and isinstance(inner.func, ast.Name)):
                fail(st, 'stage call shape')
            args = [ast.unparse(a) for a in inner.args] + ['%s=%s' % (k.arg, ast.unparse(k.value)) for k in inner.keywords]
            return 'PStage %s %s [%s]' % (gate, q(inner.func.id), '; '.join(q(a) for a in args))
        if isinstance(call.func, ast.Name):
            if not (call.args and ast.unparse(call.args[0]) == 'module'):
                fail(st, 'stage function must take the module first')
            args = [ast.unparse(a) for a in call.args[1:]] + ['%s=%s' % (k.arg, ast.unparse(k.value)) for k in call.keywords]
            return 'PStage %s %s [%s]' % (gate, q(call.func.id), '; '.join(q(a) for a in args))
        fail(st, 'stage call shape')

    def stage_stmt(self, st, gate):
        if isinstance(st, ast.Assign) and len(st.targets) == 1 and ast.unparse(st.targets[0]) == 'module' and isinstance(st.value, ast.Call):
            return self.call_stage(st.value, gate, st)
        if isinstance(st, ast.Expr) and isinstance(st.value, ast.Call):
            return self.call_stage(st.value, gate, st)
        return None

    def is_none_test(self, e, var):
        return isinstance(e, ast.Compare) and len(e.ops) == 1 and isinstance(e.ops[0], ast.Is) and isinstance(e.left, ast.Name) and e.left.id == var \
            and isinstance(e.comparators[0], ast.Constant) and e.comparators[0].value is None

    def normalise(self, st):
        """if v is None: v = [] elif isinstance(v, str): v = [v] [else: v = list(v)]"""
        if not (isinstance(st.test, ast.Compare) and isinstance(st.test.left, ast.Name)):
            return None
        var = st.test.left.id
        if not (var in self.params and self.is_none_test(st.test, var)):
            return None
        if not (len(st.body) == 1 and ast.unparse(st.body[0]) == '%s = []' % var):
            fail(st, 'normalisation of %s: None branch' % var)
        if not (len(st.orelse) == 1 and isinstance(st.orelse[0], ast.If)):
            fail(st, 'normalisation of %s: elif missing' % var)
        el = st.orelse[0]
        if ast.unparse(el.test) != 'isinstance(%s, str)' % var or not (len(el.body) == 1 and ast.unparse(el.body[0]) == '%s = [%s]' % (var, var)):
            fail(el, 'normalisation of %s: str branch' % var)
        copy = 'false'
        if el.orelse:
            if len(el.orelse) == 1 and ast.unparse(el.orelse[0]) in ('%s = list(%s)' % (var, var), '%s = %s[:]' % (var, var), '%s = %s.copy()' % (var, var)):
                copy = 'true'
            else:
                fail(el, 'normalisation of %s: else branch' % var)
        return 'PNormalise %s %s' % (q(var), copy)

    def ann_block(self, st):
        """if isinstance(remove_annotations, bool): opts = RemoveAnnotationsOptions(all four = remove_annotations)
           elif isinstance(remove_annotations, RemoveAnnotationsOptions): opts = remove_annotations  else: raise TypeError"""
        if ast.unparse(st.test) != 'isinstance(remove_annotations, bool)':
            return None
        b = st.body
        if not (len(b) == 1 and isinstance(b[0], ast.Assign) and ast.unparse(b[0].targets[0]) == 'remove_annotations_options'
                and isinstance(b[0].value, ast.Call) and ast.unparse(b[0].value.func) == 'RemoveAnnotationsOptions' and not b[0].value.args):
            fail(st, 'annotation options block: bool branch')
        kws = {k.arg: ast.unparse(k.value) for k in b[0].value.keywords}
        want = {'remove_variable_annotations', 'remove_return_annotations', 'remove_argument_annotations', 'remove_class_attribute_annotations'}
        if set(kws) != want or set(kws.values()) != {'remove_annotations'}:
            fail(st, 'annotation options block: a bool must set all four kinds to itself')
        el = st.orelse
        if not (len(el) == 1 and isinstance(el[0], ast.If) and ast.unparse(el[0].test) == 'isinstance(remove_annotations, RemoveAnnotationsOptions)'
                and len(el[0].body) == 1 and ast.unparse(el[0].body[0]) == 'remove_annotations_options = remove_annotations'
                and len(el[0].orelse) == 1 and isinstance(el[0].orelse[0], ast.Raise)):
            fail(st, 'annotation options block: options branch / TypeError branch')
        return 'PAnnNormalise'

    def minify_body(self):
        fn = self.fns['minify']
        out = []
        body = [s for s in fn.body if not (isinstance(s, ast.Expr) and isinstance(s.value, ast.Constant))]
        i = 0
        while i < len(body):
            st = body[i]
            src = ast.unparse(st)
            line = st.lineno
            if src.startswith('filename = filename or '):
                item = 'PFilename'
            elif src == 'module = ast.parse(source, filename)':
                item = 'PParse'
            elif src == 'minified = unparse(module)':
                item = 'PUnparse'
            elif isinstance(st, ast.Return) and ast.unparse(st.value) == 'minified':
                item = 'PReturn'
            elif isinstance(st, ast.If) and self.ann_block(st):
                item = 'PAnnNormalise'
            elif isinstance(st, ast.If) and not st.orelse and all(isinstance(b, ast.Assign) and isinstance(b.value, ast.Constant) and b.value.value is False
                                                                   and isinstance(b.targets[0], ast.Name) and b.targets[0].id in self.params for b in st.body):
                item = 'PForceFalse %s [%s]' % (self.gate(st.test), '; '.join(q(b.targets[0].id) for b in st.body))
            elif isinstance(st, ast.If) and self.normalise(st):
                item = self.normalise(st)
            elif isinstance(st, ast.Expr) and isinstance(st.value, ast.Call) and isinstance(st.value.func, ast.Attribute) and st.value.func.attr == 'extend' \
                    and isinstance(st.value.func.value, ast.Name) and st.value.func.value.id in self.params and len(st.value.args) == 1:
                item = 'PExtendArg %s %s' % (q(st.value.func.value.id), q(ast.unparse(st.value.args[0])))
            elif isinstance(st, ast.If) and not st.orelse and len(st.body) == 1 and self.stage_stmt(st.body[0], self.gate(st.test)):
                item = self.stage_stmt(st.body[0], self.gate(st.test))
            elif isinstance(st, ast.If) and not st.orelse and ast.unparse(st.body[0]) == 'shebang_line = _find_shebang(source)' and len(st.body) == 2 \
                    and ast.unparse(st.body[1]) == "if shebang_line is not None:\n    return shebang_line + '\\n' + minified":
                item = 'PShebang %s' % self.gate(st.test)
            elif self.stage_stmt(st, 'GTrue'):
                item = self.stage_stmt(st, 'GTrue')
            else:
                fail(st, 'unrecognised statement in minify: ' + src.split('\n')[0])
            out.append('  %s   (* line %d *)' % (item, line))
            i += 1
        return out

    # ------------------------------------------------------------------------------------------ regexes
    def regex_ast(self, pat, node):
        """tiny regex subset: ^, literal chars, ., [^...], [...], each optionally followed by *"""
        i = 0
        items = []
        anchored = False
        if pat.startswith('^'):
            anchored = True
            i = 1
        while i < len(pat):
            c = pat[i]
            if c == '.':
                atom = 'RDot'
                i += 1
            elif c == '[':
                j = pat.index(']', i + 2)
                body = pat[i + 1:j]
                neg = body.startswith('^')
                if neg:
                    body = body[1:]
                chars = []
                k = 0
                while k < len(body):
                    if body[k] == '\\':
                        esc = body[k + 1]
                        m = {'r': 13, 'n': 10, 't': 9, '\\': 92}.get(esc)
                        if m is None:
                            fail(node, 'regex escape \\' + esc)
                        chars.append(m)
                        k += 2
                    else:
                        chars.append(ord(body[k]))
                        k += 1
                atom = '(%s [%s])' % ('RNotIn' if neg else 'RIn', '; '.join('%d%%N' % x for x in chars))
                i = j + 1
            elif c in '\\()|+?{}$':
                fail(node, 'regex construct %r outside the supported subset' % c)
            else:
                atom = '(RLit %d%%N)' % ord(c)
                i += 1
            star = 'false'
            if i < len(pat) and pat[i] == '*':
                star = 'true'
                i += 1
            items.append('(%s, %s)' % (atom, star))
        if not anchored:
            fail(node, 'regex must be anchored with ^ (re.match anchors anyway, kept explicit)')
        return '[' + '; '.join(items) + ']'

    def shebang(self):
        fn = self.fns['_find_shebang']
        pats = {}
        for n in ast.walk(fn):
            if isinstance(n, ast.Call) and ast.unparse(n.func) == 're.match' and len(n.args) == 2 and isinstance(n.args[0], ast.Constant):
                v = n.args[0].value
                pats['bytes' if isinstance(v, bytes) else 'text'] = (v.decode('latin-1') if isinstance(v, bytes) else v, n)
        if set(pats) != {'bytes', 'text'}:
            fail(fn, '_find_shebang: expected one re.match on bytes and one on text')
        body = [s for s in fn.body if not (isinstance(s, ast.Expr) and isinstance(s.value, ast.Constant))]
        want = ("if isinstance(source, bytes):\n    shebang = re.match(%r, source)\n    if shebang:\n        return shebang.group().decode()\n"
                "else:\n    shebang = re.match(%r, source)\n    if shebang:\n        return shebang.group()")
        got = ast.unparse(body[0])
        exp = want % (pats['bytes'][0].encode('latin-1'), pats['text'][0])
        if got != exp or len(body) != 2 or ast.unparse(body[1]) != 'return None':
            fail(fn, '_find_shebang control structure changed')
        return self.regex_ast(pats['text'][0], pats['text'][1]), self.regex_ast(pats['bytes'][0], pats['bytes'][1])

    def awslambda(self):
        fn = self.fns['awslambda']
        calls = [n for n in ast.walk(fn) if isinstance(n, ast.Call) and ast.unparse(n.func) == 'minify']
        if len(calls) != 1:
            fail(fn, 'awslambda must call minify once')
        c = calls[0]
        kws = {k.arg: ast.unparse(k.value) for k in c.keywords}
        return [ast.unparse(a) for a in c.args], kws, ast.unparse(ast.Module(body=[s for s in fn.body if not (isinstance(s, ast.Expr) and isinstance(s.value, ast.Constant))], type_ignores=[]))

    def run(self):
        o = ['(* GENERATED on every run by /verif/translator/pipeline.py from /repo/src/python_minifier/__init__.py. Do not edit. *)',
             'From Coq Require Import String.', 'From PM Require Import Model.Base Model.PipelineBase.', '#[local] Open Scope string_scope.', '']
        o.append('Definition minify_parameters : list string := [' + '; '.join(q(p) for p in self.params) + '].')
        o.append('Definition minify_body : list pstmt := [')
        o.append(';\n'.join(self.minify_body()))
        o.append('].')
        rt, rb = self.shebang()
        o.append('Definition shebang_regex_text : regex := %s.' % rt)
        o.append('Definition shebang_regex_bytes : regex := %s.' % rb)
        args, kws, src = self.awslambda()
        o.append('Definition awslambda_positional : list string := [' + '; '.join(q(a) for a in args) + '].')
        o.append('Definition awslambda_keywords : list (string * string) := [' + '; '.join('(%s, %s)' % (q(k), q(v)) for k, v in kws.items()) + '].')
        o.append('Definition awslambda_source : string := %s.' % q(src.replace('\n', ' ; ')))
        return '\n'.join(o) + '\n'


def translate(repo, outdir):
    text = P(repo).run()
    path = os.path.join(outdir, 'Pipeline.v')
    old = open(path).read() if os.path.exists(path) else None
    if old != text:
        open(path, 'w').write(text)
    return path


if __name__ == '__main__':
    print(translate(sys.argv[1] if len(sys.argv) > 1 else '/repo', sys.argv[2] if len(sys.argv) > 2 else '/verif/coq/Gen'))
