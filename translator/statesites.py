"""Translator: every .py under /repo/src/python_minifier -> coq/Gen/StateSites.v

Lists every place where the package keeps or changes state that outlives one call of minify() (C11: the output must not
depend on what was minified earlier in the same process, nor on other threads):

  global     a `global X` statement inside a function
  cache      a memoising decorator (functools.lru_cache / cache / a name ending in `cache` or `memoize`)
  shared     a module-level or class-level name bound to a mutable display / container constructor that some function in
             the package mutates in place (item store or delete, augmented assignment, a mutating method call), or bound to an
             instance (a call result not known to be immutable) on which some function stores an attribute or - for an instance of a
             CamelCase class - calls it or one of its methods, reached by
             its bare name, through self. / cls. / the class name, or through `module.name`
  default    a parameter whose default value is a mutable display / container constructor and which the function mutates
  caller-object  an attribute store into an option object (it belongs to the caller and is reused between calls)
  set-order  iteration (for / comprehension / list() / tuple() / join) directly over a set display, set comprehension or set(...) call:
             the order of a set of strings depends on the hash seed
  nondeterministic      a call of random.* / time.* / datetime.* / uuid.* / secrets.* / os.getpid / os.urandom / id(), or of hash() outside a
             __hash__ method (string hashes depend on the hash seed)
  nondeterministic-use  a reference, anywhere in the package, to a function that contains such a call
  process    a call or store that changes interpreter-wide state (sys.setrecursionlimit, sys.path / sys.modules / os.environ
             mutation, os.chdir, random.seed, locale.setlocale, warnings.filterwarnings, builtins assignment)

Reads, constants, per-instance attributes set in __init__ and per-call locals are not sites.  Fail-closed on what it cannot
classify: a mutation whose receiver is a call result or a subscript of a module-level container is reported as `shared`."""
import ast, os, sys


class Untranslatable(Exception):
    pass


MUTATORS = {'append', 'extend', 'add', 'update', 'pop', 'remove', 'clear', 'insert', 'setdefault', 'discard', 'popitem', 'sort', 'reverse',
            'appendleft', 'extendleft', 'popleft', 'rotate', 'move_to_end', 'subtract', 'difference_update', 'intersection_update', 'symmetric_difference_update', '__setitem__', '__delitem__'}
CONTAINERS = {'list', 'dict', 'set', 'bytearray', 'defaultdict', 'OrderedDict', 'Counter', 'deque', 'collections.defaultdict', 'collections.OrderedDict', 'collections.Counter', 'collections.deque',
              'WeakKeyDictionary', 'WeakValueDictionary', 'weakref.WeakKeyDictionary', 'weakref.WeakValueDictionary'}
IMMUTABLE_MAKERS = {'re.compile', 'frozenset', 'tuple', 'str', 'int', 'float', 'bytes', 'bool', 'object', 'namedtuple', 'collections.namedtuple', 'len', 'dir', 'sorted', 'range',
                    'os.path.join', 'os.path.dirname', 'os.path.abspath', 'type', 'getattr', 'hasattr', 'isinstance', 'logging.getLogger', 'TypeVar', 'typing.TypeVar'}
NONDET_PREFIX = ('random.', 'time.', 'datetime.', 'uuid.', 'secrets.', 'os.urandom', 'os.getpid', 'os.times', 'threading.get_ident', 'tempfile.')
PROCESS_CALLS = {'sys.setrecursionlimit', 'sys.setswitchinterval', 'sys.set_int_max_str_digits', 'os.chdir', 'os.putenv', 'os.unsetenv', 'os.umask', 'random.seed', 'locale.setlocale',
                 'warnings.filterwarnings', 'warnings.simplefilter', 'sys.settrace', 'sys.setprofile', 'gc.disable', 'gc.enable', 'sys.path.append', 'sys.path.insert', 'sys.path.extend',
                 'os.environ.update', 'os.environ.setdefault', 'os.environ.pop', 'os.environ.clear', 'sys.modules.pop', 'sys.modules.update', 'sys.modules.setdefault', 'setattr(builtins)'}
PROCESS_STORES = ('os.environ', 'sys.modules', 'sys.path', 'builtins.', '__builtins__', 'sys.stdout', 'sys.stderr', 'sys.stdin', 'sys.argv', 'sys.flags')


def q(s):
    return '"%s"' % s.replace('"', '""')


def is_mutable_value(v):
    if isinstance(v, (ast.List, ast.Dict, ast.Set, ast.ListComp, ast.DictComp, ast.SetComp)):
        return True
    if isinstance(v, ast.Call):
        try:
            return ast.unparse(v.func) in CONTAINERS
        except Exception:
            return False
    return False


def dotted(n):
    try:
        return ast.unparse(n)
    except Exception:
        return '?'


def sites_of(path, rel):
    tree = ast.parse(open(path).read())
    out = []
    module_mut = set()        # module-level names bound to mutable values
    class_mut = {}            # class name -> attribute names bound to mutable values in the class body
    for st in tree.body:
        if isinstance(st, (ast.Assign, ast.AnnAssign)) and st.value is not None and is_mutable_value(st.value):
            for t in (st.targets if isinstance(st, ast.Assign) else [st.target]):
                if isinstance(t, ast.Name):
                    module_mut.add(t.id)
    module_obj = set()        # module-level names bound to the result of a call that is not known to be immutable (an instance kept for the life of the process)
    module_inst = set()       # ... of which: instances of a class (CamelCase callee): calling them or their methods may change them
    for st in tree.body:
        if isinstance(st, (ast.Assign, ast.AnnAssign)) and isinstance(st.value, ast.Call) and not is_mutable_value(st.value) and dotted(st.value.func) not in IMMUTABLE_MAKERS:
            for t in (st.targets if isinstance(st, ast.Assign) else [st.target]):
                if isinstance(t, ast.Name):
                    module_obj.add(t.id)
                    if dotted(st.value.func).split('.')[-1][:1].isupper():
                        module_inst.add(t.id)
    for cls in [n for n in ast.walk(tree) if isinstance(n, ast.ClassDef)]:
        for st in cls.body:
            if isinstance(st, (ast.Assign, ast.AnnAssign)) and st.value is not None and is_mutable_value(st.value):
                for t in (st.targets if isinstance(st, ast.Assign) else [st.target]):
                    if isinstance(t, ast.Name):
                        class_mut.setdefault(cls.name, set()).add(t.id)

    def shared_receiver(expr, cls_name, local_names, instance_attrs):
        """is `expr` (the object being mutated) state that outlives the call?"""
        if isinstance(expr, ast.Name):
            return expr.id in module_mut and expr.id not in local_names
        if isinstance(expr, ast.Attribute):
            base = expr.value
            if isinstance(base, ast.Name):
                if base.id in ('self', 'cls') and cls_name and expr.attr in class_mut.get(cls_name, ()) and not (base.id == 'self' and expr.attr in instance_attrs):
                    return True
                if base.id in class_mut and expr.attr in class_mut[base.id]:
                    return True
                if base.id == 'type' or dotted(expr).startswith(PROCESS_STORES):
                    return True
            if isinstance(base, ast.Call) and dotted(base.func) == 'type':
                return True
            return False
        if isinstance(expr, ast.Subscript):
            return shared_receiver(expr.value, cls_name, local_names, instance_attrs)
        return False

    def visit_function(fn, scope, cls_name, instance_attrs):
        params = fn.args.posonlyargs + fn.args.args + fn.args.kwonlyargs
        defaults = dict(zip([a.arg for a in (fn.args.posonlyargs + fn.args.args)][::-1], fn.args.defaults[::-1]))
        defaults.update({a.arg: d for a, d in zip(fn.args.kwonlyargs, fn.args.kw_defaults) if d is not None})
        mutable_defaults = {k for k, d in defaults.items() if is_mutable_value(d)}
        local_names = {a.arg for a in params} | {n.id for n in ast.walk(fn) if isinstance(n, ast.Name) and isinstance(n.ctx, ast.Store)}
        globals_declared = set()
        for n in ast.walk(fn):
            if isinstance(n, ast.Global):
                globals_declared.update(n.names)
                for nm in n.names:
                    out.append((rel, scope, 'global', nm))
        local_names -= globals_declared
        for dec in fn.decorator_list:
            d = dotted(dec.func if isinstance(dec, ast.Call) else dec)
            if d.split('.')[-1].lower().endswith(('cache', 'memoize', 'memoized', 'memo')):
                out.append((rel, scope, 'cache', d))
        for n in ast.walk(fn):
            target = None
            if isinstance(n, ast.Call) and isinstance(n.func, ast.Attribute) and n.func.attr in MUTATORS:
                target = n.func.value
            elif isinstance(n, (ast.Assign, ast.AugAssign, ast.AnnAssign, ast.Delete)):
                tl = n.targets if isinstance(n, (ast.Assign, ast.Delete)) else [n.target]
                for t in tl:
                    if isinstance(t, ast.Subscript):
                        target = t.value
                    elif isinstance(t, ast.Attribute) and (dotted(t).startswith(PROCESS_STORES) or (isinstance(t.value, ast.Name) and (t.value.id in class_mut or t.value.id == 'cls'))):
                        out.append((rel, scope, 'process' if dotted(t).startswith(PROCESS_STORES) else 'shared', dotted(t)))
                    elif isinstance(t, ast.Attribute) and isinstance(t.value, ast.Name) and t.value.id in module_obj and t.value.id not in local_names:
                        out.append((rel, scope, 'shared', dotted(t)))
                    elif isinstance(t, ast.Attribute) and 'option' in dotted(t.value).lower() and not (dotted(t.value) == 'self' ):
                        # an option object belongs to the caller (minify(remove_annotations=opts)): storing into it changes what the next call sees
                        out.append((rel, scope, 'caller-object', dotted(t)))
            if isinstance(n, ast.Call) and isinstance(n.func, ast.Name) and n.func.id in module_inst and n.func.id not in local_names:
                out.append((rel, scope, 'shared', n.func.id + '()'))
            if isinstance(n, ast.Call) and isinstance(n.func, ast.Attribute) and isinstance(n.func.value, ast.Name) and n.func.value.id in module_inst and n.func.value.id not in local_names:
                out.append((rel, scope, 'shared', dotted(n.func) + '()'))
            its = []
            if isinstance(n, (ast.For, ast.AsyncFor)):
                its.append(n.iter)
            if isinstance(n, (ast.ListComp, ast.GeneratorExp, ast.DictComp)):
                its += [g.iter for g in n.generators]
            if isinstance(n, ast.Call) and dotted(n.func) in ('list', 'tuple', 'enumerate', 'iter', 'next', 'zip') or (isinstance(n, ast.Call) and isinstance(n.func, ast.Attribute) and n.func.attr == 'join'):
                its += list(n.args)
            for it in its:
                if isinstance(it, (ast.Set, ast.SetComp)) or (isinstance(it, ast.Call) and dotted(it.func) in ('set', 'frozenset')):
                    # the order of a set of strings depends on the hash seed
                    out.append((rel, scope, 'set-order', dotted(it)[:60]))
            if isinstance(n, ast.Call):
                d = dotted(n.func)
                if d.startswith(NONDET_PREFIX) or d == 'id' or (d == 'hash' and fn.name != '__hash__') or (d == 'next' and n.args and isinstance(n.args[0], ast.Name) and n.args[0].id in module_obj and n.args[0].id not in local_names):
                    out.append((rel, scope, 'shared' if d == 'next' else 'nondeterministic', d + ('(%s)' % n.args[0].id if d == 'next' else '')))
                if d in PROCESS_CALLS:
                    out.append((rel, scope, 'process', d))
                if d == 'setattr' and n.args and dotted(n.args[0]) in ('builtins', '__builtins__', 'sys', 'os'):
                    out.append((rel, scope, 'process', 'setattr(%s)' % dotted(n.args[0])))
            if target is None:
                continue
            root = target
            while isinstance(root, ast.Subscript):
                root = root.value
            if isinstance(root, ast.Name) and root.id in mutable_defaults:
                out.append((rel, scope, 'default', root.id))
            elif dotted(root).startswith(PROCESS_STORES):
                out.append((rel, scope, 'process', dotted(root)))
            elif shared_receiver(target, cls_name, local_names, instance_attrs):
                out.append((rel, scope, 'shared', dotted(root)))

    def walk(node, scope, cls_name, instance_attrs):
        for ch in ast.iter_child_nodes(node):
            if isinstance(ch, ast.ClassDef):
                ia = set()
                for fn in ch.body:
                    if isinstance(fn, ast.FunctionDef) and fn.name in ('__init__', '__call__', '__new__'):
                        for n in ast.walk(fn):
                            if isinstance(n, ast.Attribute) and isinstance(n.ctx, ast.Store) and isinstance(n.value, ast.Name) and n.value.id == 'self':
                                ia.add(n.attr)
                walk(ch, (scope + '.' if scope else '') + ch.name, ch.name, ia)
            elif isinstance(ch, (ast.FunctionDef, ast.AsyncFunctionDef)):
                sc = (scope + '.' if scope else '') + ch.name
                visit_function(ch, sc, cls_name, instance_attrs)
                walk(ch, sc, cls_name, instance_attrs)
            else:
                walk(ch, scope, cls_name, instance_attrs)
    walk(tree, '', None, set())
    # module-level code that changes interpreter-wide state at import time
    for st in tree.body:
        if isinstance(st, (ast.FunctionDef, ast.AsyncFunctionDef, ast.ClassDef)):
            continue
        for n in ast.walk(st):
            if isinstance(n, ast.Call) and dotted(n.func) in PROCESS_CALLS:
                out.append((rel, '<module>', 'process', dotted(n.func)))
    return sorted(set(out))


def translate(repo, outdir):
    root = os.path.join(repo, 'src/python_minifier')
    sites = []
    for d, _ds, fs in sorted(os.walk(root)):
        for f in sorted(fs):
            if f.endswith('.py'):
                p = os.path.join(d, f)
                try:
                    sites += sites_of(p, os.path.relpath(p, root))
                except SyntaxError as e:
                    raise Untranslatable('%s does not parse: %s' % (p, e))
    # references to the functions that contain a nondeterministic call
    nondet_funcs = {sc.split('.')[-1]: (rel, sc) for rel, sc, kind, _w in sites if kind == 'nondeterministic'}
    if nondet_funcs:
        for d, _ds, fs in sorted(os.walk(root)):
            for f in sorted(fs):
                if not f.endswith('.py'):
                    continue
                p = os.path.join(d, f)
                rel = os.path.relpath(p, root)
                tree = ast.parse(open(p).read())
                for n in ast.walk(tree):
                    nm = n.id if isinstance(n, ast.Name) else n.attr if isinstance(n, ast.Attribute) else None
                    if nm in nondet_funcs:
                        sites.append((rel, '<reference>', 'nondeterministic-use', nm))
                    if isinstance(n, (ast.ImportFrom, ast.Import)):
                        for a in n.names:
                            if a.name.split('.')[-1] in nondet_funcs:
                                sites.append((rel, '<import>', 'nondeterministic-use', a.name))
    sites = sorted(set(sites))
    o = ['(* GENERATED on every run by /verif/translator/statesites.py from every .py under /repo/src/python_minifier. Do not edit. *)',
         'From Coq Require Import String List.', 'Import ListNotations.', '#[local] Open Scope string_scope.',
         '(* (file, enclosing function, kind, what) : state that outlives one call of minify() *)',
         'Definition state_sites : list (string * string * string * string) := [']
    o.append(';\n'.join('  (%s, %s, %s, %s)' % (q(a), q(b), q(c), q(d)) for a, b, c, d in sites))
    o.append('].')
    text = '\n'.join(o) + '\n'
    path = os.path.join(outdir, 'StateSites.v')
    old = open(path).read() if os.path.exists(path) else None
    if old != text:
        open(path, 'w').write(text)
    return path


if __name__ == '__main__':
    print(translate(sys.argv[1] if len(sys.argv) > 1 else '/repo', sys.argv[2] if len(sys.argv) > 2 else '/verif/coq/Gen'))
    print(open(os.path.join(sys.argv[2] if len(sys.argv) > 2 else '/verif/coq/Gen', 'StateSites.v')).read())
