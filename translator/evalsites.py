"""Translator: every .py under /repo/src/python_minifier -> coq/Gen/EvalSites.v

Lists every call site of eval / exec / compile / __import__ / open / importlib.* / os.system / os.popen / subprocess.* /
socket.* / getattr with a non-literal attribute name, with file and enclosing function; and reads the operand guard of
FoldConstants.visit_BinOp (which node kinds may reach safe_eval)."""
import ast, os, sys


class Untranslatable(Exception):
    pass


DANGEROUS_NAMES = {'eval', 'exec', 'compile', '__import__', 'open', 'execfile', 'input'}
DANGEROUS_PREFIX = ('importlib.', 'os.system', 'os.popen', 'os.exec', 'os.spawn', 'subprocess.', 'socket.', 'pickle.', 'marshal.', 'runpy.', 'ctypes.', 'urllib.', 'shutil.')


def q(s):
    return '"%s"' % s.replace('"', '""')


def sites_of(path, rel):
    tree = ast.parse(open(path).read())
    out = []

    def walk(node, scope):
        for ch in ast.iter_child_nodes(node):
            sc = scope
            if isinstance(ch, (ast.FunctionDef, ast.AsyncFunctionDef, ast.ClassDef)):
                sc = (scope + '.' if scope else '') + ch.name
            if isinstance(ch, ast.Call):
                try:
                    name = ast.unparse(ch.func)
                except Exception:
                    name = '?'
                if name in DANGEROUS_NAMES or name.startswith(DANGEROUS_PREFIX) or name.endswith('.literal_eval') or name == 'literal_eval':
                    out.append((rel, scope or '<module>', name))
                if name == 'getattr' and len(ch.args) >= 2 and not isinstance(ch.args[1], ast.Constant):
                    out.append((rel, scope or '<module>', 'getattr(dynamic)'))
                if name == 'setattr' and len(ch.args) >= 2 and not isinstance(ch.args[1], ast.Constant):
                    out.append((rel, scope or '<module>', 'setattr(dynamic)'))
            walk(ch, sc)
    walk(tree, '')
    return out


def fold_guard(repo):
    path = os.path.join(repo, 'src/python_minifier/transforms/constant_folding.py')
    tree = ast.parse(open(path).read())
    cls = [n for n in tree.body if isinstance(n, ast.ClassDef) and n.name == 'FoldConstants']
    if not cls:
        raise Untranslatable('constant_folding.py: FoldConstants not found')
    fn = [n for n in cls[0].body if isinstance(n, ast.FunctionDef) and n.name == 'visit_BinOp']
    if not fn:
        raise Untranslatable('constant_folding.py: visit_BinOp not found')
    fn = fn[0]
    guards = {}
    first_eval = None
    for i, st in enumerate(fn.body):
        src = ast.unparse(st)
        for side in ('left', 'right'):
            pre = 'if not is_constant_node(node.%s, (' % side
            if src.startswith(pre) and src.endswith(')):\n    return node'):
                kinds = src[len(pre):src.index(')):')]
                guards[side] = (i, [k.strip().replace('ast.', '') for k in kinds.split(',')])
        if first_eval is None and any(isinstance(n, ast.Call) and ast.unparse(n.func) in ('safe_eval', 'eval', 'unparse_expression') for n in ast.walk(st)):
            first_eval = i
    if set(guards) != {'left', 'right'} or first_eval is None:
        raise Untranslatable('constant_folding.py:%d: operand guards / evaluation not recognised in visit_BinOp' % fn.lineno)
    ok = guards['left'][0] < first_eval and guards['right'][0] < first_eval
    # safe_eval must evaluate with fresh empty dicts
    se = [n for n in tree.body if isinstance(n, ast.FunctionDef) and n.name == 'safe_eval']
    if not se:
        raise Untranslatable('constant_folding.py: safe_eval not found')
    body = ast.unparse(ast.Module(body=[s for s in se[0].body if not (isinstance(s, ast.Expr) and isinstance(s.value, ast.Constant))], type_ignores=[]))
    empty = body == 'empty_globals = {}\nempty_locals = {}\nreturn eval(expression, empty_globals, empty_locals)'
    return guards['left'][1], guards['right'][1], ok, empty


def translate(repo, outdir):
    root = os.path.join(repo, 'src/python_minifier')
    sites = []
    for d, _ds, fs in sorted(os.walk(root)):
        for f in sorted(fs):
            if f.endswith('.py'):
                p = os.path.join(d, f)
                sites += sites_of(p, os.path.relpath(p, root))
    sites.sort()
    gl, gr, ok, empty = fold_guard(repo)
    o = ['(* GENERATED on every run by /verif/translator/evalsites.py from every .py under /repo/src/python_minifier. Do not edit. *)',
         'From Coq Require Import String List.', 'Import ListNotations.', '#[local] Open Scope string_scope.',
         '(* (file, enclosing function, callee) *)',
         'Definition eval_sites : list (string * string * string) := [']
    o.append(';\n'.join('  (%s, %s, %s)' % (q(a), q(b), q(c)) for a, b, c in sites))
    o.append('].')
    o.append('Definition fold_left_operand_kinds : list string := [%s].' % '; '.join(q(x) for x in gl))
    o.append('Definition fold_right_operand_kinds : list string := [%s].' % '; '.join(q(x) for x in gr))
    o.append('Definition fold_guards_precede_evaluation : bool := %s.' % ('true' if ok else 'false'))
    o.append('Definition safe_eval_uses_fresh_empty_namespaces : bool := %s.' % ('true' if empty else 'false'))
    text = '\n'.join(o) + '\n'
    path = os.path.join(outdir, 'EvalSites.v')
    old = open(path).read() if os.path.exists(path) else None
    if old != text:
        open(path, 'w').write(text)
    return path


if __name__ == '__main__':
    print(translate(sys.argv[1] if len(sys.argv) > 1 else '/repo', sys.argv[2] if len(sys.argv) > 2 else '/verif/coq/Gen'))
    print(open('/verif/coq/Gen/EvalSites.v').read())
