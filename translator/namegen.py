"""Translator: /repo/src/python_minifier/rename/name_generator.py -> coq/Gen/NameGen.v
Reads the two alphabets and the reserved-word expression of name_generator()/name_filter() (fail-closed on any other
shape) and the interpreter tables they consult at run time (keyword.kwlist, dir(builtins))."""
import ast, os, sys, string, keyword, builtins


class Untranslatable(Exception):
    pass


def fail(node, why):
    raise Untranslatable('name_generator.py:%s: %s' % (getattr(node, 'lineno', '?'), why))


KNOWN = {'string.ascii_uppercase': string.ascii_uppercase, 'string.ascii_lowercase': string.ascii_lowercase, 'string.digits': string.digits,
         'string.ascii_letters': string.ascii_letters}


def ev(e, env):
    if isinstance(e, ast.Constant) and isinstance(e.value, str):
        return e.value
    if isinstance(e, ast.Name) and e.id in env:
        return env[e.id]
    if isinstance(e, ast.Attribute) and ast.unparse(e) in KNOWN:
        return KNOWN[ast.unparse(e)]
    if isinstance(e, ast.BinOp) and isinstance(e.op, ast.Add):
        return ev(e.left, env) + ev(e.right, env)
    fail(e, 'alphabet expression ' + ast.unparse(e))


def cstr(s):
    return '[' + ';'.join(str(ord(c)) for c in s) + ']%N'


def translate(repo, outdir):
    path = os.path.join(repo, 'src/python_minifier/rename/name_generator.py')
    tree = ast.parse(open(path).read())
    fns = {n.name: n for n in tree.body if isinstance(n, ast.FunctionDef)}
    for need in ('name_generator', 'name_filter'):
        if need not in fns:
            raise Untranslatable('name_generator.py: %s not found' % need)
    g = fns['name_generator']
    env = {}
    body = g.body
    if not (isinstance(body[0], ast.Assign) and isinstance(body[1], ast.Assign)):
        fail(g, 'expected the two alphabet assignments first')
    for st in body[:2]:
        env[st.targets[0].id] = ev(st.value, env)
    if set(env) != {'valid_first', 'valid_rest'}:
        fail(g, 'alphabet names')
    rest = ast.unparse(ast.Module(body=body[2:], type_ignores=[]))
    want = ("for c in valid_first:\n    yield c\nfor length in itertools.count(1):\n    for first in valid_first:\n        for rest in itertools.product(valid_rest, repeat=length):\n"
            "            name = first\n            name += ''.join(rest)\n            yield name")
    if rest != want:
        fail(g, 'enumeration order of name_generator changed')
    f = fns['name_filter']
    fb = [s for s in f.body if not (isinstance(s, ast.Expr) and isinstance(s.value, ast.Constant))]
    src = ast.unparse(ast.Module(body=fb, type_ignores=[]))
    want_f = "reserved = keyword.kwlist + dir(builtins)\nfor name in name_generator():\n    if name not in reserved:\n        yield name"
    if src != want_f:
        fail(f, 'name_filter changed')
    reserved = keyword.kwlist + dir(builtins)
    o = ['(* GENERATED on every run by /verif/translator/namegen.py from rename/name_generator.py and the interpreter tables it consults. Do not edit. *)',
         'From PM Require Import Model.Base.',
         'Definition valid_first : text := %s.' % cstr(env['valid_first']),
         'Definition valid_rest : text := %s.' % cstr(env['valid_rest']),
         '(* keyword.kwlist + dir(builtins) of the running interpreter *)',
         'Definition reserved_words : list text := [' + '; '.join(cstr(w) for w in reserved) + '].',
         '(* name_generator(): all one-character names, then for each length, first x product(rest) *)',
         'Definition names_len1 : list text := map (fun c => [c]) valid_first.',
         'Definition names_len2 : list text := flat_map (fun c => map (fun d => [c; d]) valid_rest) valid_first.',
         'Definition names_len3 : list text := flat_map (fun c => flat_map (fun d => map (fun e => [c; d; e]) valid_rest) valid_rest) valid_first.',
         '(* name_filter(): the same stream without reserved words (prefix of the infinite stream: lengths 1 and 2) *)',
         'Definition name_stream_prefix : list text := filter (fun n => negb (mem_text n reserved_words)) (names_len1 ++ names_len2).']
    text = '\n'.join(o) + '\n'
    p = os.path.join(outdir, 'NameGen.v')
    old = open(p).read() if os.path.exists(p) else None
    if old != text:
        open(p, 'w').write(text)
    return p


if __name__ == '__main__':
    print(translate(sys.argv[1] if len(sys.argv) > 1 else '/repo', sys.argv[2] if len(sys.argv) > 2 else '/verif/coq/Gen'))
