"""Translator: /repo/src/python_minifier/__main__.py (+ minify's signature in __init__.py) -> coq/Gen/Cli.v

Fail-closed compiler for the restricted Python subset in which parse_args (argparse table + validation),
source_modules, do_minify and main are written.  It reads the *source text* with Python's `ast`; nothing is imported.
Any construct outside the subset raises Untranslatable(file:line), which the harness reports as a broken tie.

Target: shallow Gallina over the hand-written primitives of coq/Model/CliBase.v.
 - args            : record generated from the argparse table (dest -> type from action)
 - options         : record generated from minify()'s signature
 - args_of         : argparse semantics for the boolean flags (store_true / store_false / defaults)
 - validate        : the `if cond: ...; sys.exit(n)` chain after parser.parse_args()
 - source_modules  : list of walk items
 - do_minify       : straight-line code, the call to minify becomes an application of the oracle `api`
 - main            : continuation-passing translation into a trace of effects
"""
import ast, sys, os


class Untranslatable(Exception):
    pass


def fail(node, why, fname='__main__.py'):
    raise Untranslatable('%s:%s: %s' % (fname, getattr(node, 'lineno', '?'), why))


def cstr(s):
    """Python str -> Gallina text literal"""
    if all(32 <= ord(c) < 127 and c not in '"' for c in s):
        return '(t "%s")' % s
    return '[' + '; '.join('%d%%N' % ord(c) for c in s) + ']'


# ------------------------------------------------------------------------------------------------ argparse table
def read_argparse(fn):
    """returns (entries, validation_stmts). entry = dict(flags, action, dest, default, nargs)"""
    entries = []
    body = fn.body
    i = 0
    parsers = set()
    post = None
    for i, st in enumerate(body):
        if isinstance(st, ast.Assign) and isinstance(st.value, ast.Call):
            f = st.value.func
            name = ast.unparse(f)
            if name == 'argparse.ArgumentParser' or name.endswith('.add_mutually_exclusive_group') or name.endswith('.add_argument_group'):
                parsers.add(st.targets[0].id)
                continue
            if name.endswith('.parse_args') and isinstance(f, ast.Attribute) and f.value.id in parsers:
                post = body[i + 1:]
                argsvar = st.targets[0].id
                break
            fail(st, 'unexpected assignment in parse_args')
        if isinstance(st, ast.Expr) and isinstance(st.value, ast.Call) and isinstance(st.value.func, ast.Attribute) \
                and st.value.func.attr == 'add_argument' and isinstance(st.value.func.value, ast.Name) and st.value.func.value.id in parsers:
            call = st.value
            flags = []
            for a in call.args:
                if not (isinstance(a, ast.Constant) and isinstance(a.value, str)):
                    fail(a, 'non-literal flag')
                flags.append(a.value)
            kw = {}
            for k in call.keywords:
                if k.arg in ('help', 'metavar', 'type', 'version'):
                    if k.arg == 'type' and ast.unparse(k.value) != 'str':
                        fail(k.value, 'argument type other than str')
                    continue
                if k.arg in ('action', 'dest', 'nargs'):
                    if not isinstance(k.value, ast.Constant):
                        fail(k.value, 'non-literal ' + k.arg)
                    kw[k.arg] = k.value.value
                elif k.arg == 'default':
                    if not isinstance(k.value, ast.Constant):
                        fail(k.value, 'non-literal default')
                    kw['default'] = k.value.value
                    kw['has_default'] = True
                else:
                    fail(k, 'unknown add_argument keyword ' + str(k.arg))
            kw['flags'] = flags
            kw['line'] = st.lineno
            entries.append(kw)
            continue
        fail(st, 'unexpected statement in parse_args')
    if post is None:
        fail(fn, 'parser.parse_args() not found')
    return entries, post, argsvar


def coq_ident(s):
    return s.replace('-', '_').lstrip('_')


class CliTranslator:
    def __init__(self, repo):
        self.repo = repo
        self.main_path = os.path.join(repo, 'src/python_minifier/__main__.py')
        self.init_path = os.path.join(repo, 'src/python_minifier/__init__.py')
        self.main_src = open(self.main_path).read()
        self.init_src = open(self.init_path).read()
        self.mod = ast.parse(self.main_src)
        self.fns = {n.name: n for n in self.mod.body if isinstance(n, ast.FunctionDef)}
        for need in ('main', 'parse_args', 'source_modules', 'do_minify', 'stdout_write_bytes'):
            if need not in self.fns:
                raise Untranslatable('__main__.py: function %s not found' % need)
        self.out = []
        self.field_types = {}

    # ---------------------------------------------------------------------------------------- API signature
    def api_signature(self):
        mod = ast.parse(self.init_src)
        fn = [n for n in mod.body if isinstance(n, ast.FunctionDef) and n.name == 'minify']
        if len(fn) != 1:
            raise Untranslatable('__init__.py: minify not found')
        fn = fn[0]
        a = fn.args
        if a.vararg or a.kwarg or a.kwonlyargs or a.posonlyargs:
            fail(fn, 'minify signature shape', '__init__.py')
        names = [x.arg for x in a.args]
        defaults = [None] * (len(names) - len(a.defaults)) + list(a.defaults)
        params = []
        for n, d in zip(names, defaults):
            if n in ('source', 'filename'):
                continue
            if isinstance(d, ast.Constant) and isinstance(d.value, bool):
                params.append((n, 'bool', 'true' if d.value else 'false'))
            elif isinstance(d, ast.Constant) and d.value is None and n.startswith('preserve_'):
                params.append((n, 'list text', '[]'))
            elif isinstance(d, ast.Call) and ast.unparse(d) == 'RemoveAnnotationsOptions()':
                params.append((n, 'annopts', 'annopts_default'))
            else:
                fail(fn, 'minify parameter %s has an unrecognised default' % n, '__init__.py')
        return params

    def annopts_signature(self):
        src = open(os.path.join(self.repo, 'src/python_minifier/transforms/remove_annotations_options.py')).read()
        mod = ast.parse(src)
        cls = [n for n in mod.body if isinstance(n, ast.ClassDef) and n.name == 'RemoveAnnotationsOptions'][0]
        init = [n for n in cls.body if isinstance(n, ast.FunctionDef) and n.name == '__init__'][0]
        names = [x.arg for x in init.args.args][1:]
        defaults = init.args.defaults
        if len(defaults) != len(names):
            fail(init, 'RemoveAnnotationsOptions.__init__ defaults', 'remove_annotations_options.py')
        res = []
        for n, d in zip(names, defaults):
            if not (isinstance(d, ast.Constant) and isinstance(d.value, bool)):
                fail(d, 'non-bool default', 'remove_annotations_options.py')
            res.append((n, 'true' if d.value else 'false'))
        # the constructor must store each parameter in the attribute of the same name
        stores = {}
        for st in init.body:
            if isinstance(st, ast.Assign) and isinstance(st.targets[0], ast.Attribute) and isinstance(st.value, ast.Name):
                stores[st.targets[0].attr] = st.value.id
            else:
                fail(st, 'unexpected statement in RemoveAnnotationsOptions.__init__', 'remove_annotations_options.py')
        if stores != {n: n for n in names}:
            fail(init, 'RemoveAnnotationsOptions.__init__ does not store parameters one-to-one', 'remove_annotations_options.py')
        return res

    # ---------------------------------------------------------------------------------------- expressions
    def expr(self, e, env):
        """returns (gallina, type). env: python local name -> (gallina name, type)"""
        if isinstance(e, ast.Constant):
            if isinstance(e.value, bool):
                return ('true' if e.value else 'false'), 'bool'
            if isinstance(e.value, str):
                return cstr(e.value), 'text'
            if isinstance(e.value, int):
                return str(e.value), 'nat'
            if e.value is None:
                return 'None', 'none'
            fail(e, 'constant')
        if isinstance(e, ast.Name):
            if e.id in env:
                return env[e.id]
            fail(e, 'unknown name ' + e.id)
        if isinstance(e, ast.Attribute):
            if isinstance(e.value, ast.Name) and e.value.id in env and env[e.value.id][1] == 'args':
                if e.attr not in self.field_types:
                    fail(e, 'args has no dest ' + e.attr)
                return '(a_%s %s)' % (e.attr, env[e.value.id][0]), self.field_types[e.attr]
            fail(e, 'attribute access')
        if isinstance(e, ast.BoolOp):
            parts = [self.truth(v, env) for v in e.values]
            op = ' && ' if isinstance(e.op, ast.And) else ' || '
            return '(' + op.join(parts) + ')', 'bool'
        if isinstance(e, ast.UnaryOp) and isinstance(e.op, ast.Not):
            return '(negb %s)' % self.truth(e.operand, env), 'bool'
        if isinstance(e, ast.Compare) and len(e.ops) == 1:
            op = e.ops[0]
            l, lt = self.expr(e.left, env)
            r, rt = self.expr(e.comparators[0], env)
            if isinstance(op, ast.In) and lt == 'text' and rt == 'list text':
                return '(mem_text %s %s)' % (l, r), 'bool'
            if isinstance(op, (ast.Eq, ast.NotEq)) and lt == rt == 'nat':
                s = '(Nat.eqb %s %s)' % (l, r)
                return (s if isinstance(op, ast.Eq) else '(negb %s)' % s), 'bool'
            if isinstance(op, (ast.Eq, ast.NotEq)) and lt == rt == 'text':
                s = '(text_eqb %s %s)' % (l, r)
                return (s if isinstance(op, ast.Eq) else '(negb %s)' % s), 'bool'
            if isinstance(op, ast.Gt) and lt == rt == 'nat':
                return '(Nat.ltb %s %s)' % (r, l), 'bool'
            if isinstance(op, ast.GtE) and lt == rt == 'nat':
                return '(Nat.leb %s %s)' % (r, l), 'bool'
            if isinstance(op, ast.Lt) and lt == rt == 'nat':
                return '(Nat.ltb %s %s)' % (l, r), 'bool'
            if isinstance(op, ast.LtE) and lt == rt == 'nat':
                return '(Nat.leb %s %s)' % (l, r), 'bool'
            if isinstance(op, ast.Is) and rt == 'bool' and lt == 'bool' and r == 'false':
                return '(is_False %s)' % l, 'bool'
            fail(e, 'comparison %s %s %s' % (lt, type(op).__name__, rt))
        if isinstance(e, ast.Subscript):
            v, vt = self.expr(e.value, env)
            if vt == 'list text' and isinstance(e.slice, ast.Constant) and e.slice.value == 0:
                return '(nth 0 %s [])' % v, 'text'
            fail(e, 'subscript')
        if isinstance(e, ast.BinOp) and isinstance(e.op, ast.Add):
            l, lt = self.expr(e.left, env)
            r, rt = self.expr(e.right, env)
            if lt == rt and lt in ('text', 'bytes'):
                return '(%s ++ %s)' % (l, r), lt
            fail(e, 'addition of %s and %s' % (lt, rt))
        if isinstance(e, ast.List) and not e.elts:
            return '[]', 'list text'
        if isinstance(e, ast.Tuple) and all(isinstance(x, ast.Constant) and isinstance(x.value, str) for x in e.elts):
            return '[' + '; '.join(cstr(x.value) for x in e.elts) + ']', 'list text'
        if isinstance(e, ast.ListComp) and len(e.generators) == 1 and not e.generators[0].is_async \
                and isinstance(e.generators[0].target, ast.Name):
            g = e.generators[0]
            it, itt = self.expr(g.iter, env)
            if itt != 'list text':
                fail(e, 'comprehension over ' + itt)
            v = g.target.id
            env2 = dict(env)
            env2[v] = (v, 'text')
            body, bt = self.expr(e.elt, env2)
            if bt != 'text':
                fail(e, 'comprehension element type ' + bt)
            src = it
            for c in g.ifs:
                src = '(filter (fun %s => %s) %s)' % (v, self.truth(c, env2), src)
            return '(map (fun %s => %s) %s)' % (v, body, src), 'list text'
        if isinstance(e, ast.Call):
            fn = ast.unparse(e.func)
            if fn == 'len' and len(e.args) == 1 and not e.keywords:
                v, vt = self.expr(e.args[0], env)
                if vt in ('list text', 'text', 'bytes'):
                    return '(length %s)' % v, 'nat'
                fail(e, 'len of ' + vt)
            if fn == 'os.path.isdir' and len(e.args) == 1:
                v, vt = self.expr(e.args[0], env)
                if vt != 'text':
                    fail(e, 'isdir of ' + vt)
                return '(fs_isdir fs %s)' % v, 'bool'
            if fn == 'os.path.join' and len(e.args) == 2:
                a, at = self.expr(e.args[0], env)
                b, bt = self.expr(e.args[1], env)
                if at == bt == 'text':
                    return '(path_join %s %s)' % (a, b), 'text'
            if fn == 'os.environ.get' and len(e.args) == 1 and isinstance(e.args[0], ast.Constant):
                self.env_vars.append(e.args[0].value)
                return 'env_force', 'option text'
            if isinstance(e.func, ast.Attribute):
                recv, rt = self.expr(e.func.value, env)
                m = e.func.attr
                if m == 'strip' and rt == 'text' and not e.args:
                    return '(strip %s)' % recv, 'text'
                if m == 'split' and rt == 'text' and len(e.args) == 1 and isinstance(e.args[0], ast.Constant) \
                        and isinstance(e.args[0].value, str) and len(e.args[0].value) == 1:
                    return '(split_on %d%%N %s)' % (ord(e.args[0].value), recv), 'list text'
                if m == 'encode' and rt == 'text' and len(e.args) == 1 and isinstance(e.args[0], ast.Constant) \
                        and e.args[0].value.lower().replace('_', '-') in ('utf-8', 'utf8'):
                    return '(utf8 %s)' % recv, 'bytes'
                if m == 'endswith' and rt == 'text' and len(e.args) == 1:
                    a, at = self.expr(e.args[0], env)
                    if at == 'list text':
                        return '(existsb (endswith %s) %s)' % (recv, a), 'bool'
                    if at == 'text':
                        return '(endswith %s %s)' % (recv, a), 'bool'
            if fn == 'RemoveAnnotationsOptions':
                kws = {k.arg: k.value for k in e.keywords}
                if e.args or None in kws:
                    fail(e, 'RemoveAnnotationsOptions call shape')
                fields = []
                for n, d in self.annopts:
                    if n in kws:
                        v, vt = self.expr(kws.pop(n), env)
                        if vt != 'bool':
                            fail(e, 'annotation option of type ' + vt)
                    else:
                        v = d
                    fields.append('ro_%s := %s' % (n, v))
                if kws:
                    fail(e, 'unknown RemoveAnnotationsOptions keyword')
                return '{| ' + '; '.join(fields) + ' |}', 'annopts'
            fail(e, 'call of ' + fn)
        fail(e, 'expression ' + type(e).__name__)

    def truth(self, e, env):
        v, t = self.expr(e, env)
        if t == 'bool':
            return v
        if t in ('text', 'bytes', 'list text', 'option text', 'option (list text)'):
            return '(truthy %s)' % v
        fail(e, 'truthiness of ' + t)

    # ---------------------------------------------------------------------------------------- parse_args
    def gen_args(self):
        entries, post, argsvar = read_argparse(self.fns['parse_args'])
        self.entries = entries
        fields = []
        flags = []
        for en in entries:
            action = en.get('action', 'store')
            if action == 'version':
                continue
            if not en['flags'][0].startswith('-'):
                dest = en['flags'][0]
                if en.get('nargs') != '+':
                    fail(self.fns['parse_args'], 'positional without nargs=+')
                ty = 'list text'
            else:
                dest = en.get('dest')
                if dest is None:
                    fail(self.fns['parse_args'], 'option without dest (line %d)' % en['line'])
                if action in ('store_true', 'store_false'):
                    ty = 'bool'
                elif action == 'store':
                    ty = 'option text'
                elif action == 'append':
                    ty = 'option (list text)'
                else:
                    fail(self.fns['parse_args'], 'action ' + action)
            if dest in self.field_types:
                fail(self.fns['parse_args'], 'duplicate dest ' + dest)
            self.field_types[dest] = ty
            fields.append((dest, ty, en))
            if ty == 'bool':
                flags.append(en)
        o = self.out
        o.append('(* ---- argparse table (parse_args) ---- *)')
        o.append('Inductive flag :=')
        for en in flags:
            o.append('| F_%s    (* %s, action=%s, dest=%s, line %d *)' % (coq_ident(en['flags'][0]), ' '.join(en['flags']), en['action'], en['dest'], en['line']))
        o[-1] = o[-1]
        o.append('.')
        o.append('Definition all_flags : list flag := [' + '; '.join('F_' + coq_ident(en['flags'][0]) for en in flags) + '].')
        o.append('Definition flag_spelling (f : flag) : text := match f with')
        for en in flags:
            o.append('  | F_%s => %s' % (coq_ident(en['flags'][0]), cstr(en['flags'][0])))
        o.append('  end.')
        o.append('Record args := {')
        o.append(';\n'.join('  a_%s : %s' % (d, ty) for d, ty, _ in fields))
        o.append('}.')
        o.append('(* argparse semantics: store_true -> the flag was given; store_false -> it was not; store/append -> as given *)')
        o.append('Definition args_of (F : flag -> bool) (path : list text) (output : option text) '
                 '(preserve_locals preserve_globals : option (list text)) : args := {|')
        parts = []
        for d, ty, en in fields:
            if ty == 'bool':
                f = 'F F_' + coq_ident(en['flags'][0])
                if en['action'] == 'store_true':
                    if en.get('has_default') and en['default'] is not False:
                        fail(self.fns['parse_args'], 'store_true with default %r' % en['default'])
                    parts.append('  a_%s := %s' % (d, f))
                else:
                    if en.get('has_default') and en['default'] is not True:
                        fail(self.fns['parse_args'], 'store_false with default %r' % en['default'])
                    parts.append('  a_%s := negb (%s)' % (d, f))
            elif d == 'path':
                parts.append('  a_path := path')
            elif d in ('output', 'preserve_locals', 'preserve_globals'):
                if en.get('has_default'):
                    fail(self.fns['parse_args'], 'default on ' + d)
                parts.append('  a_%s := %s' % (d, d))
            else:
                fail(self.fns['parse_args'], 'unexpected non-boolean dest ' + d)
        o.append(';\n'.join(parts))
        o.append('|}.')
        # mutually exclusive group: --output / --in-place
        o.append('')
        # validation chain
        env = {argsvar: ('a', 'args')}
        o.append('(* ---- validation after parser.parse_args(): first matching rule exits with its code ---- *)')
        o.append('Definition validate (fs : fsys) (a : args) : option Z :=')
        n = 0
        for st in post:
            if isinstance(st, ast.Return):
                if not (isinstance(st.value, ast.Name) and st.value.id == argsvar):
                    fail(st, 'parse_args must return the namespace')
                break
            if isinstance(st, ast.If) and not st.orelse:
                code = None
                for b in st.body:
                    if isinstance(b, ast.Expr) and ast.unparse(b.value.func) == 'sys.stderr.write':
                        continue
                    if isinstance(b, ast.Expr) and ast.unparse(b.value.func) == 'sys.exit' and len(b.value.args) == 1 \
                            and isinstance(b.value.args[0], ast.Constant) and isinstance(b.value.args[0].value, int):
                        code = b.value.args[0].value
                        continue
                    fail(b, 'statement in a validation rule')
                if code is None:
                    fail(st, 'validation rule without sys.exit')
                o.append('  if %s then Some %d%%Z else   (* line %d *)' % (self.truth(st.test, env), code, st.lineno))
                n += 1
                continue
            fail(st, 'statement after parse_args()')
        else:
            fail(self.fns['parse_args'], 'no return')
        o.append('  None.')
        o.append('Definition n_validation_rules : nat := %d.' % n)
        # argparse's own rejection: mutually exclusive group
        groups = self.mutex_groups()
        o.append('(* mutually exclusive groups declared with add_mutually_exclusive_group (argparse exits with code 2) *)')
        o.append('Definition mutex_groups : list (list text) := [' + '; '.join('[' + '; '.join(cstr(x) for x in g) + ']' for g in groups) + '].')

    def mutex_groups(self):
        fn = self.fns['parse_args']
        groups = {}
        for st in fn.body:
            if isinstance(st, ast.Assign) and isinstance(st.value, ast.Call) and ast.unparse(st.value.func).endswith('.add_mutually_exclusive_group'):
                groups[st.targets[0].id] = []
            if isinstance(st, ast.Expr) and isinstance(st.value, ast.Call) and isinstance(st.value.func, ast.Attribute) \
                    and st.value.func.attr == 'add_argument' and st.value.func.value.id in groups:
                groups[st.value.func.value.id].append(st.value.args[0].value)
        return list(groups.values())

    # ---------------------------------------------------------------------------------------- options / do_minify
    def gen_options(self):
        o = self.out
        self.annopts = self.annopts_signature()
        self.api_params = self.api_signature()
        o.append('(* ---- RemoveAnnotationsOptions.__init__ and minify() signatures ---- *)')
        o.append('Record annopts := { ' + '; '.join('ro_%s : bool' % n for n, _ in self.annopts) + ' }.')
        o.append('Definition annopts_default : annopts := {| ' + '; '.join('ro_%s := %s' % (n, d) for n, d in self.annopts) + ' |}.')
        o.append('Record options := {')
        o.append(';\n'.join('  o_%s : %s' % (n, ty) for n, ty, _ in self.api_params))
        o.append('}.')
        o.append('Definition options_default : options := {|')
        o.append(';\n'.join('  o_%s := %s' % (n, d) for n, _, d in self.api_params))
        o.append('|}.')
        o.append('Definition api_t := bytes -> text -> options -> api_result.')
        o.append('Definition list_text_eqb (a b : list text) : bool := Nat.eqb (length a) (length b) && forallb (fun xy => text_eqb (fst xy) (snd xy)) (combine a b).')
        o.append('Definition annopts_eqb (x y : annopts) : bool := ' + ' && '.join('Bool.eqb (ro_%s x) (ro_%s y)' % (n, n) for n, _ in self.annopts) + '.')
        parts = []
        for n, ty, _ in self.api_params:
            f = {'bool': 'Bool.eqb', 'list text': 'list_text_eqb', 'annopts': 'annopts_eqb'}[ty]
            parts.append('%s (o_%s x) (o_%s y)' % (f, n, n))
        o.append('Definition options_eqb (x y : options) : bool := ' + ' && '.join(parts) + '.')

    def gen_do_minify(self):
        fn = self.fns['do_minify']
        params = [a.arg for a in fn.args.args]
        if len(params) != 3:
            fail(fn, 'do_minify parameters')
        env = {params[0]: ('source', 'bytes'), params[1]: ('filename', 'text'), params[2]: ('a', 'args')}
        self.env_vars = []
        o = self.out
        o.append('(* ---- do_minify ---- *)')
        o.append('Definition do_minify (api : api_t) (env_force : option text) (source : bytes) (filename : text) (a : args) : dm_result :=')
        body = [s for s in fn.body if not (isinstance(s, ast.Expr) and isinstance(s.value, ast.Constant) and isinstance(s.value.value, str))]
        o.append(self.dm_stmts(body, env, 1))
        o[-1] += '.'
        if self.env_vars != ['PYMINIFY_FORCE_BEST_EFFORT']:
            fail(fn, 'environment variables consulted: %r' % self.env_vars)
        o.append('Definition env_var_consulted : text := %s.' % cstr(self.env_vars[0]))

    def mutated(self, stmts):
        m = set()
        for st in stmts:
            for n in ast.walk(st):
                if isinstance(n, ast.Assign):
                    for tg in n.targets:
                        if isinstance(tg, ast.Name):
                            m.add(tg.id)
                if isinstance(n, ast.Call) and isinstance(n.func, ast.Attribute) and n.func.attr in ('extend', 'append') and isinstance(n.func.value, ast.Name):
                    m.add(n.func.value.id)
        return m

    def dm_stmts(self, stmts, env, ind, tail=None):
        """straight-line translation; `tail` (python var) is the value of the block when it has no return (for loop/if bodies)"""
        pad = '  ' * ind
        if not stmts:
            if tail is None:
                raise Untranslatable('do_minify: falls off the end')
            return pad + env[tail][0]
        st, rest = stmts[0], stmts[1:]
        if isinstance(st, ast.Assign) and len(st.targets) == 1 and isinstance(st.targets[0], ast.Name):
            name = st.targets[0].id
            if isinstance(st.value, ast.Call) and ast.unparse(st.value.func) == 'minify':
                call = st.value
                if len(call.args) != 1 or env.get(getattr(call.args[0], 'id', None), (None, None))[1] != 'bytes':
                    fail(st, 'minify must be called with the source bytes as its only positional argument')
                kws = {}
                for k in call.keywords:
                    if k.arg is None or k.arg in kws:
                        fail(st, 'minify call keywords')
                    kws[k.arg] = k.value
                fname = kws.pop('filename', None)
                fn_g = self.expr(fname, env)[0] if fname is not None else '(t "python_minifier.minify source")'
                fields = []
                self.forwarded = []
                for n, ty, d in self.api_params:
                    if n in kws:
                        v, vt = self.expr(kws.pop(n), env)
                        if vt != ty:
                            fail(st, 'minify keyword %s gets a value of type %s' % (n, vt))
                        self.forwarded.append(n)
                    else:
                        v = d
                    fields.append('o_%s := %s' % (n, v))
                if kws:
                    fail(st, 'minify called with unknown keywords %r' % sorted(kws))
                env2 = dict(env)
                env2[name] = (name, 'text')
                return (pad + 'match api %s %s {| %s |} with\n' % (env[call.args[0].id][0], fn_g, ('; ').join(fields)) +
                        pad + '| ApiRaise e => DmRaise (ApiError e)\n' +
                        pad + '| ApiOk %s =>\n' % name + self.dm_stmts(rest, env2, ind + 1, tail) + '\n' + pad + 'end')
            v, vt = self.expr(st.value, env)
            env2 = dict(env)
            env2[name] = (name, vt)
            return pad + 'let %s := %s in\n' % (name, v) + self.dm_stmts(rest, env2, ind, tail)
        if isinstance(st, ast.Expr) and isinstance(st.value, ast.Call) and isinstance(st.value.func, ast.Attribute) \
                and st.value.func.attr == 'extend' and isinstance(st.value.func.value, ast.Name) and len(st.value.args) == 1:
            x = st.value.func.value.id
            if x not in env or env[x][1] != 'list text':
                fail(st, 'extend on ' + x)
            v, vt = self.expr(st.value.args[0], env)
            if vt != 'list text':
                fail(st, 'extend with ' + vt)
            return pad + 'let %s := %s ++ %s in\n' % (env[x][0], env[x][0], v) + self.dm_stmts(rest, env, ind, tail)
        if isinstance(st, ast.For) and not st.orelse and isinstance(st.target, ast.Name):
            it, itt = self.expr(st.iter, env)
            if itt == 'option (list text)':
                it, itt = '(opt_get %s)' % it, 'list text'
            if itt != 'list text':
                fail(st, 'for over ' + itt)
            mut = sorted(self.mutated(st.body) & set(env))
            if len(mut) != 1:
                fail(st, 'loop must update exactly one outer variable, updates %r' % mut)
            x = mut[0]
            env2 = dict(env)
            env2[st.target.id] = (st.target.id, 'text')
            body = self.dm_stmts(st.body, env2, ind + 2, tail=x)
            return (pad + 'let %s := fold_left (fun %s %s =>\n%s) %s %s in\n' % (env[x][0], env[x][0], st.target.id, body, it, env[x][0])
                    + self.dm_stmts(rest, env, ind, tail))
        if isinstance(st, ast.If):
            c = self.truth(st.test, env)
            ends = lambda b: isinstance(b[-1], (ast.Return, ast.Raise))
            if st.orelse and not ends(st.body) and not ends(st.orelse):
                ma, mb = self.mutated(st.body), self.mutated(st.orelse)
                if ma != mb or len(ma) != 1:
                    fail(st, 'if/else must assign the same single variable in both branches')
                x = list(ma)[0]
                if not (len(st.body) == 1 and len(st.orelse) == 1 and isinstance(st.body[0], ast.Assign) and isinstance(st.orelse[0], ast.Assign)):
                    fail(st, 'if/else branches must be single assignments')
                va, ta = self.expr(st.body[0].value, env)
                vb, tb = self.expr(st.orelse[0].value, env)
                if ta != tb:
                    fail(st, 'branch types differ')
                env2 = dict(env)
                env2[x] = (x, ta)
                return pad + 'let %s := if %s then %s else %s in\n' % (x, c, va, vb) + self.dm_stmts(rest, env2, ind, tail)
            if not st.orelse and ends(st.body):
                return (pad + 'if %s then\n' % c + self.dm_stmts(st.body, env, ind + 1, tail) + '\n' + pad + 'else\n' +
                        self.dm_stmts(rest, env, ind + 1, tail))
            if not st.orelse:
                mut = sorted(self.mutated(st.body) & set(env))
                if len(mut) != 1:
                    fail(st, 'if without else must update exactly one outer variable, updates %r' % mut)
                x = mut[0]
                body = self.dm_stmts(st.body, env, ind + 2, tail=x)
                return (pad + 'let %s := if %s then\n%s\n%s  else %s in\n' % (env[x][0], c, body, pad, env[x][0])
                        + self.dm_stmts(rest, env, ind, tail))
            fail(st, 'if shape')
        if isinstance(st, ast.Return):
            if rest:
                fail(st, 'code after return')
            v, vt = self.expr(st.value, env)
            if vt != 'bytes':
                fail(st, 'do_minify returns ' + vt)
            return pad + 'DmOk %s' % v
        if isinstance(st, ast.Raise):
            if rest:
                fail(st, 'code after raise')
            if isinstance(st.exc, ast.Call) and ast.unparse(st.exc.func) == 'MinificationNotBeneficialError':
                return pad + 'DmNotBeneficial'
            fail(st, 'raise')
        fail(st, 'statement ' + type(st).__name__)

    # ---------------------------------------------------------------------------------------- source_modules
    def gen_source_modules(self):
        fn = self.fns['source_modules']
        o = self.out
        body = fn.body
        # expected: def error(e): raise e ; for path_arg in args.path: if isdir: for root,_dirs,files in os.walk(path_arg, onerror=error, followlinks=True): for file in files: if cond: yield join
        if not (len(body) == 2 and isinstance(body[0], ast.FunctionDef) and len(body[0].body) == 1 and isinstance(body[0].body[0], ast.Raise)
                and isinstance(body[0].body[0].exc, ast.Name) and body[0].body[0].exc.id == body[0].args.args[0].arg):
            fail(fn, 'source_modules: expected a re-raising onerror helper followed by one loop')
        errname = body[0].name
        loop = body[1]
        argsname = fn.args.args[0].arg
        env = {argsname: ('a', 'args')}
        if not (isinstance(loop, ast.For) and isinstance(loop.target, ast.Name) and not loop.orelse):
            fail(loop, 'outer loop')
        it, itt = self.expr(loop.iter, env)
        if itt != 'list text':
            fail(loop, 'outer loop iterates ' + itt)
        pa = loop.target.id
        env[pa] = (pa, 'text')
        if not (len(loop.body) == 1 and isinstance(loop.body[0], ast.If) and len(loop.body[0].orelse) == 1 and len(loop.body[0].body) == 1):
            fail(loop, 'outer loop body')
        iff = loop.body[0]
        cond = self.truth(iff.test, env)
        els = iff.orelse[0]
        if not (isinstance(els, ast.Expr) and isinstance(els.value, ast.Yield) and isinstance(els.value.value, ast.Name) and els.value.value.id == pa):
            fail(els, 'non-directory branch must yield the path argument')
        walk = iff.body[0]
        if not (isinstance(walk, ast.For) and isinstance(walk.iter, ast.Call) and ast.unparse(walk.iter.func) == 'os.walk' and not walk.orelse):
            fail(walk, 'directory branch must loop over os.walk')
        wk = {k.arg: k.value for k in walk.iter.keywords}
        if not (len(walk.iter.args) == 1 and isinstance(walk.iter.args[0], ast.Name) and walk.iter.args[0].id == pa
                and set(wk) == {'onerror', 'followlinks'} and isinstance(wk['onerror'], ast.Name) and wk['onerror'].id == errname
                and isinstance(wk['followlinks'], ast.Constant) and wk['followlinks'].value is True):
            fail(walk, 'os.walk(path_arg, onerror=<re-raise>, followlinks=True) expected')
        if not (isinstance(walk.target, ast.Tuple) and len(walk.target.elts) == 3 and all(isinstance(x, ast.Name) for x in walk.target.elts)):
            fail(walk, 'os.walk target')
        root, _d, files = [x.id for x in walk.target.elts]
        env2 = dict(env)
        env2[root] = (root, 'text')
        env2[files] = (files, 'list text')
        if not (len(walk.body) == 1 and isinstance(walk.body[0], ast.For) and isinstance(walk.body[0].target, ast.Name)
                and isinstance(walk.body[0].iter, ast.Name) and walk.body[0].iter.id == files and not walk.body[0].orelse):
            fail(walk, 'inner loop over files')
        inner = walk.body[0]
        f = inner.target.id
        env3 = dict(env2)
        env3[f] = (f, 'text')
        if not (len(inner.body) == 1 and isinstance(inner.body[0], ast.If) and not inner.body[0].orelse and len(inner.body[0].body) == 1
                and isinstance(inner.body[0].body[0], ast.Expr) and isinstance(inner.body[0].body[0].value, ast.Yield)):
            fail(inner, 'inner loop body must be `if cond: yield expr`')
        fcond = self.truth(inner.body[0].test, env3)
        yv, yt = self.expr(inner.body[0].body[0].value.value, env3)
        if yt != 'text':
            fail(inner, 'yield type')
        o.append('(* ---- source_modules (a generator: items are produced lazily, an os.walk error surfaces where it occurs) ---- *)')
        o.append('Definition walk_dir (fs : fsys) (%s : text) : list walk_item :=' % pa)
        o.append('  flat_map (fun d => match d with')
        o.append('    | inl (%s, %s) => map (fun %s => WPath %s) (filter (fun %s => %s) %s)' % (root, files, f, yv, f, fcond, files))
        o.append('    | inr _ => [WErr] end) (fs_walk fs %s).' % pa)
        o.append('Definition source_modules (fs : fsys) (a : args) : list walk_item :=')
        o.append('  flat_map (fun %s => if %s then walk_dir fs %s else [WPath %s]) %s.' % (pa, cond, pa, pa, it))

    # ---------------------------------------------------------------------------------------- main (CPS)
    def gen_main(self):
        fn = self.fns['main']
        body = [s for s in fn.body if not (isinstance(s, ast.Expr) and isinstance(s.value, ast.Constant))]
        if not (isinstance(body[0], ast.Assign) and ast.unparse(body[0].value) == 'parse_args()'):
            fail(fn, 'main must start with args = parse_args()')
        env = {body[0].targets[0].id: ('a', 'args')}
        # stdout_write_bytes must write its argument to sys.stdout.buffer (py3 arm)
        sw = self.fns['stdout_write_bytes']
        ok = False
        for n in ast.walk(sw):
            if isinstance(n, ast.Call) and ast.unparse(n.func) == 'sys.stdout.buffer.write' and len(n.args) == 1 \
                    and isinstance(n.args[0], ast.Name) and n.args[0].id == sw.args.args[0].arg:
                ok = True
        if not ok:
            fail(sw, 'stdout_write_bytes does not write its argument to sys.stdout.buffer')
        o = self.out
        o.append('(* ---- main: continuation-passing translation; the value is the trace of effects and the final status ---- *)')
        o.append('Definition main (api : api_t) (fs : fsys) (env_force : option text) (stdin : bytes) (a : args) : trace :=')
        o.append(self.cps(body[1:], env, 1, knorm='([], Done)', kcont=None) + '.')
        o.append('(* `args = parse_args()` is the first statement of main: validation (sys.exit) precedes everything else *)')
        o.append('Definition cli (api : api_t) (fs : fsys) (env_force : option text) (stdin : bytes) (a : args) : trace :=')
        o.append('  match validate fs a with Some code => ([], Exit code) | None => main api fs env_force stdin a end.')

    def cps(self, stmts, env, ind, knorm, kcont):
        pad = '  ' * ind
        if not stmts:
            return pad + knorm
        st, rest = stmts[0], stmts[1:]
        R = lambda e=env: self.cps(rest, e, ind + 1, knorm, kcont)
        if isinstance(st, ast.Pass):
            return self.cps(rest, env, ind, knorm, kcont)
        if isinstance(st, ast.Return) and st.value is None:
            return pad + '([], Done)'
        if isinstance(st, ast.Continue):
            if kcont is None:
                fail(st, 'continue outside loop')
            return pad + kcont
        if isinstance(st, ast.If):
            c = self.truth(st.test, env)
            return (pad + 'if %s then\n' % c + self.cps(list(st.body) + rest, env, ind + 1, knorm, kcont) + '\n' + pad + 'else\n' +
                    self.cps(list(st.orelse) + rest, env, ind + 1, knorm, kcont))
        if isinstance(st, ast.Assign) and len(st.targets) == 1 and isinstance(st.targets[0], ast.Name):
            name = st.targets[0].id
            src = ast.unparse(st.value)
            if src in ('sys.stdin.buffer.read() if sys.version_info >= (3, 0) else sys.stdin.read()', 'sys.stdin.buffer.read()'):
                env2 = dict(env)
                env2[name] = ('stdin', 'bytes')
                return self.cps(rest, env2, ind, knorm, kcont)
            fail(st, 'assignment in main')
        if isinstance(st, ast.Expr) and isinstance(st.value, ast.Call):
            fn = ast.unparse(st.value.func)
            if fn == 'sys.stdout.write' and len(st.value.args) == 1:
                v, vt = self.expr(st.value.args[0], env)
                if vt != 'text':
                    fail(st, 'sys.stdout.write of ' + vt)
                return pad + 'emit (EOutT %s) (\n' % v + R() + ')'
            if fn == 'stdout_write_bytes' and len(st.value.args) == 1:
                v, vt = self.expr(st.value.args[0], env)
                if vt != 'bytes':
                    fail(st, 'stdout_write_bytes of ' + vt)
                return pad + 'emit (EOutB %s) (\n' % v + R() + ')'
            fail(st, 'call statement ' + fn)
        if isinstance(st, ast.With) and len(st.items) == 1 and isinstance(st.items[0].context_expr, ast.Call) \
                and ast.unparse(st.items[0].context_expr.func) == 'open' and isinstance(st.items[0].optional_vars, ast.Name):
            call = st.items[0].context_expr
            f = st.items[0].optional_vars.id
            if len(call.args) != 2 or call.keywords or not isinstance(call.args[1], ast.Constant):
                fail(st, 'open() shape')
            p, pt = self.expr(call.args[0], env)
            if pt == 'option text':
                p = '(opt_get %s)' % p
            elif pt != 'text':
                fail(st, 'open of ' + pt)
            mode = call.args[1].value
            if len(st.body) != 1:
                fail(st, 'with body')
            b = st.body[0]
            if mode == 'rb' and isinstance(b, ast.Assign) and ast.unparse(b.value) == f + '.read()' and isinstance(b.targets[0], ast.Name):
                name = b.targets[0].id
                env2 = dict(env)
                env2[name] = (name, 'bytes')
                return (pad + 'match fs_read fs %s with\n' % p + pad + '| None => ([], Raised OSError)\n' + pad + '| Some %s => emit (ERead %s) (\n' % (name, p)
                        + self.cps(rest, env2, ind + 1, knorm, kcont) + ')\n' + pad + 'end')
            if mode == 'wb' and isinstance(b, ast.Expr) and isinstance(b.value, ast.Call) and ast.unparse(b.value.func) == f + '.write' and len(b.value.args) == 1:
                v, vt = self.expr(b.value.args[0], env)
                if vt != 'bytes':
                    fail(st, 'write of ' + vt)
                return pad + 'emit (EWrite %s %s) (\n' % (p, v) + R() + ')'
            fail(st, 'with open(...) body')
        if isinstance(st, ast.Try) and not st.finalbody and not st.orelse and len(st.handlers) == 1 and len(st.body) == 1:
            h = st.handlers[0]
            b = st.body[0]
            if not (isinstance(h.type, ast.Name) and h.type.id == 'MinificationNotBeneficialError' and h.name is None):
                fail(st, 'except clause')
            if not (isinstance(b, ast.Assign) and isinstance(b.value, ast.Call) and ast.unparse(b.value.func) == 'do_minify'
                    and len(b.value.args) == 3 and not b.value.keywords and isinstance(b.targets[0], ast.Name)):
                fail(st, 'try body must be `x = do_minify(source, name, args)`')
            a0, t0 = self.expr(b.value.args[0], env)
            a1, t1 = self.expr(b.value.args[1], env)
            a2, t2 = self.expr(b.value.args[2], env)
            if (t0, t1, t2) != ('bytes', 'text', 'args'):
                fail(st, 'do_minify argument types %r' % ((t0, t1, t2),))
            name = b.targets[0].id
            env2 = dict(env)
            env2[name] = (name, 'bytes')
            return (pad + 'match do_minify api env_force %s %s %s with\n' % (a0, a1, a2) +
                    pad + '| DmRaise e => ([], Raised e)\n' +
                    pad + '| DmNotBeneficial =>\n' + self.cps(list(h.body) + rest, env, ind + 1, knorm, kcont) + '\n' +
                    pad + '| DmOk %s =>\n' % name + self.cps(rest, env2, ind + 1, knorm, kcont) + '\n' + pad + 'end')
        if isinstance(st, ast.For) and not st.orelse and isinstance(st.target, ast.Name) and isinstance(st.iter, ast.Call) \
                and ast.unparse(st.iter.func) == 'source_modules' and len(st.iter.args) == 1 and self.expr(st.iter.args[0], env)[1] == 'args':
            if kcont is not None:
                fail(st, 'nested loop in main')
            v = st.target.id
            env2 = dict(env)
            env2[v] = (v, 'text')
            after = self.cps(rest, env, ind + 3, knorm, kcont)
            body = self.cps(list(st.body), env2, ind + 3, knorm='(main_loop rest_items)', kcont='(main_loop rest_items)')
            return (pad + '(fix main_loop (items : list walk_item) : trace :=\n' + pad + '   match items with\n' +
                    pad + '   | [] =>\n' + after + '\n' +
                    pad + '   | WErr :: _ => ([], Raised OSError)\n' +
                    pad + '   | WPath %s :: rest_items =>\n' % v + body + '\n' +
                    pad + '   end) (source_modules fs %s)' % self.expr(st.iter.args[0], env)[0])
        fail(st, 'statement %s in main' % type(st).__name__)

    # ---------------------------------------------------------------------------------------- driver
    def run(self):
        o = self.out
        o.append('(* GENERATED on every run by /verif/translator/cli.py from /repo/src/python_minifier/__main__.py,')
        o.append('   __init__.py (minify signature) and transforms/remove_annotations_options.py.  Do not edit. *)')
        o.append('From Coq Require Import String.')
        o.append('From PM Require Import Model.CliBase.')
        o.append('Open Scope bool_scope.')
        o.append('')
        self.annopts = self.annopts_signature()
        self.gen_args()
        o.append('')
        self.gen_options()
        o.append('')
        self.gen_do_minify()
        o.append('Definition forwarded_keywords : list text := [' + '; '.join(cstr(x) for x in self.forwarded) + '].')
        o.append('Definition api_option_parameters : list text := [' + '; '.join(cstr(n) for n, _, _ in self.api_params) + '].')
        o.append('')
        self.gen_source_modules()
        o.append('')
        self.gen_main()
        return '\n'.join(o) + '\n'


def translate(repo, outdir):
    text = CliTranslator(repo).run()
    path = os.path.join(outdir, 'Cli.v')
    old = open(path).read() if os.path.exists(path) else None
    if old != text:
        open(path, 'w').write(text)
    return path


if __name__ == '__main__':
    print(translate(sys.argv[1] if len(sys.argv) > 1 else '/repo', sys.argv[2] if len(sys.argv) > 2 else '/verif/coq/Gen'))
