"""Translator: /repo/src/python_minifier/expression_printer.py -> coq/Gen/PrecTable.v
Reads the `precedences` dict of ExpressionPrinter.__init__ and the numeric constants / associativity used by
_lhs, _rhs, visit_UnaryOp (fail-closed if their shape changes)."""
import ast, os, sys


class Untranslatable(Exception):
    pass


def fail(node, why):
    raise Untranslatable('expression_printer.py:%s: %s' % (getattr(node, 'lineno', '?'), why))


BINOPS = ['Add', 'Sub', 'Mult', 'MatMult', 'Div', 'Mod', 'Pow', 'LShift', 'RShift', 'BitOr', 'BitXor', 'BitAnd', 'FloorDiv']
UNOPS = ['UAdd', 'USub', 'Invert', 'Not']
BOOLOPS = ['And', 'Or']
CMPOPS = ['Eq', 'NotEq', 'Lt', 'LtE', 'Gt', 'GtE', 'Is', 'IsNot', 'In', 'NotIn']
OTHER = ['Lambda', 'IfExp', 'comprehension', 'Await', 'Subscript', 'Call', 'Attribute', 'Tuple', 'Set', 'List', 'Dict', 'ListComp', 'SetComp', 'DictComp', 'GeneratorExp']

LHS = """left_precedence = self.precedence(left_node)
op_precedence = self.precedence(op_node)
if left_precedence != 0 and (op_precedence > left_precedence or (op_precedence == left_precedence and self._is_right_associative(op_node))):
    self.printer.delimiter('(')
    self._expression(left_node)
    self.printer.delimiter(')')
else:
    self._expression(left_node)"""
RHS = """right_precedence = self.precedence(right_node)
op_precedence = self.precedence(op_node)
if isinstance(op_node, ast.Pow) and right_precedence == %d:
    op_precedence = right_precedence
if right_precedence != 0 and (op_precedence > right_precedence or (op_precedence == right_precedence and self._is_left_associative(op_node))):
    self.printer.delimiter('(')
    self._expression(right_node)
    self.printer.delimiter(')')
else:
    self._expression(right_node)"""
UNARY_TAIL = """right_precedence = self.precedence(node.operand)
op_precedence = self.precedence(node)
if right_precedence != 0 and op_precedence > right_precedence:
    self.printer.delimiter('(')
    self._expression(node.operand)
    self.printer.delimiter(')')
else:
    self._expression(node.operand)"""


def body_src(fn):
    return ast.unparse(ast.Module(body=[s for s in fn.body if not (isinstance(s, ast.Expr) and isinstance(s.value, ast.Constant))], type_ignores=[]))


def translate(repo, outdir):
    path = os.path.join(repo, 'src/python_minifier/expression_printer.py')
    tree = ast.parse(open(path).read())
    cls = [n for n in tree.body if isinstance(n, ast.ClassDef) and n.name == 'ExpressionPrinter']
    if not cls:
        raise Untranslatable('expression_printer.py: ExpressionPrinter not found')
    fns = {n.name: n for n in cls[0].body if isinstance(n, ast.FunctionDef)}
    init = fns['__init__']
    table = None
    for st in init.body:
        if isinstance(st, ast.Assign) and ast.unparse(st.targets[0]) == 'self.precedences' and isinstance(st.value, ast.Dict):
            table = {}
            for k, v in zip(st.value.keys, st.value.values):
                if not (isinstance(k, ast.Constant) and isinstance(v, ast.Constant) and isinstance(v.value, (int, float))):
                    fail(st, 'non-literal precedence entry')
                table[k.value] = v.value
    if table is None:
        fail(init, 'precedences dict not found')
    want = set(BINOPS + UNOPS + BOOLOPS + CMPOPS + OTHER)
    if set(table) != want:
        fail(init, 'precedence keys changed: extra %s missing %s' % (sorted(set(table) - want), sorted(want - set(table))))
    # associativity helpers
    if body_src(fns['_is_right_associative']) != 'return isinstance(operator, ast.Pow)' or body_src(fns['_is_left_associative']) != 'return not isinstance(operator, ast.Pow)':
        fail(fns['_is_right_associative'], 'associativity helpers changed')
    if body_src(fns['_lhs']) != LHS:
        fail(fns['_lhs'], '_lhs changed shape')
    rhs = body_src(fns['_rhs'])
    special = None
    for k in range(0, 30):
        if rhs == RHS % k:
            special = k
    if special is None:
        fail(fns['_rhs'], '_rhs changed shape')
    un = body_src(fns['visit_UnaryOp'])
    if not un.endswith(UNARY_TAIL) or not un.startswith('self.visit(node.op)\nif sys.version_info < (3, 0)'):
        fail(fns['visit_UnaryOp'], 'visit_UnaryOp changed shape')
    if body_src(fns['visit_BinOp']) != 'self._lhs(node.left, node.op)\nself.visit(node.op)\nself._rhs(node.right, node.op)':
        fail(fns['visit_BinOp'], 'visit_BinOp changed shape')
    # scaled by 2 so that 3.5 is an integer
    sc = lambda v: int(round(v * 2))
    o = ['(* GENERATED on every run by /verif/translator/prectable.py from expression_printer.py. Do not edit.',
         '   All precedences are multiplied by 2 (so that 3.5 is the natural number 7). *)',
         'From PM Require Import Model.Base Model.SyntaxBase.']
    o.append('Definition prec_binop (o : binop) : nat := match o with ' + ' | '.join('%s => %d' % (b, sc(table[b])) for b in BINOPS) + ' end.')
    o.append('Definition prec_unop (o : unop) : nat := match o with ' + ' | '.join('%s => %d' % (b, sc(table[b])) for b in UNOPS) + ' end.')
    o.append('Definition prec_boolop (o : boolop) : nat := match o with ' + ' | '.join('%s => %d' % (b, sc(table[b])) for b in BOOLOPS) + ' end.')
    o.append('Definition prec_cmpop (o : cmpop) : nat := match o with ' + ' | '.join('%s => %d' % (b, sc(table[b])) for b in CMPOPS) + ' end.')
    for k in OTHER:
        o.append('Definition prec_%s : nat := %d.' % (k, sc(table[k])))
    o.append('(* `isinstance(op_node, ast.Pow) and right_precedence == %d` in _rhs *)' % special)
    o.append('Definition pow_rhs_special : nat := %d.' % sc(special))
    text = '\n'.join(o) + '\n'
    p = os.path.join(outdir, 'PrecTable.v')
    old = open(p).read() if os.path.exists(p) else None
    if old != text:
        open(p, 'w').write(text)
    return p


if __name__ == '__main__':
    print(translate(sys.argv[1] if len(sys.argv) > 1 else '/repo', sys.argv[2] if len(sys.argv) > 2 else '/verif/coq/Gen'))
