"""Translator: /repo/src/python_minifier/token_printer.py -> coq/Gen/TokenRules.v
For every emit method of TokenPrinter: the previous-token classes that force a space and the class the method leaves
behind (fail-closed when a method has another shape)."""
import ast, os, sys


class Untranslatable(Exception):
    pass


def fail(node, why):
    raise Untranslatable('token_printer.py:%s: %s' % (getattr(node, 'lineno', '?'), why))


CLASSES = ['NoToken', 'Identifier', 'Keyword', 'SoftKeyword', 'NumberLiteral', 'NonNumberLiteral', 'Delimiter', 'Operator', 'NewLine', 'EndStatement']


def classes_in(test):
    """classes mentioned in `self.previous_token in [TokenTypes.X, ...]` / `== TokenTypes.X` tests (possibly or-ed through if/elif)"""
    out = []
    for n in ast.walk(test):
        if isinstance(n, ast.Compare) and ast.unparse(n.left) == 'self.previous_token':
            for c in n.comparators:
                for a in ast.walk(c):
                    if isinstance(a, ast.Attribute) and isinstance(a.value, ast.Name) and a.value.id == 'TokenTypes':
                        out.append(a.attr)
    return out


def method_rule(fn):
    spaces, after, conditional = [], None, False
    for st in fn.body:
        if isinstance(st, ast.If):
            chain = [st]
            while chain[-1].orelse and len(chain[-1].orelse) == 1 and isinstance(chain[-1].orelse[0], ast.If):
                chain.append(chain[-1].orelse[0])
            for c in chain:
                if any(ast.unparse(b) == "self.delimiter(' ')" for b in c.body):
                    spaces += classes_in(c.test)
                    if 'isalpha' in ast.unparse(c.test):
                        conditional = True
                for b in c.body + (c.orelse if not (c.orelse and isinstance(c.orelse[0], ast.If)) else []):
                    if isinstance(b, ast.Assign) and ast.unparse(b.targets[0]) == 'self.previous_token':
                        pass
        if isinstance(st, ast.Assign) and ast.unparse(st.targets[0]) == 'self.previous_token' and isinstance(st.value, ast.Attribute):
            after = st.value.attr
    return sorted(set(spaces), key=CLASSES.index), after, conditional


def translate(repo, outdir):
    path = os.path.join(repo, 'src/python_minifier/token_printer.py')
    tree = ast.parse(open(path).read())
    tt = [n for n in tree.body if isinstance(n, ast.ClassDef) and n.name == 'TokenTypes']
    tp = [n for n in tree.body if isinstance(n, ast.ClassDef) and n.name == 'TokenPrinter']
    if not tt or not tp:
        raise Untranslatable('token_printer.py: TokenTypes / TokenPrinter not found')
    names = [st.targets[0].id for st in tt[0].body if isinstance(st, ast.Assign)]
    if names != CLASSES:
        fail(tt[0], 'token classes changed: %r' % names)
    fns = {n.name: n for n in tp[0].body if isinstance(n, ast.FunctionDef)}
    o = ['(* GENERATED on every run by /verif/translator/tokenrules.py from token_printer.py. Do not edit. *)',
         'From PM Require Import Model.Base.',
         'Inductive tclass := ' + ' | '.join('C' + c for c in CLASSES) + '.',
         'Inductive emit := EIdentifier | EKeyword | ESoftKeyword | EString (starts_alpha : bool) | EBytes | EFString | EInteger | EFloat | EImag | EDelimiter | EOperator.']
    rules = {}
    for m in ('identifier', 'keyword', 'stringliteral', 'bytesliteral', 'fstring', 'integer', 'floatnumber', 'imagnumber', 'delimiter', 'operator'):
        if m not in fns:
            raise Untranslatable('token_printer.py: method %s not found' % m)
        rules[m] = method_rule(fns[m])
    # keyword(): soft keywords leave SoftKeyword behind
    kw = ast.unparse(fns['keyword'])
    if "if kw in ['_', 'case', 'match', 'type']:\n        self.previous_token = TokenTypes.SoftKeyword\n    else:\n        self.previous_token = TokenTypes.Keyword" not in kw:
        fail(fns['keyword'], 'soft keyword rule changed')

    def lst(m):
        return '[' + '; '.join('C' + c for c in rules[m][0]) + ']'
    o.append('Definition tclass_eqb (a b : tclass) : bool := match a, b with ' + ' | '.join('C%s, C%s' % (c, c) for c in CLASSES) + ' => true | _, _ => false end.')
    o.append('(* previous-token classes after which the method inserts a space *)')
    o.append('Definition space_after_classes (e : emit) : list tclass :=')
    o.append('  match e with')
    o.append('  | EIdentifier => %s' % lst('identifier'))
    o.append('  | EKeyword | ESoftKeyword => %s' % lst('keyword'))
    if not rules['stringliteral'][2] or not rules['bytesliteral'][2]:
        fail(fns['stringliteral'], 'string/bytes literal spacing no longer depends on s[0].isalpha()')
    o.append('  | EString true => %s | EString false => []' % lst('stringliteral'))
    o.append('  | EBytes => %s      (* repr of bytes always starts with the letter b *)' % lst('bytesliteral'))
    o.append('  | EFString => %s' % lst('fstring'))
    o.append('  | EInteger => %s | EFloat => %s | EImag => %s' % (lst('integer'), lst('floatnumber'), lst('imagnumber')))
    o.append('  | EDelimiter => %s | EOperator => %s' % (lst('delimiter'), lst('operator')))
    o.append('  end.')
    after = {'identifier': 'Identifier', 'stringliteral': 'NonNumberLiteral', 'bytesliteral': 'NonNumberLiteral', 'fstring': 'NonNumberLiteral', 'integer': 'NumberLiteral',
             'floatnumber': 'NumberLiteral', 'imagnumber': 'NumberLiteral', 'delimiter': 'Delimiter', 'operator': 'Operator'}
    for m, want in after.items():
        if rules[m][1] != want:
            fail(fns[m], 'method %s leaves previous_token = %s' % (m, rules[m][1]))
    o.append('Definition class_after (e : emit) : tclass :=')
    o.append('  match e with EIdentifier => CIdentifier | EKeyword => CKeyword | ESoftKeyword => CSoftKeyword | EString _ | EBytes | EFString => CNonNumberLiteral')
    o.append('  | EInteger | EFloat | EImag => CNumberLiteral | EDelimiter => CDelimiter | EOperator => COperator end.')
    o.append('Definition space_needed (prev : tclass) (e : emit) : bool := existsb (tclass_eqb prev) (space_after_classes e).')
    text = '\n'.join(o) + '\n'
    p = os.path.join(outdir, 'TokenRules.v')
    old = open(p).read() if os.path.exists(p) else None
    if old != text:
        open(p, 'w').write(text)
    return p


if __name__ == '__main__':
    print(translate(sys.argv[1] if len(sys.argv) > 1 else '/repo', sys.argv[2] if len(sys.argv) > 2 else '/verif/coq/Gen'))
    print(open('/verif/coq/Gen/TokenRules.v').read())
