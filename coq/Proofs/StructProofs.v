From PM Require Import Model.Base Model.Struct.
Open Scope bool_scope.

(* induction principle for the nested inductive `stmt` *)
Section stmt_ind2.
  Variable P : stmt -> Prop.
  Hypothesis Hs : forall k, P (Simple k).
  Hypothesis Hb : forall k mand opt unh,
      Forall (Forall P) mand -> Forall (Forall P) opt -> Forall (Forall P) unh -> P (Block k mand opt unh).
  Fixpoint stmt_ind2 (s : stmt) : P s :=
    let lf := fix lf (l : list stmt) : Forall P l :=
                match l with [] => Forall_nil _ | x :: l' => Forall_cons x (stmt_ind2 x) (lf l') end in
    let ll := fix ll (x : list (list stmt)) : Forall (Forall P) x :=
                match x with [] => Forall_nil _ | l :: x' => Forall_cons l (lf l) (ll x') end in
    match s with
    | Simple k => Hs k
    | Block k m o u => Hb k m o u (ll m) (ll o) (ll u)
    end.
End stmt_ind2.

(* SPECIFICATION: canon er erases, in every suite at every depth, exactly the statements er accepts *)
Definition erase_with (er : stmt -> bool) (f : stmt -> stmt) : list stmt -> list stmt :=
  fix e (l : list stmt) : list stmt := match l with [] => [] | x :: l' => if er x then e l' else f x :: e l' end.
Section Canon.
  Variable er : stmt -> bool.
  Fixpoint canon (s : stmt) : stmt :=
    match s with
    | Simple k => Simple k
    | Block k mand opt unh => Block k (map (erase_with er canon) mand) (map (erase_with er canon) opt) (map (erase_with er canon) unh)
    end.
  Definition cl (l : list stmt) : list stmt := erase_with er canon l.
  Lemma canon_block k m o u : canon (Block k m o u) = Block k (map cl m) (map cl o) (map cl u).
  Proof. reflexivity. Qed.
  Lemma cl_cons x l : cl (x :: l) = if er x then cl l else canon x :: cl l.
  Proof. reflexivity. Qed.
End Canon.

Definition vall (drop : stmt -> bool) (l : list stmt) : list stmt := map (visit drop) l.
Lemma visit_block drop k m o u :
  visit drop (Block k m o u) =
  Block k (map (suite drop) m) (map (fun l => match l with [] => [] | _ => suite drop l end) o) (map (vall drop) u).
Proof. reflexivity. Qed.
Lemma vs_cons drop x l : vs drop (x :: l) = if drop x then vs drop l else visit drop x :: vs drop l.
Proof. reflexivity. Qed.

Definition is_zero (s : stmt) : bool := match s with Simple (KLit 0) => true | _ => false end.

Section Generic.
  Variable drop er : stmt -> bool.
  Hypothesis A1 : forall s, drop s = true -> er s = true.          (* everything removed is erasable *)
  Hypothesis A2 : er zero_stmt = true.                             (* so is the placeholder *)
  Hypothesis A3 : forall s, er (visit drop s) = er s.              (* erasability is not affected by rewriting inside *)

  Let P (s : stmt) : Prop := canon er (visit drop s) = canon er s.

  Lemma cl_vs l : Forall P l -> cl er (vs drop l) = cl er l.
  Proof.
    induction 1 as [|x l Hx _ IH]; [reflexivity|]. rewrite vs_cons, cl_cons.
    destruct (drop x) eqn:Hd.
    - rewrite (A1 x Hd). exact IH.
    - rewrite cl_cons, A3. destruct (er x); [exact IH|]. rewrite Hx, IH. reflexivity.
  Qed.
  Lemma cl_suite l : Forall P l -> cl er (suite drop l) = cl er l.
  Proof.
    intro H. unfold suite, suite_with. fold (vs drop l). destruct (vs drop l) eqn:E.
    - rewrite cl_cons, A2. rewrite <- (cl_vs l H), E. reflexivity.
    - rewrite <- E. apply cl_vs. exact H.
  Qed.
  Lemma cl_vall l : Forall P l -> cl er (vall drop l) = cl er l.
  Proof.
    induction 1 as [|x l Hx _ IH]; [reflexivity|]. unfold vall. cbn [map]. fold (vall drop l). rewrite !cl_cons, A3. destruct (er x); [exact IH|].
    rewrite Hx, IH. reflexivity.
  Qed.
  Lemma map_ext_Forall {A B} (f g : A -> B) (Q : A -> Prop) l :
    Forall Q l -> (forall x, Q x -> f x = g x) -> map f l = map g l.
  Proof. induction 1; intro H'; cbn; [reflexivity|]. f_equal; auto. Qed.

  Theorem visit_canon s : canon er (visit drop s) = canon er s.
  Proof.
    induction s using stmt_ind2; [reflexivity|].
    rewrite visit_block, !canon_block. rewrite !map_map. f_equal.
    - eapply map_ext_Forall; [exact H|]. intros l Hl. apply cl_suite. exact Hl.
    - eapply map_ext_Forall; [exact H0|]. intros l Hl. destruct l; [reflexivity|]. apply cl_suite. exact Hl.
    - eapply map_ext_Forall; [exact H1|]. intros l Hl. apply cl_vall. exact Hl.
  Qed.
  Theorem module_canon l : cl er (module_suite drop l) = cl er l.
  Proof. apply cl_vs. apply Forall_forall. intros x _. apply visit_canon. Qed.
  Theorem suite_canon l : cl er (suite drop l) = cl er l.
  Proof. apply cl_suite. apply Forall_forall. intros x _. apply visit_canon. Qed.
End Generic.

(* suites passed to suite() are never left empty *)
Lemma suite_nonempty drop l : suite drop l <> [].
Proof. unfold suite, suite_with. destruct (filter_visit drop (visit drop) l); discriminate. Qed.
Theorem visit_mand_nonempty drop k m o u :
  Forall (fun l => l <> []) (match visit drop (Block k m o u) with Block _ m' _ _ => m' | _ => [] end).
Proof. rewrite visit_block. apply Forall_forall. intros l H. apply in_map_iff in H as (l0 & <- & _). apply suite_nonempty. Qed.

(* a transformer whose targets do not occur leaves a well-formed tree alone *)
Definition all_with (P : stmt -> Prop) : list stmt -> Prop :=
  fix a (l : list stmt) : Prop := match l with [] => True | x :: l' => P x /\ a l' end.
Definition am_with (P : stmt -> Prop) : list (list stmt) -> Prop :=
  fix am (m : list (list stmt)) : Prop := match m with [] => True | l :: m' => all_with P l /\ am m' end.
Fixpoint no_target (drop : stmt -> bool) (s : stmt) : Prop :=
  drop s = false /\
  match s with
  | Simple _ => True
  | Block _ mand opt unh =>
      Forall (fun l => l <> []) mand /\ am_with (no_target drop) mand /\ am_with (no_target drop) opt /\ am_with (no_target drop) unh
  end.
Definition all_nt (drop : stmt -> bool) (l : list stmt) : Prop := all_with (no_target drop) l.
Definition am_nt (drop : stmt -> bool) (m : list (list stmt)) : Prop := am_with (no_target drop) m.
Lemma no_target_block drop k m o u :
  no_target drop (Block k m o u) <-> drop (Block k m o u) = false /\ Forall (fun l => l <> []) m /\ am_nt drop m /\ am_nt drop o /\ am_nt drop u.
Proof. reflexivity. Qed.

Theorem visit_identity drop s : no_target drop s -> visit drop s = s.
Proof.
  induction s as [k|k m o u IHm IHo IHu] using stmt_ind2; [reflexivity|]. rewrite no_target_block. intros (_ & Hne & Hm & Ho & Hu).
  rewrite visit_block.
  assert (Hvs : forall l, Forall (fun s => no_target drop s -> visit drop s = s) l -> all_nt drop l -> vs drop l = l).
  { induction 1 as [|x l Hx _ IH]; [reflexivity|]. intros [Hx1 Hx2]. rewrite vs_cons.
    assert (drop x = false) as -> by (destruct x; apply Hx1). rewrite (Hx Hx1), (IH Hx2). reflexivity. }
  assert (Hva : forall l, Forall (fun s => no_target drop s -> visit drop s = s) l -> all_nt drop l -> vall drop l = l).
  { induction 1 as [|x l Hx _ IH]; [reflexivity|]. intros [Hx1 Hx2]. unfold vall. cbn [map]. fold (vall drop l). rewrite (Hx Hx1), (IH Hx2). reflexivity. }
  f_equal.
  - clear Ho Hu IHo IHu. induction IHm as [|l m2 Hl _ IH]; [reflexivity|]. cbn [map]. destruct Hm as [Hl' Hm]. inversion Hne; subst.
    rewrite IH by assumption. f_equal. unfold suite, suite_with. fold (vs drop l). rewrite (Hvs l Hl Hl'). destruct l; [congruence|reflexivity].
  - clear Hm Hu IHm IHu Hne. induction IHo as [|l m2 Hl _ IH]; [reflexivity|]. cbn [map]. destruct Ho as [Hl' Ho].
    rewrite IH by assumption. f_equal. destruct l as [|s0 l]; [reflexivity|]. unfold suite, suite_with. fold (vs drop (s0 :: l)). rewrite (Hvs _ Hl Hl'). reflexivity.
  - clear Hm Ho IHm IHo Hne. induction IHu as [|l m2 Hl _ IH]; [reflexivity|]. cbn [map]. destruct Hu as [Hl' Hu].
    rewrite IH by assumption. f_equal. apply Hva; assumption.
Qed.

(* ---------------- instances ---------------- *)
Definition er_pass (s : stmt) : bool := drop_pass s || is_zero s.
Definition er_assert (s : stmt) : bool := drop_assert s || is_zero s.
Definition er_debug (s : stmt) : bool := drop_debug s || is_zero s.
Definition er_optimise (s : stmt) : bool := drop_assert s || drop_debug s || is_zero s.   (* what python -O does not run *)

Lemma drop_debug_visit drop s : drop_debug (visit drop s) = drop_debug s.
Proof.
  destruct s as [k|k m o u]; [reflexivity|]. rewrite visit_block. destruct k; try reflexivity. cbn [drop_debug].
  f_equal. destruct o as [|l [|l2 o']]; try reflexivity.
  - cbn [map]. destruct l; [reflexivity|]. pose proof (suite_nonempty drop (s :: l)). destruct (suite drop (s :: l)); [congruence|reflexivity].
  - cbn [map]. destruct l; [|pose proof (suite_nonempty drop (s :: l)); destruct (suite drop (s :: l)); [congruence|]]; reflexivity.
Qed.
Lemma head_visit (f : stmt -> bool) drop s :
  (forall k m o u, f (Block k m o u) = false) -> f (visit drop s) = f s.
Proof. intro H. destruct s; [reflexivity|]. rewrite visit_block, !H. reflexivity. Qed.
Lemma is_zero_block k m o u : is_zero (Block k m o u) = false. Proof. reflexivity. Qed.
Lemma drop_pass_block k m o u : drop_pass (Block k m o u) = false. Proof. reflexivity. Qed.
Lemma drop_assert_block k m o u : drop_assert (Block k m o u) = false. Proof. reflexivity. Qed.
Lemma drop_literal_block k m o u : drop_literal (Block k m o u) = false. Proof. reflexivity. Qed.

Theorem remove_pass_canon l : cl er_pass (module_suite drop_pass l) = cl er_pass l.
Proof.
  apply module_canon.
  - intros s H. unfold er_pass. now rewrite H.
  - reflexivity.
  - intro s. unfold er_pass. rewrite (head_visit drop_pass _ s drop_pass_block), (head_visit is_zero _ s is_zero_block). reflexivity.
Qed.
Theorem remove_asserts_canon l : cl er_assert (module_suite drop_assert l) = cl er_assert l.
Proof.
  apply module_canon.
  - intros s H. unfold er_assert. now rewrite H.
  - reflexivity.
  - intro s. unfold er_assert. rewrite (head_visit drop_assert _ s drop_assert_block), (head_visit is_zero _ s is_zero_block). reflexivity.
Qed.
Theorem remove_literals_canon l : cl drop_literal (module_suite drop_literal l) = cl drop_literal l.
Proof.
  apply module_canon.
  - auto.
  - reflexivity.
  - intro s. apply (head_visit drop_literal _ s drop_literal_block).
Qed.
Theorem remove_debug_canon l : cl er_debug (module_suite drop_debug l) = cl er_debug l.
Proof.
  apply module_canon.
  - intros s H. unfold er_debug. now rewrite H.
  - reflexivity.
  - intro s. unfold er_debug. rewrite drop_debug_visit, (head_visit is_zero _ s is_zero_block). reflexivity.
Qed.
(* asserts then debug (the pipeline order): together they erase exactly what `python -O` does not run *)
Theorem optimise_canon l :
  cl er_optimise (module_suite drop_debug (module_suite drop_assert l)) = cl er_optimise l.
Proof.
  rewrite module_canon.
  - apply module_canon.
    + intros s H. unfold er_optimise. now rewrite H.
    + reflexivity.
    + intro s. unfold er_optimise. rewrite drop_debug_visit, (head_visit drop_assert _ s drop_assert_block), (head_visit is_zero _ s is_zero_block). reflexivity.
  - intros s H. unfold er_optimise. rewrite H. now rewrite orb_true_r.
  - reflexivity.
  - intro s. unfold er_optimise. rewrite drop_debug_visit, (head_visit drop_assert _ s drop_assert_block), (head_visit is_zero _ s is_zero_block). reflexivity.
Qed.

(* RemoveDebug removes an `if` only in the documented forms: the left operand is __debug__, the comparison is one of
   `is True`, `is not False`, `== True` (or the bare name), and there is no else branch *)
Definition documented_debug_if (s : stmt) : bool :=
  match s with
  | Block (BIf TDebugName) _ ([] | [[]]) _ => true
  | Block (BIf (TCmp true OIs CTrue)) _ ([] | [[]]) _ => true
  | Block (BIf (TCmp true OIsNot CFalse)) _ ([] | [[]]) _ => true
  | Block (BIf (TCmp true OEq CTrue)) _ ([] | [[]]) _ => true
  | _ => false
  end.
Theorem drop_debug_documented s : drop_debug s = documented_debug_if s.
Proof.
  destruct s as [|k m o u]; [reflexivity|]. destruct k as [t| | | | | |]; try reflexivity.
  destruct t as [|[|] [| | |] [| |]|]; cbn; try reflexivity; destruct o as [|[|] [|]]; reflexivity.
Qed.

(* ---------------- CombineImports: the sequence of imported names, in order, is unchanged ---------------- *)
Inductive atom := AImp (n : N) | AFrom (m lv n : N) | AStar (m lv : N) (names : list N) | AStmt (s : stmt).
Definition atoms_of (s : stmt) : list atom :=
  match s with
  | Simple (KImport names) => map AImp names
  | Simple (KImportFrom m lv names false) => map (AFrom m lv) names
  | Simple (KImportFrom m lv names true) => [AStar m lv names]
  | _ => [AStmt s]
  end.
Definition atoms (l : list stmt) : list atom := flat_map atoms_of l.

Lemma combine_import_atoms acc l : atoms (combine_import acc l) = map AImp acc ++ atoms l.
Proof.
  revert acc; induction l as [|x l IH]; intro acc; cbn [combine_import].
  - destruct acc; cbn; [reflexivity|]. now rewrite !app_nil_r.
  - destruct x as [k|]; [destruct k|]; cbn [atoms flat_map atoms_of];
      try (destruct acc; [cbn [atoms flat_map atoms_of]; rewrite IH; reflexivity
                         | cbn [atoms flat_map atoms_of app]; rewrite IH; cbn [map app]; rewrite <- ?app_assoc; reflexivity]).
    rewrite IH, map_app, <- app_assoc. reflexivity.
Qed.
Lemma combine_from_atoms prev acc l :
  (acc <> [] -> prev <> None) ->
  atoms (combine_from prev acc l) = match prev with Some (m, lv) => map (AFrom m lv) acc | None => [] end ++ atoms l.
Proof.
  revert prev acc; induction l as [|x l IH]; intros prev acc Hacc; cbn [combine_from].
  - destruct acc as [|a acc]; [destruct prev as [[m lv]|]; reflexivity|].
    destruct prev as [[m lv]|]; [|exfalso; apply Hacc; [discriminate|reflexivity]].
    cbn [atoms flat_map atoms_of]. now rewrite !app_nil_r.
  - assert (Hflush : atoms (match acc, prev with [], _ => [] | _, Some (m, lv) => [Simple (KImportFrom m lv acc false)] | _, None => [] end)
                     = match prev with Some (m, lv) => map (AFrom m lv) acc | None => [] end).
    { destruct acc as [|a acc]; [destruct prev as [[m lv]|]; reflexivity|].
      destruct prev as [[m lv]|]; [|exfalso; apply Hacc; [discriminate|reflexivity]]. cbn [atoms flat_map atoms_of]. now rewrite app_nil_r. }
    assert (Hno : forall l0, atoms (match acc, prev with [], _ => [] | _, Some (m, lv) => [Simple (KImportFrom m lv acc false)] | _, None => [] end ++ x :: combine_from prev [] l0)
                  = match prev with Some (m, lv) => map (AFrom m lv) acc | None => [] end ++ atoms_of x ++ atoms (combine_from prev [] l0)).
    { intro l0. unfold atoms at 1. rewrite flat_map_app. fold (atoms (match acc, prev with [], _ => [] | _, Some (m, lv) => [Simple (KImportFrom m lv acc false)] | _, None => [] end)).
      rewrite Hflush. reflexivity. }
    destruct x as [k|kb mb ob ub].
    2: { rewrite Hno, IH by (intro H; congruence). destruct prev as [[m lv]|]; reflexivity. }
    destruct k; try (rewrite Hno, IH by (intro H; congruence); destruct prev as [[m lv]|]; reflexivity).
    destruct star.
    + rewrite Hno, IH by (intro H; congruence). destruct prev as [[m lv]|]; reflexivity.
    + destruct prev as [[pm plv]|].
      * destruct (N.eqb module pm && N.eqb level plv) eqn:E.
        -- apply andb_true_iff in E as [E1 E2]. apply N.eqb_eq in E1, E2. subst.
           rewrite IH by (intros _; discriminate). cbn [atoms flat_map atoms_of]. rewrite map_app, <- app_assoc. reflexivity.
        -- rewrite Hno, IH by (intro H; congruence). reflexivity.
      * rewrite IH by (intros _; discriminate).
        assert (acc = []) as -> by (destruct acc; [reflexivity|exfalso; apply Hacc; [discriminate|reflexivity]]).
        reflexivity.
Qed.
Theorem combine_suite_atoms l : atoms (combine_from None [] (combine_import [] l)) = atoms l.
Proof. rewrite combine_from_atoms by congruence. rewrite combine_import_atoms. reflexivity. Qed.

(* ---------------- RemoveObject: only bases named `object` disappear, nothing else changes ---------------- *)
Definition strip_object (k : blockkind) : blockkind :=
  match k with BClass id bases => BClass id (filter (fun b => negb (fst b)) bases) | _ => k end.
Lemma obj_visit_block k m o u :
  exists m' o' u', obj_visit (Block k m o u) = Block (strip_object k) m' o' u' /\ length m' = length m /\ length o' = length o /\ length u' = length u.
Proof. eexists _, _, _. split; [reflexivity|]. now rewrite !map_length. Qed.
Lemma strip_object_only_object k id bases : k = BClass id bases ->
  exists bases', strip_object k = BClass id bases' /\ (forall b, In b bases' <-> In b bases /\ fst b = false).
Proof.
  intros ->. eexists. split; [reflexivity|]. intro b. rewrite filter_In. split; intros [H1 H2]; split; auto.
  - now apply negb_true_iff in H2.
  - now apply negb_true_iff.
Qed.

(* ---------------- RemoveExplicitReturnNone: function bodies are never left empty; simple statements other than
   `return None` are untouched ---------------- *)
Lemma ret_visit_simple k : ret_visit (Simple k) = match k with KReturn RNoneConst => Simple (KReturn RBare) | _ => Simple k end.
Proof. destruct k as [| | |[]| | |]; reflexivity. Qed.
Lemma ret_visit_func_nonempty id m o u :
  match ret_visit (Block (BFunc id) m o u) with Block _ m' _ _ => Forall (fun l => l <> []) m' | _ => False end.
Proof.
  cbn [ret_visit]. apply Forall_forall. intros l H. apply in_map_iff in H as (l0 & <- & _).
  match goal with |- context [strip_last_bare_return ?x] => destruct (strip_last_bare_return x) end; discriminate.
Qed.
