From PM Require Import Model.Base Model.MiniString Model.StrDecode Proofs.MiniStringProofs.
From Coq Require Import Lia ZifyBool ZifyN.
Open Scope bool_scope.
Open Scope N_scope.
Ltac Zify.zify_post_hook ::= Z.to_euclidean_division_equations.

Lemma unhex_hex_digit n : n < 16 -> unhex (hex_digit n) = Some n.
Proof.
  intros H. unfold unhex, hex_digit. destruct (n <? 10) eqn:E.
  - replace ((48 <=? 48 + n) && (48 + n <=? 57)) with true by lia. f_equal. lia.
  - replace ((48 <=? 87 + n) && (87 + n <=? 57)) with false by lia.
    replace ((97 <=? 87 + n) && (87 + n <=? 102)) with true by lia. f_equal. lia.
Qed.

Lemma dec_hex_cons long q k acc n tail : n < 16 ->
  dec long q (DHex (S (S k)) acc) (hex_digit n :: tail) = dec long q (DHex (S k) (acc * 16 + n)) tail.
Proof. intros H. cbn [dec]. rewrite (unhex_hex_digit n H). reflexivity. Qed.

Lemma dec_hex_last long q acc n tail : n < 16 -> acc * 16 + n < 1114112 ->
  dec long q (DHex 1 acc) (hex_digit n :: tail) = cons_res (acc * 16 + n) (dec long q DNorm tail).
Proof. intros H H2. cbn [dec]. rewrite (unhex_hex_digit n H). replace (acc * 16 + n <? 1114112) with true by lia. reflexivity. Qed.

Lemma hex_step long q : forall w v acc k tail, v < 16 ^ (N.of_nat w) ->
  dec long q (DHex (w + S k) acc) (hex_fixed w v ++ tail) = dec long q (DHex (S k) (acc * 16 ^ (N.of_nat w) + v)) tail.
Proof.
  induction w as [|w IH]; intros v acc k tail Hv.
  - cbn [hex_fixed app Nat.add]. change (16 ^ N.of_nat 0) with 1 in *. f_equal. f_equal. lia.
  - cbn [hex_fixed]. rewrite <- app_assoc. cbn [app].
    replace (S w + S k)%nat with (w + S (S k))%nat by lia.
    assert (Hp : 16 ^ N.of_nat (S w) = 16 * 16 ^ N.of_nat w) by (rewrite Nat2N.inj_succ, N.pow_succ_r'; reflexivity).
    rewrite IH by (rewrite Hp in Hv; lia).
    rewrite dec_hex_cons by lia. f_equal. f_equal. rewrite Hp. lia.
Qed.

Lemma hex_full long q w v acc tail : v < 16 ^ (N.of_nat (S w)) -> acc * 16 ^ (N.of_nat (S w)) + v < 1114112 ->
  dec long q (DHex (S w) acc) (hex_fixed (S w) v ++ tail) = cons_res (acc * 16 ^ (N.of_nat (S w)) + v) (dec long q DNorm tail).
Proof.
  intros Hv Hb. cbn [hex_fixed]. rewrite <- app_assoc. cbn [app].
  assert (Hp : 16 ^ N.of_nat (S w) = 16 * 16 ^ N.of_nat w) by (rewrite Nat2N.inj_succ, N.pow_succ_r'; reflexivity).
  replace (S w) with (w + 1)%nat at 1 by lia.
  rewrite hex_step by (rewrite Hp in Hv; lia).
  rewrite dec_hex_last by (try rewrite Hp in Hb; lia). f_equal. rewrite Hp. lia.
Qed.

(* one plain character in normal state *)
Lemma dec_plain_short q c tail : c <> q -> c <> 10 -> c <> 92 -> c <> 13 -> c <> 0 ->
  dec false q DNorm (c :: tail) = cons_res c (dec false q DNorm tail).
Proof.
  intros H1 H2 H3 H4 H5. cbn [dec].
  replace (c =? 92) with false by lia. replace ((c =? 13) || (c =? 0)) with false by lia. replace (c =? q) with false by lia. replace (c =? 10) with false by lia. reflexivity.
Qed.
Lemma dec_plain_long q c tail : c <> q -> c <> 92 -> c <> 13 -> c <> 0 ->
  dec true q DNorm (c :: tail) = cons_res c (dec true q DNorm tail).
Proof.
  intros H1 H3 H4 H5. cbn [dec].
  replace (c =? 92) with false by lia. replace ((c =? 13) || (c =? 0)) with false by lia. replace (c =? q) with false by lia. reflexivity.
Qed.
Lemma dec_simple long q e v tail : simple_escape e = Some v ->
  dec long q DNorm (92 :: e :: tail) = cons_res v (dec long q DNorm tail).
Proof. intros H. cbn [dec]. change (92 =? 92) with true. cbv iota. rewrite H. reflexivity. Qed.

Lemma dec_u4 long q c tail : c < 65536 ->
  dec long q DNorm ([92; 117] ++ hex_fixed 4 c ++ tail) = cons_res c (dec long q DNorm tail).
Proof.
  intros H. cbn [app]. cbn [dec]. change (92 =? 92) with true. cbv iota.
  change (simple_escape 117) with (@None N). cbv iota. change (117 =? 120) with false. change (117 =? 117) with true. cbv iota.
  rewrite (hex_full long q 3 c 0 tail); change (16 ^ N.of_nat 4) with 65536; try lia. f_equal.
Qed.
Lemma dec_U8 long q c tail : c < 1114112 ->
  dec long q DNorm ([92; 85] ++ hex_fixed 8 c ++ tail) = cons_res c (dec long q DNorm tail).
Proof.
  intros H. cbn [app]. cbn [dec]. change (92 =? 92) with true. cbv iota.
  change (simple_escape 85) with (@None N). cbv iota. change (85 =? 120) with false. change (85 =? 117) with false. change (85 =? 85) with true. cbv iota.
  rewrite (hex_full long q 7 c 0 tail); change (16 ^ N.of_nat 8) with 4294967296; try lia. f_equal.
Qed.

Lemma esc_common_dec long q c e tail : esc_common c = Some e ->
  dec long q DNorm (e ++ tail) = cons_res c (dec long q DNorm tail).
Proof.
  unfold esc_common. intros H.
  repeat match type of H with
  | (if ?c0 =? ?k then _ else _) = _ => destruct (N.eqb_spec c0 k) as [->|_]; [injection H as <-; try (apply dec_simple; reflexivity)|]
  end; try discriminate.
  (* \x00 *)
  cbn [app]. cbn [dec]. reflexivity.
Qed.

Lemma plain_char_dec_short safe q c tail : c < 1114112 -> c <> q -> c <> 10 -> c <> 92 -> c <> 13 -> c <> 0 ->
  dec false q DNorm (plain_char safe c ++ tail) = cons_res c (dec false q DNorm tail).
Proof.
  intros Hc H1 H2 H3 H4 H5. unfold plain_char. destruct safe; cbn [negb]; cbv iota.
  - destruct (c <=? 127) eqn:E1; [apply dec_plain_short; assumption|].
    destruct (c <=? 65535) eqn:E2; rewrite <- app_assoc; [apply dec_u4; lia | apply dec_U8; lia].
  - apply dec_plain_short; assumption.
Qed.
Lemma plain_char_dec_long safe q c tail : c < 1114112 -> c <> q -> c <> 92 -> c <> 13 -> c <> 0 ->
  dec true q DNorm (plain_char safe c ++ tail) = cons_res c (dec true q DNorm tail).
Proof.
  intros Hc H1 H3 H4 H5. unfold plain_char. destruct safe; cbn [negb]; cbv iota.
  - destruct (c <=? 127) eqn:E1; [apply dec_plain_long; assumption|].
    destruct (c <=? 65535) eqn:E2; rewrite <- app_assoc; [apply dec_u4; lia | apply dec_U8; lia].
  - apply dec_plain_long; assumption.
Qed.

Lemma esc_common_none_92 c : esc_common c = None -> c <> 92.
Proof. intros H ->. discriminate. Qed.
Lemma esc_common_none_13 c : esc_common c = None -> c <> 13.
Proof. intros H ->. discriminate. Qed.
Lemma esc_common_none_0 c : esc_common c = None -> c <> 0.
Proof. intros H ->. discriminate. Qed.

Lemma simple_escape_quote q : is_quote q -> simple_escape q = Some q.
Proof. intros [->| ->]; reflexivity. Qed.

Lemma short_char_dec safe q c tail : is_quote q -> c < 1114112 ->
  dec false q DNorm (short_char safe q c ++ tail) = cons_res c (dec false q DNorm tail).
Proof.
  intros Hq Hc. unfold short_char. destruct (N.eqb_spec c 10) as [->|H10].
  - apply dec_simple. reflexivity.
  - destruct (esc_common c) as [e|] eqn:E.
    + apply esc_common_dec. exact E.
    + destruct (N.eqb_spec c q) as [->|Hcq].
      * apply dec_simple. apply simple_escape_quote. exact Hq.
      * apply plain_char_dec_short; auto; [apply esc_common_none_92 | apply esc_common_none_13 | apply esc_common_none_0]; exact E.
Qed.
Lemma long_char_dec safe q c tail : is_quote q -> c < 1114112 ->
  dec true q DNorm (long_char safe q c ++ tail) = cons_res c (dec true q DNorm tail).
Proof.
  intros Hq Hc. unfold long_char. destruct (esc_common c) as [e|] eqn:E.
  - apply esc_common_dec. exact E.
  - destruct (N.eqb_spec c q) as [->|Hcq].
    + apply dec_simple. apply simple_escape_quote. exact Hq.
    + apply plain_char_dec_long; auto; [apply esc_common_none_92 | apply esc_common_none_13 | apply esc_common_none_0]; exact E.
Qed.

Definition code_point (c : N) : Prop := c < 1114112.

(* ROUND TRIP, short form: what MiniString writes between the quotes, followed by the closing quote and anything at all,
   decodes to exactly the original string and leaves exactly what followed the closing quote *)
Theorem to_short_decodes safe q s rest : is_quote q -> Forall code_point s ->
  decode_short q (to_short safe q s ++ q :: rest) = Some (s, rest).
Proof.
  intros Hq Hs. unfold decode_short, to_short. induction Hs as [|c s Hc Hs IH].
  - cbn [flat_map app dec]. destruct Hq as [->| ->]; reflexivity.
  - cbn [flat_map]. rewrite <- app_assoc. rewrite short_char_dec by assumption. rewrite IH. reflexivity.
Qed.

(* ROUND TRIP, long form (three quotes close the literal) *)
Theorem to_long_decodes safe q s rest : is_quote q -> Forall code_point s ->
  decode_long q (to_long safe q s ++ q :: q :: q :: rest) = Some (s, rest).
Proof.
  intros Hq Hs. unfold decode_long, to_long. induction Hs as [|c s Hc Hs IH].
  - cbn [flat_map app dec]. destruct Hq as [->| ->]; reflexivity.
  - cbn [flat_map]. rewrite <- app_assoc. rewrite long_char_dec by assumption. rewrite IH. reflexivity.
Qed.
