From PM Require Import Model.Base Model.Renamer Proofs.RenamerProofs Model.Resolve.
Open Scope bool_scope.

(* what the name assignment guarantees (C03_assignment_separates, read on the finished table) *)
Definition separated (bs : list rb) : Prop :=
  forall b1 b2 s n, In b1 bs -> In b2 bs -> r_id b1 <> r_id b2 -> In s (r_scope b1) -> In s (r_scope b2) ->
    r_final b1 = Some n -> r_final b2 = Some n -> r_orig b1 = Some n /\ r_orig b2 = Some n.
(* a namespace holds at most one binding per original name (namespace.bindings is keyed by name), ids are unique *)
Definition unique_names (bs : list rb) : Prop :=
  forall b1 b2 n, In b1 bs -> In b2 bs -> r_owner b1 = r_owner b2 -> r_orig b1 = Some n -> r_orig b2 = Some n -> r_id b1 = r_id b2.
Definition unique_ids (bs : list rb) : Prop := forall b1 b2, In b1 bs -> In b2 bs -> r_id b1 = r_id b2 -> b1 = b2.
Definition owner_in_scope (bs : list rb) : Prop := forall b, In b bs -> In (r_owner b) (r_scope b).

Lemma find_named_some name_of ns name bs b : find (named name_of ns name) bs = Some b -> In b bs /\ r_owner b = ns /\ name_of b = Some name.
Proof.
  intro H. apply find_some in H as [Hin Hn]. unfold named in Hn. apply andb_true_iff in Hn as [H1 H2].
  apply N.eqb_eq in H1. apply opt_text_eqb_eq in H2. auto.
Qed.
Lemma find_named_none name_of ns name bs b : find (named name_of ns name) bs = None -> In b bs -> r_owner b = ns -> name_of b = Some name -> False.
Proof.
  intros H Hin Ho Hn. eapply find_none in H; [|exact Hin]. unfold named in H. rewrite Ho, N.eqb_refl, Hn in H.
  cbn in H. rewrite text_eqb_refl in H. discriminate.
Qed.

Section Preserved.
  Variable par : parents.
  Variable bs : list rb.
  Hypothesis Hsep : separated bs.
  Hypothesis Huniq : unique_names bs.
  Hypothesis Hids : unique_ids bs.
  Hypothesis Hown : owner_in_scope bs.

  (* walking up from ns: if every namespace on the way to b's owner is in b's reservation scope, and the ORIGINAL spelling
     resolved to b from ns, then the FINAL spelling resolves to b from ns *)
  Theorem resolution_preserved : forall fuel ns b n0 n l,
    In b bs -> r_orig b = Some n0 -> r_final b = Some n ->
    chain fuel par ns (r_owner b) = Some l -> (forall m, In m l -> In m (r_scope b)) ->
    resolve fuel par bs r_orig ns n0 = Some (r_id b) ->
    resolve fuel par bs r_final ns n = Some (r_id b).
  Proof.
    induction fuel as [|f IH]; intros ns b n0 n l Hb Ho Hf Hch Hcov Hres; [discriminate|].
    cbn [chain] in Hch. cbn [resolve] in Hres |- *.
    assert (Hns : In ns (r_scope b)).
    { destruct (N.eqb_spec ns (r_owner b)) as [->|Hne]; [apply Hown; exact Hb|].
      destruct (parent_of par ns); [|discriminate]. destruct (chain f par n1 (r_owner b)); [|discriminate].
      injection Hch as <-. apply Hcov. now left. }
    (* no OTHER binding of this namespace ends up with b's final name *)
    assert (Hnone : forall b', In b' bs -> r_owner b' = ns -> r_final b' = Some n -> r_id b' = r_id b).
    { intros b' Hb' Ho' Hf'. destruct (N.eq_dec (r_id b') (r_id b)) as [E|E]; [exact E|]. exfalso.
      assert (Hs' : In ns (r_scope b')) by (rewrite <- Ho'; apply Hown; exact Hb').
      destruct (Hsep b' b ns n Hb' Hb E Hs' Hns Hf' Hf) as [Ho1 Ho2].
      rewrite Ho in Ho2. injection Ho2 as ->.
      (* then the original lookup at ns finds a binding of ns named n: it must be b' (or b itself if b lives here) *)
      destruct (find (named r_orig ns n) bs) as [c|] eqn:Efind.
      - apply find_named_some in Efind as (Hc & Hco & Hcn). injection Hres as Hid.
        assert (r_id c = r_id b') by (eapply Huniq; eauto; congruence). congruence.
      - eapply find_named_none; eauto. }
    destruct (find (named r_final ns n) bs) as [c|] eqn:Efin.
    - apply find_named_some in Efin as (Hc & Hco & Hcn). f_equal. now apply Hnone.
    - (* nobody here has the final name: b does not live here, go up *)
      destruct (N.eqb_spec ns (r_owner b)) as [->|Hne]; [exfalso; eapply find_named_none; eauto|].
      destruct (find (named r_orig ns n0) bs) as [c|] eqn:Eorig.
      + (* the original lookup stopped here at c = b, but b does not live here *)
        apply find_named_some in Eorig as (Hc & Hco & Hcn). injection Hres as Hid.
        apply Hids in Hid; auto. subst c. congruence.
      + destruct (parent_of par ns) as [p|]; [|discriminate].
        destruct (chain f par p (r_owner b)) as [l'|] eqn:Ech; [|discriminate]. injection Hch as <-.
        eapply IH; eauto. intros m Hm. apply Hcov. now right.
  Qed.
End Preserved.

(* ---- the finished table of the name assignment is `separated` ---- *)
Definition final_of (res : list (N * option text)) (i : N) : option text :=
  match find (fun p => N.eqb (fst p) i) res with Some (_, n) => n | None => None end.
Definition table (owner : binding -> N) (res : list (N * option text)) (bs : list binding) : list rb :=
  map (fun b => {| r_id := b_id b; r_owner := owner b; r_orig := b_name b; r_final := final_of res (b_id b); r_scope := b_scope b |}) bs.

Lemma final_of_in res i n : final_of res i = Some n -> In (i, Some n) res.
Proof.
  unfold final_of. destruct (find _ res) as [[j m]|] eqn:E; [|discriminate]. intros ->.
  apply find_some in E as [Hin He]. cbn in He. apply N.eqb_eq in He. now subst.
Qed.

Theorem assigned_table_separated pick should prefix_globals :
  (forall p l, ~ In (pick p l) l) ->
  forall owner bs rg, Forall wf_binding bs -> NoDup (map b_id bs) ->
    separated (table owner (assign pick should prefix_globals bs rg) bs).
Proof.
  intros Hp owner bs rg Hwf Hnd b1 b2 s n H1 H2 Hne S1 S2 F1 F2.
  unfold table in H1, H2. apply in_map_iff in H1 as (x1 & <- & Hx1). apply in_map_iff in H2 as (x2 & <- & Hx2).
  cbn [r_id r_scope r_final r_orig] in *.
  apply final_of_in in F1, F2.
  destruct (assign_separates pick should prefix_globals Hp bs rg x1 x2 n s Hwf Hnd Hx1 Hx2 Hne F1 F2 S1 S2) as [[A _] [B _]].
  auto.
Qed.

(* ---- reservation_scope covers every walk, by construction ---- *)
Lemma rscope_covers fuel par owner sites s l :
  In s sites -> chain fuel par s owner = Some l -> forall m, In m l -> In m (rscope fuel par owner sites).
Proof.
  intros Hs Hc m Hm. unfold rscope. right. apply in_flat_map. exists s. split; [exact Hs|]. rewrite Hc. exact Hm.
Qed.
Lemma rscope_owner fuel par owner sites : In owner (rscope fuel par owner sites).
Proof. left. reflexivity. Qed.

(* resolution is preserved for every reference site of a binding whose reservation scope is the one renamer.reservation_scope builds *)
Theorem resolution_preserved_by_reservation par bs :
  separated bs -> unique_names bs -> unique_ids bs ->
  forall fuel (sites : rb -> list N),
    (forall b, In b bs -> forall m, In m (rscope fuel par (r_owner b) (sites b)) -> In m (r_scope b)) ->
    forall ns b n0 n,
      In b bs -> In ns (sites b) -> r_orig b = Some n0 -> r_final b = Some n ->
      chain fuel par ns (r_owner b) <> None ->
      resolve fuel par bs r_orig ns n0 = Some (r_id b) ->
      resolve fuel par bs r_final ns n = Some (r_id b).
Proof.
  intros Hsep Hun Hid fuel sites Hsc ns b n0 n Hb Hns Ho Hf Hch Hres.
  destruct (chain fuel par ns (r_owner b)) as [l|] eqn:E; [|contradiction].
  eapply (resolution_preserved par bs Hsep Hun Hid); eauto.
  - intros c Hc. apply (Hsc c Hc). apply rscope_owner.
  - intros m Hm. apply (Hsc b Hb). eapply rscope_covers; eauto.
Qed.
