From PM Require Import Model.Base Model.SyntaxBase Gen.PrecTable Model.Syntax.
Open Scope bool_scope.
Open Scope nat_scope.

Lemma pexpr_S f' minp ts : pexpr (S f') minp ts =
    match ts with
    | TName n :: r => ploop f' (EName n) minp r
    | TNum n :: r => ploop f' (ENum n) minp r
    | TLP :: r => match pexpr f' 0 r with Some (e, TRP :: r') => ploop f' e minp r' | _ => None end
    | TOp Add :: r => if minp <=? 14 then match pexpr f' 14 r with Some (e, r') => ploop f' (EUn UAdd e) minp r' | None => None end else None
    | TOp Sub :: r => if minp <=? 14 then match pexpr f' 14 r with Some (e, r') => ploop f' (EUn USub e) minp r' | None => None end else None
    | TTilde :: r => if minp <=? 14 then match pexpr f' 14 r with Some (e, r') => ploop f' (EUn Invert e) minp r' | None => None end else None
    | TNot :: r => if minp <=? 6 then match pexpr f' 6 r with Some (e, r') => ploop f' (EUn Not e) minp r' | None => None end else None
    | _ => None
    end.
Proof. reflexivity. Qed.
Lemma ploop_S f' lhs minp ts : ploop (S f') lhs minp ts =
    match ts with
    | TOp o :: r =>
        if lbp o <? minp then Some (lhs, ts)
        else match pexpr f' (rbp o) r with
             | Some (rhs, r') => ploop f' (EBin lhs o rhs) minp r'
             | None => None end
    | _ => Some (lhs, ts)
    end.
Proof. reflexivity. Qed.
Global Opaque pexpr ploop.

Lemma mono : forall f, (forall minp ts x, pexpr f minp ts = Some x -> pexpr (S f) minp ts = Some x)
                    /\ (forall l minp ts x, ploop f l minp ts = Some x -> ploop (S f) l minp ts = Some x).
Proof.
  induction f as [|f [IHe IHl]]; split; intros; try discriminate.
  - rewrite pexpr_S in H |- *.
    assert (Hun : forall lvl u r, (if minp <=? lvl then match pexpr f lvl r with Some (e, r') => ploop f (EUn u e) minp r' | None => None end else None) = Some x ->
                  (if minp <=? lvl then match pexpr (S f) lvl r with Some (e, r') => ploop (S f) (EUn u e) minp r' | None => None end else None) = Some x).
    { intros lvl u r Hu. destruct (minp <=? lvl); [|discriminate].
      destruct (pexpr f lvl r) as [[e r']|] eqn:E; [|discriminate]. rewrite (IHe _ _ _ E). now apply IHl. }
    destruct ts as [|[n|n|o| | | |] r]; try discriminate.
    + now apply IHl.
    + now apply IHl.
    + destruct o; try discriminate; now apply Hun.
    + now apply Hun.
    + now apply Hun.
    + destruct (pexpr f 0 r) as [[e [|[]]]|] eqn:E; try discriminate.
      rewrite (IHe _ _ _ E). now apply IHl.
  - rewrite ploop_S in H |- *. destruct ts as [|[n|n|o| | | |] r]; auto.
    destruct (lbp o <? minp); auto.
    destruct (pexpr f (rbp o) r) as [[e r']|] eqn:E; try discriminate.
    rewrite (IHe _ _ _ E). now apply IHl.
Qed.
Lemma mono_e k : forall f minp ts x, pexpr f minp ts = Some x -> pexpr (k + f) minp ts = Some x.
Proof. induction k; cbn; auto. intros. apply mono. auto. Qed.
Lemma mono_l k : forall f l minp ts x, ploop f l minp ts = Some x -> ploop (k + f) l minp ts = Some x.
Proof. induction k; cbn; auto. intros. apply mono. auto. Qed.

(* grammar level of a prefix operator and of the top of an expression, as the parser sees them *)
Definition ulevel (o : unop) : nat := match o with Not => 6 | _ => 14 end.
Definition top_rbp (e : expr) : nat := match e with EName _ | ENum _ => 100 | EBin _ o _ => rbp o | EUn o _ => ulevel o end.
Definition follow_ok (e : expr) (rest : list tok) : Prop := match rest with TOp o :: _ => lbp o < top_rbp e | _ => True end.
Definition bp_ok (e : expr) (minp : nat) : Prop := match e with EName _ | ENum _ => True | EBin _ o _ => minp <= lbp o | EUn o _ => minp <= ulevel o end.

Lemma lbp_le o : lbp o <= 15. Proof. destruct o; cbn; lia. Qed.
Lemma lbp_ge o : 8 <= lbp o. Proof. destruct o; cbn; lia. Qed.
Lemma bp_ok_0 e : bp_ok e 0. Proof. destruct e; cbn; auto; lia. Qed.

(* after a complete operand whose follower cannot be absorbed, the loop stops *)
Lemma ploop_stops f e lvl rest : (match rest with TOp o :: _ => lbp o < lvl | _ => True end) -> ploop (S f) e lvl rest = Some (e, rest).
Proof.
  intro H. rewrite ploop_S. destruct rest as [|[n|n|o| | | |] r]; auto.
  destruct (Nat.ltb_spec (lbp o) lvl); auto. lia.
Qed.

(* parenthesised operand: always parseable, at any level *)
Lemma parse_paren x nx lvl rest g :
  (forall f minp rest0 y, bp_ok x minp -> follow_ok x rest0 -> ploop f x minp rest0 = Some y -> pexpr (nx + f) minp (pr x ++ rest0) = Some y) ->
  (match rest with TOp o :: _ => lbp o < lvl | _ => True end) ->
  g >= nx + 4 -> pexpr g lvl (TLP :: pr x ++ [TRP] ++ rest) = Some (x, rest).
Proof.
  intros IH Hf Hg. replace g with (S (g - 1)) by lia. rewrite pexpr_S.
  replace (g - 1) with ((g - 1 - nx - 1) + (nx + 1)) by lia.
  erewrite mono_e with (x := (x, [TRP] ++ rest)).
  2:{ apply IH; [apply bp_ok_0 | cbn; auto | rewrite ploop_S; reflexivity]. }
  cbn [app]. replace (g - 1 - nx - 1 + (nx + 1)) with (S (g - 2)) by lia. apply ploop_stops. exact Hf.
Qed.

Lemma key : forall e, exists n, forall f minp rest x,
   bp_ok e minp -> follow_ok e rest ->
   ploop f e minp rest = Some x -> pexpr (n + f) minp (pr e ++ rest) = Some x.
Proof.
  induction e as [m | m | l IHl o r IHr | o e IHe].
  - exists 1. intros. cbn [pr app]. replace (1 + f) with (S f) by lia. rewrite pexpr_S. auto.
  - exists 1. intros. cbn [pr app]. replace (1 + f) with (S f) by lia. rewrite pexpr_S. auto.
  - destruct IHl as [nl IHl]. destruct IHr as [nr IHr].
    exists (nl + nr + 12). intros f minp rest x Hbp Hfo Hloop.
    cbn [pr]. rewrite <- app_assoc. cbn [app].
    assert (Hfo' : match rest with TOp o' :: _ => lbp o' < rbp o | _ => True end) by exact Hfo.
    (* the right operand, parsed at rbp o, is exactly r *)
    assert (Hr : forall g, g >= nr + f + 5 -> pexpr g (rbp o) (paren (rparen o r) (pr r) ++ rest) = Some (r, rest)).
    { intros g Hg. unfold paren. destruct (rparen o r) eqn:Erp.
      - cbn [app]. rewrite <- app_assoc. apply (parse_paren r nr); auto. lia.
      - replace g with ((g - nr - 1) + (nr + 1)) by lia. apply mono_e. apply IHr.
        + unfold rparen in Erp. destruct r as [| |rl ro rr|uo rx]; cbn; auto; cbn in Erp.
          * destruct o, ro; cbn in *; try discriminate; lia.
          * destruct o, uo; cbn in *; try discriminate; lia.
        + destruct rest as [|[n|n|o'| | | |] rest']; cbn; auto. cbn in Hfo.
          unfold rparen in Erp. pose proof (lbp_le o'). pose proof (lbp_ge o').
          destruct r as [| |rl ro rr|uo rx]; cbn in *; try lia.
          * destruct o, ro; cbn in *; try discriminate; try lia; destruct o'; cbn in *; lia.
          * destruct o, uo; cbn in *; try discriminate; try lia; destruct o'; cbn in *; lia.
        + replace (nr + 1) with (S nr) by lia. apply ploop_stops. exact Hfo'. }
    (* the loop after l sees the operator *)
    assert (Hl : ploop (nr + f + 7) l minp (TOp o :: paren (rparen o r) (pr r) ++ rest) = Some x).
    { replace (nr + f + 7) with (S (nr + f + 6)) by lia. rewrite ploop_S.
      cbn in Hbp. destruct (Nat.ltb_spec (lbp o) minp); [lia|].
      rewrite Hr by lia. replace (nr + f + 6) with ((nr + 6) + f) by lia. now apply mono_l. }
    unfold paren at 1. destruct (lparen l o) eqn:Elp.
    + cbn [app]. replace (nl + nr + 12 + f) with (S (nl + nr + 11 + f)) by lia. rewrite pexpr_S. rewrite <- app_assoc.
      replace (nl + nr + 11 + f) with ((nr + f + 10) + (nl + 1)) by lia.
      erewrite mono_e with (x := (l, [TRP] ++ TOp o :: paren (rparen o r) (pr r) ++ rest)).
      2:{ apply IHl; [apply bp_ok_0 | cbn; auto | rewrite ploop_S; reflexivity]. }
      cbn [app]. replace (nr + f + 10 + (nl + 1)) with (4 + nl + (nr + f + 7)) by lia. now apply mono_l.
    + replace (nl + nr + 12 + f) with (5 + (nl + (nr + f + 7))) by lia. apply mono_e. apply IHl; auto.
      * unfold lparen in Elp. destruct l as [| |ll lo lr|uo lx]; cbn; auto; cbn in Hbp, Elp.
        -- destruct o, lo; cbn in *; try discriminate; lia.
        -- destruct o, uo; cbn in *; try discriminate; lia.
      * cbn. unfold lparen in Elp. pose proof (lbp_le o). destruct l as [| |ll lo lr|uo lx]; cbn in *; try lia.
        -- destruct o, lo; cbn in *; try discriminate; lia.
        -- destruct o, uo; cbn in *; try discriminate; lia.
  - destruct IHe as [n IHe]. exists (n + 12). intros f minp rest x Hbp Hfo Hloop.
    cbn [pr app]. cbn in Hbp.
    assert (Hfo' : match rest with TOp o' :: _ => lbp o' < ulevel o | _ => True end) by exact Hfo.
    assert (Hx : pexpr (n + 11 + f) (ulevel o) (paren (uparen o e) (pr e) ++ rest) = Some (e, rest)).
    { unfold paren. destruct (uparen o e) eqn:En.
      - cbn [app]. rewrite <- app_assoc. apply (parse_paren e n); auto. lia.
      - replace (n + 11 + f) with ((f + 10) + (n + 1)) by lia. apply mono_e. apply IHe.
        + unfold uparen in En. destruct e as [| |el eo er|uo ex]; cbn; auto; cbn in En.
          * destruct o, eo; cbn in *; try discriminate; lia.
          * destruct o, uo; cbn in *; try discriminate; lia.
        + destruct rest as [|[m|m|o'| | | |] rest']; cbn; auto. cbn in Hfo.
          unfold uparen in En. pose proof (lbp_le o'). pose proof (lbp_ge o').
          destruct e as [| |el eo er|uo ex]; cbn in *; try lia.
          * destruct o, eo; cbn in *; try discriminate; try lia; destruct o'; cbn in *; lia.
          * destruct o, uo; cbn in *; try discriminate; lia.
        + replace (n + 1) with (S n) by lia. apply ploop_stops. exact Hfo'. }
    assert (Hle : (minp <=? ulevel o) = true) by (apply Nat.leb_le; exact Hbp).
    replace (n + 12 + f) with (S (n + 11 + f)) by lia. rewrite pexpr_S.
    destruct o; cbn [untok ulevel] in *; rewrite Hle, Hx; replace (n + 11 + f) with ((n + 11) + f) by lia; now apply mono_l.
Qed.

Theorem roundtrip e : exists n, forall f, f >= n -> pexpr f 0 (pr e) = Some (e, []).
Proof.
  destruct (key e) as [n H]. exists (n + 1). intros f Hf.
  replace f with ((f - n - 1) + (n + 1)) by lia. apply mono_e.
  rewrite <- (app_nil_r (pr e)). apply H; [apply bp_ok_0 | cbn; auto | rewrite ploop_S; reflexivity].
Qed.
