From PM Require Import Model.Base Model.Hoist.
Open Scope bool_scope.

Lemma insert_spec new l : insert new l = takewhile is_prefix_stmt l ++ new :: dropwhile is_prefix_stmt l.
Proof. induction l as [|x l IH]; cbn; [reflexivity|]. destruct (is_prefix_stmt x); cbn; [now rewrite IH|reflexivity]. Qed.
Lemma takewhile_all {A} (p : A -> bool) l : forallb p (takewhile p l) = true.
Proof. induction l as [|x l IH]; cbn; [reflexivity|]. destruct (p x) eqn:E; cbn; [now rewrite E|reflexivity]. Qed.
Lemma dropwhile_head {A} (p : A -> bool) l x r : dropwhile p l = x :: r -> p x = false.
Proof. induction l as [|y l IH]; cbn; [discriminate|]. destruct (p y) eqn:E; [exact IH|]. intro H; injection H as <- _. exact E. Qed.
Lemma take_drop {A} (p : A -> bool) l : takewhile p l ++ dropwhile p l = l.
Proof. induction l as [|x l IH]; cbn; [reflexivity|]. destruct (p x); cbn; [now rewrite IH|reflexivity]. Qed.

(* the new statement comes after every docstring / __future__ statement of the maximal prefix, before everything else,
   and nothing else moves *)
Theorem insert_position new l :
  exists pre post, insert new l = pre ++ new :: post /\ pre ++ post = l /\ forallb is_prefix_stmt pre = true /\
    match post with [] => True | x :: _ => is_prefix_stmt x = false end.
Proof.
  exists (takewhile is_prefix_stmt l), (dropwhile is_prefix_stmt l). repeat split.
  - apply insert_spec.
  - apply take_drop.
  - apply takewhile_all.
  - destruct (dropwhile is_prefix_stmt l) eqn:E; [exact I|]. eapply dropwhile_head; eauto.
Qed.

Lemma is_prefix_refl a : is_prefix a a = true.
Proof. induction a; cbn; [reflexivity|]. now rewrite N.eqb_refl. Qed.
Lemma common_path_prefix_l a b : is_prefix (common_path a b) a = true.
Proof.
  revert b; induction a as [|x a IH]; intros [|y b]; cbn; try reflexivity.
  destruct (N.eqb x y) eqn:E; cbn; [|reflexivity]. now rewrite N.eqb_refl, IH.
Qed.
Lemma common_path_prefix_r a b : is_prefix (common_path a b) b = true.
Proof.
  revert b; induction a as [|x a IH]; intros [|y b]; cbn; try reflexivity.
  destruct (N.eqb x y) eqn:E; cbn; [|reflexivity]. now rewrite E, IH.
Qed.
Lemma is_prefix_trans a b c : is_prefix a b = true -> is_prefix b c = true -> is_prefix a c = true.
Proof.
  revert b c; induction a as [|x a IH]; intros [|y b] [|z c]; cbn; try reflexivity; try discriminate.
  intros H1 H2. apply andb_true_iff in H1 as [E1 H1]. apply andb_true_iff in H2 as [E2 H2].
  apply N.eqb_eq in E1, E2. subst. rewrite N.eqb_refl. cbn. eauto.
Qed.
Lemma fold_common_prefix_acc rest : forall p, is_prefix (fold_left common_path rest p) p = true.
Proof.
  induction rest as [|q rest IH]; intro p; cbn; [apply is_prefix_refl|].
  eapply is_prefix_trans; [apply IH|apply common_path_prefix_l].
Qed.
Lemma fold_common_prefix_each rest : forall p q, In q rest -> is_prefix (fold_left common_path rest p) q = true.
Proof.
  induction rest as [|r rest IH]; intros p q H; [destruct H|]. cbn. destruct H as [->|H].
  - eapply is_prefix_trans; [apply fold_common_prefix_acc|apply common_path_prefix_r].
  - apply IH. exact H.
Qed.
(* the namespace path chosen for a hoisted binding is a prefix of the path of EVERY use: its last namespace encloses them all *)
Theorem place_encloses paths q : In q paths -> is_prefix (place paths) q = true.
Proof.
  destruct paths as [|p rest]; [intros []|]. cbn [place]. intros [<-|H].
  - apply fold_common_prefix_acc.
  - now apply fold_common_prefix_each.
Qed.
(* every path starts at the module: the chosen path is never empty *)
Lemma common_path_head x a b : common_path (x :: a) (x :: b) = x :: common_path a b.
Proof. cbn. now rewrite N.eqb_refl. Qed.
Theorem place_nonempty paths : paths <> [] -> Forall (fun p => exists t, p = 0%N :: t) paths -> exists t, place paths = 0%N :: t.
Proof.
  destruct paths as [|p rest]; [congruence|]. intros _ H. inversion H as [|? ? [t ->] Hrest]; subst. cbn [place].
  clear H. revert t. induction Hrest as [|q rest [tq ->] _ IH]; intro t; cbn [fold_left]; [eauto|].
  rewrite common_path_head. apply IH.
Qed.

Theorem hv_eq_spec a b : hv_eq a b = true <-> a = b.
Proof.
  destruct a as [ta va], b as [tb vb]. unfold hv_eq. cbn [fst snd]. split.
  - destruct ta, tb; try discriminate; intro H; apply text_eqb_eq in H; now subst.
  - intro H; injection H as -> ->. destruct tb; apply text_eqb_refl.
Qed.
