(* Refinement of the generated CLI model (Gen/Cli.v, regenerated from __main__.py on every run) to the
   hand-written specification (Proofs/CliSpec.v), and the consequences used by C13, C14, C15. *)
From Coq Require Import String.
From PM Require Import Model.CliBase Gen.Cli Proofs.CliSpec.
Open Scope bool_scope.

(* ------------------------------------------------------------------ preserve-list splitting *)
Lemma fold_left_app_flat_map {A B} (f : A -> list B) l init :
  fold_left (fun acc x => acc ++ f x) l init = init ++ flat_map f l.
Proof.
  revert init; induction l as [|x l IH]; intro init; cbn [fold_left flat_map].
  - now rewrite app_nil_r.
  - rewrite IH. now rewrite app_assoc.
Qed.

Lemma names_of_given (given : option (list text)) :
  (if truthy given
   then fold_left (fun acc arg => acc ++ map (fun name => strip name) (filter (fun name => truthy name) (split_on 44 arg)))
                  (opt_get given) []
   else []) = documented_names given.
Proof.
  unfold documented_names. destruct given as [[|x l]|]; cbn [truthy Truthy_option Truthy_list opt_get]; try reflexivity.
  rewrite fold_left_app_flat_map. reflexivity.
Qed.

(* ------------------------------------------------------------------ do_minify *)
Lemma do_minify_spec api env src fn F path out pl pg :
  do_minify api env src fn (args_of F path out pl pg)
  = size_rule env src (api src fn (documented F pl pg)).
Proof.
  unfold do_minify, args_of, documented, size_rule.
  cbn [a_path a_output a_in_place a_combine_imports a_remove_pass a_remove_literal_statements a_hoist_literals
       a_rename_locals a_preserve_locals a_rename_globals a_preserve_globals a_remove_object_base
       a_convert_posargs_to_args a_preserve_shebang a_remove_asserts a_remove_debug a_remove_explicit_return_none
       a_remove_exception_brackets a_constant_folding a_remove_annotations a_remove_variable_annotations
       a_remove_return_annotations a_remove_argument_annotations a_remove_class_attribute_annotations].
  rewrite !names_of_given.
  unfold is_False. rewrite negb_involutive.
  destruct (F F_no_remove_annotations); reflexivity.
Qed.

(* every args record is args_of of its own fields when the booleans are read back as flags *)
Definition flags_of (a : args) : flag -> bool := fun f =>
  match f with
  | F_in_place => a_in_place a
  | F_no_combine_imports => negb (a_combine_imports a)
  | F_no_remove_pass => negb (a_remove_pass a)
  | F_remove_literal_statements => a_remove_literal_statements a
  | F_no_hoist_literals => negb (a_hoist_literals a)
  | F_no_rename_locals => negb (a_rename_locals a)
  | F_rename_globals => a_rename_globals a
  | F_no_remove_object_base => negb (a_remove_object_base a)
  | F_no_convert_posargs_to_args => negb (a_convert_posargs_to_args a)
  | F_no_preserve_shebang => negb (a_preserve_shebang a)
  | F_remove_asserts => a_remove_asserts a
  | F_remove_debug => a_remove_debug a
  | F_no_remove_explicit_return_none => negb (a_remove_explicit_return_none a)
  | F_no_remove_builtin_exception_brackets => negb (a_remove_exception_brackets a)
  | F_no_constant_folding => negb (a_constant_folding a)
  | F_no_remove_annotations => negb (a_remove_annotations a)
  | F_no_remove_variable_annotations => negb (a_remove_variable_annotations a)
  | F_no_remove_return_annotations => negb (a_remove_return_annotations a)
  | F_no_remove_argument_annotations => negb (a_remove_argument_annotations a)
  | F_remove_class_attribute_annotations => a_remove_class_attribute_annotations a
  end.
Lemma args_of_flags_of a :
  args_of (flags_of a) (a_path a) (a_output a) (a_preserve_locals a) (a_preserve_globals a) = a.
Proof. destruct a. unfold args_of, flags_of. cbn. rewrite !negb_involutive. reflexivity. Qed.

Definition opts_of (a : args) : options :=
  documented (flags_of a) (a_preserve_locals a) (a_preserve_globals a).
Lemma do_minify_any api env src fn a :
  do_minify api env src fn a = size_rule env src (api src fn (opts_of a)).
Proof. rewrite <- (args_of_flags_of a) at 1. apply do_minify_spec. Qed.

(* the size rule: whatever do_minify hands back is never larger than the source unless the override is set *)
Lemma size_rule_le env src r b :
  truthy env = false -> size_rule env src r = DmOk b -> length b <= length src.
Proof.
  unfold size_rule. intros He. destruct r as [m|e]; [|discriminate]. rewrite He.
  destruct (Nat.ltb (length src) (length (utf8 m))) eqn:Hlt; [discriminate|].
  intro H; injection H as <-. apply Nat.ltb_ge in Hlt. exact Hlt.
Qed.
Lemma size_rule_ok env src r b :
  size_rule env src r = DmOk b -> exists m, r = ApiOk m /\ b = utf8 m.
Proof.
  unfold size_rule. destruct r as [m|e]; [|discriminate].
  destruct (truthy env); [intro H; injection H as <-; eauto|].
  destruct (Nat.ltb _ _); [discriminate|]. intro H; injection H as <-; eauto.
Qed.
Lemma size_rule_nb env src r :
  size_rule env src r = DmNotBeneficial ->
  truthy env = false /\ exists m, r = ApiOk m /\ length src < length (utf8 m).
Proof.
  unfold size_rule. destruct r as [m|e]; [|discriminate].
  destruct (truthy env); [discriminate|].
  destruct (Nat.ltb _ _) eqn:Hlt; [|discriminate]. intros _. split; [reflexivity|].
  exists m. split; [reflexivity|]. now apply Nat.ltb_lt.
Qed.

(* ------------------------------------------------------------------ main refines main_spec *)
Lemma emit_pair e es st : emit e (es, st) = (e :: es, st).
Proof. reflexivity. Qed.
Lemma emit_surj e (k : trace) : emit e k = (e :: fst k, snd k).
Proof. reflexivity. Qed.

Lemma main_refines_spec api fs env stdin a :
  main api fs env stdin a = main_spec api fs env stdin a.
Proof.
  unfold main, main_spec.
  destruct (a_path a) as [|p [|q r]] eqn:Hp; cbn [length Nat.eqb andb nth].
  1,3: rewrite ?andb_false_r.
  3: destruct (text_eqb p (t "-")) eqn:Hd; cbn [andb].
  3: { (* stdin *)
       unfold stdin_spec. destruct (do_minify api env stdin (t "stdin") a); try reflexivity;
       destruct (truthy (a_output a)); reflexivity. }
  all: generalize (source_modules fs a); intro items;
    unfold file_step, announce, deliver;
    destruct (truthy (a_output a)) eqn:Ho; destruct (a_in_place a) eqn:Hi; cbn [orb];
    induction items as [|[p'|] items IH]; [reflexivity| |reflexivity| reflexivity| |reflexivity|reflexivity| |reflexivity|reflexivity| |reflexivity];
    cbn [run_items]; unfold file_step, announce, deliver; rewrite ?Ho, ?Hi; cbn [orb];
    (destruct (fs_read fs p') as [src|]; [|reflexivity]);
    destruct (do_minify api env src p' a) as [m| |e];
      rewrite ?emit_surj; cbn [fst snd app]; rewrite ?IH; try reflexivity;
      destruct (run_items api fs env a items); reflexivity.
Qed.

Lemma cli_spec api fs env stdin a :
  cli api fs env stdin a =
  match validate fs a with Some c => ([], Exit c) | None => main_spec api fs env stdin a end.
Proof. unfold cli. now rewrite main_refines_spec. Qed.

(* ------------------------------------------------------------------ validation *)
Lemma invalid_rejected fs a :
  invalid fs a = true -> exists c, validate fs a = Some c /\ c <> 0%Z.
Proof.
  unfold invalid, validate, uses_stdin. intro H.
  repeat match goal with
  | |- context [if ?c then _ else _] => let E := fresh "E" in destruct c eqn:E; [eexists; split; [reflexivity|discriminate]|]
  end.
  exfalso.
  destruct (a_path a) as [|p [|q r]]; cbn [length Nat.eqb Nat.ltb Nat.leb negb nth andb] in *;
  repeat match goal with H : _ |- _ => rewrite ?andb_true_r, ?andb_false_r, ?orb_false_r in H end;
  repeat match goal with
         | H : (_ || _) = true |- _ => apply orb_true_iff in H as [H|H]
         | H : ?x = true, H' : ?x = false |- _ => congruence
         end; try congruence; try discriminate.
Qed.

Lemma validate_codes fs a c : validate fs a = Some c -> c = 1%Z.
Proof.
  unfold validate.
  repeat match goal with |- context [if ?c then _ else _] => destruct c end; congruence.
Qed.

(* ------------------------------------------------------------------ facts about run_items *)
Lemma run_items_app api fs env a l1 l2 :
  run_items api fs env a (l1 ++ l2) =
  match snd (run_items api fs env a l1) with
  | Done => (fst (run_items api fs env a l1) ++ fst (run_items api fs env a l2), snd (run_items api fs env a l2))
  | _ => run_items api fs env a l1
  end.
Proof.
  induction l1 as [|[p|] l1 IH]; cbn [app run_items fst snd].
  - destruct (run_items api fs env a l2); reflexivity.
  - destruct (file_step api fs env a p) as [es [| |]]; cbn [fst snd]; try reflexivity.
    rewrite IH. destruct (snd (run_items api fs env a l1)) eqn:Hs; cbn [fst snd]; rewrite ?Hs; try reflexivity.
    now rewrite app_assoc.
  - reflexivity.
Qed.

Lemma file_step_effects api fs env a p es st e :
  file_step api fs env a p = (es, st) -> In e es ->
  e = EOutT (p ++ [10%N]) \/ e = ERead p \/
  exists src, fs_read fs p = Some src /\
    ((exists m, do_minify api env src p a = DmOk m /\ In e (deliver a p m)) \/
     (do_minify api env src p a = DmNotBeneficial /\ a_in_place a = false /\ In e (deliver a p src))).
Proof.
  unfold file_step. intros H Hin.
  assert (Hann : In e (announce a p) -> e = EOutT (p ++ [10%N])).
  { unfold announce. destruct (truthy (a_output a) || a_in_place a); [intros [<-|[]]; reflexivity | intros []]. }
  destruct (fs_read fs p) as [src|] eqn:Hr.
  2: { injection H as <- <-. left. auto. }
  destruct (do_minify api env src p a) as [m| |ex] eqn:Hd; injection H as <- <-.
  - apply in_app_or in Hin as [Hin|Hin]; [left; auto|].
    destruct Hin as [<-|Hin].
    + right; left; reflexivity.
    + right; right. exists src. split; [reflexivity|]. left. eauto.
  - apply in_app_or in Hin as [Hin|Hin]; [left; auto|].
    destruct Hin as [<-|Hin].
    + right; left; reflexivity.
    + right; right. exists src. split; [reflexivity|]. right.
      destruct (a_in_place a); [destruct Hin|]. auto.
  - apply in_app_or in Hin as [Hin|Hin]; [left; auto|].
    destruct Hin as [<-|[]]. right; left; reflexivity.
Qed.

Lemma run_items_effects api fs env a items e :
  In e (fst (run_items api fs env a items)) ->
  exists p es st, In (WPath p) items /\ file_step api fs env a p = (es, st) /\ In e es.
Proof.
  induction items as [|[p|] items IH]; cbn [run_items fst]; intro H; try (destruct H; fail).
  destruct (file_step api fs env a p) as [es st] eqn:Hf.
  destruct st; cbn [fst] in H.
  - apply in_app_or in H as [H|H].
    + exists p, es, Done. repeat split; auto. now left.
    + destruct (IH H) as (p' & es' & st' & Hin & Hf' & He). exists p', es', st'. repeat split; auto. now right.
  - exists p, es, (Exit code). repeat split; auto. now left.
  - exists p, es, (Raised e0). repeat split; auto. now left.
Qed.

(* which paths source_modules can yield *)
Lemma source_modules_selected fs a p :
  In (WPath p) (source_modules fs a) ->
  (In p (a_path a) /\ fs_isdir fs p = false) \/
  (exists d root files f, In d (a_path a) /\ fs_isdir fs d = true /\ In (inl (root, files)) (fs_walk fs d) /\
       In f files /\ (endswith f (t ".py") || endswith f (t ".pyw")) = true /\ p = path_join root f).
Proof.
  unfold source_modules. rewrite in_flat_map. intros (d & Hd & Hin).
  destruct (fs_isdir fs d) eqn:Hdir.
  - right. unfold walk_dir in Hin. rewrite in_flat_map in Hin. destruct Hin as (x & Hx & Hin).
    destruct x as [[root files]|[]].
    + rewrite in_map_iff in Hin. destruct Hin as (f & Hf & Hfin). injection Hf as <-.
      apply filter_In in Hfin as [Hfin Hsuf].
      exists d, root, files, f. repeat split; auto.
      cbn [existsb] in Hsuf. now rewrite orb_false_r in Hsuf.
    + destruct Hin as [Hin|[]]. discriminate.
  - left. destruct Hin as [Hin|[]]. injection Hin as <-. auto.
Qed.

(* ------------------------------------------------------------------ where every emitted byte string comes from *)
Lemma deliver_bytes a p b e x : In e (deliver a p b) -> emitted_bytes e = Some x -> x = b.
Proof.
  unfold deliver. destruct (a_in_place a); [|destruct (truthy (a_output a))];
    intros [<-|[]]; cbn; congruence.
Qed.

Lemma emitted_origin api fs env stdin a e b :
  In e (fst (main_spec api fs env stdin a)) -> emitted_bytes e = Some b ->
  exists src fn,
    ((src = stdin /\ fn = t "stdin" /\ a_path a = [t "-"]) \/
     (In (WPath fn) (source_modules fs a) /\ fs_read fs fn = Some src)) /\
    (do_minify api env src fn a = DmOk b \/ (do_minify api env src fn a = DmNotBeneficial /\ b = src)).
Proof.
  unfold main_spec. intros Hin Hb.
  assert (Hloop : In e (fst (run_items api fs env a (source_modules fs a))) ->
          exists src fn, ((src = stdin /\ fn = t "stdin" /\ a_path a = [t "-"]) \/
             (In (WPath fn) (source_modules fs a) /\ fs_read fs fn = Some src)) /\
            (do_minify api env src fn a = DmOk b \/ (do_minify api env src fn a = DmNotBeneficial /\ b = src))).
  { intro H. apply run_items_effects in H as (p & es & st & Hp & Hf & He).
    destruct (file_step_effects _ _ _ _ _ _ _ _ Hf He) as [->|[->|(src & Hr & Hcase)]]; try discriminate.
    exists src, p. split; [right; auto|].
    destruct Hcase as [(m & Hd & Hdel)|(Hd & _ & Hdel)].
    - left. rewrite Hd. f_equal. symmetry. eapply deliver_bytes; eauto.
    - right. split; [exact Hd|]. eapply deliver_bytes; eauto. }
  destruct (a_path a) as [|p [|q r]] eqn:Hp; auto.
  destruct (text_eqb p (t "-")) eqn:Hd; auto.
  apply text_eqb_eq in Hd. subst p.
  unfold stdin_spec in Hin. exists stdin, (t "stdin"). split; [left; auto|].
  destruct (do_minify api env stdin (t "stdin") a) as [m| |ex]; cbn [fst] in Hin.
  - left. f_equal. destruct (truthy (a_output a)); destruct Hin as [<-|[]]; cbn in Hb; congruence.
  - right. split; [reflexivity|]. destruct (truthy (a_output a)); destruct Hin as [<-|[]]; cbn in Hb; congruence.
  - destruct Hin.
Qed.

Lemma cli_effects_main api fs env stdin a e :
  In e (fst (cli api fs env stdin a)) -> validate fs a = None /\ In e (fst (main_spec api fs env stdin a)).
Proof. rewrite cli_spec. destruct (validate fs a); cbn [fst]; [intros []|auto]. Qed.

(* C14 *)
Lemma c14_never_larger api fs env stdin a e b :
  truthy env = false ->
  In e (fst (cli api fs env stdin a)) -> emitted_bytes e = Some b ->
  exists src fn,
    ((src = stdin /\ fn = t "stdin" /\ a_path a = [t "-"]) \/
     (In (WPath fn) (source_modules fs a) /\ fs_read fs fn = Some src)) /\
    length b <= length src /\
    ((exists m, api src fn (opts_of a) = ApiOk m /\ b = utf8 m /\ length (utf8 m) <= length src) \/
     (exists m, api src fn (opts_of a) = ApiOk m /\ length src < length (utf8 m) /\ b = src)).
Proof.
  intros He Hin Hb. apply cli_effects_main in Hin as [_ Hin].
  destruct (emitted_origin _ _ _ _ _ _ _ Hin Hb) as (src & fn & Hsrc & Hcase).
  exists src, fn. split; [exact Hsrc|].
  rewrite do_minify_any in Hcase. destruct Hcase as [Hok|[Hnb ->]].
  - pose proof (size_rule_le _ _ _ _ He Hok) as Hle. split; [exact Hle|]. left.
    destruct (size_rule_ok _ _ _ _ Hok) as (m & Hm & ->). eauto.
  - split; [lia|]. right. destruct (size_rule_nb _ _ _ Hnb) as (_ & m & Hm & Hlt). eauto.
Qed.

(* in-place: a module that would grow is not written at all *)
Lemma c14_in_place_growing_untouched api fs env a p src es st q b :
  a_in_place a = true -> fs_read fs p = Some src -> do_minify api env src p a = DmNotBeneficial ->
  file_step api fs env a p = (es, st) -> ~ In (EWrite q b) es.
Proof.
  unfold file_step, announce. intros Hi Hr Hd H. rewrite Hr, Hd, Hi in H. injection H as <- <-.
  rewrite orb_true_r. cbn. intros [H|[H|[]]]; discriminate.
Qed.

Lemma c14_override_only api src fn a env :
  (truthy env = false -> do_minify api env src fn a = do_minify api None src fn a) /\
  (truthy env = true -> forall m, api src fn (opts_of a) = ApiOk m -> do_minify api env src fn a = DmOk (utf8 m)).
Proof.
  rewrite !do_minify_any. unfold size_rule. split.
  - intros ->. reflexivity.
  - intros -> m ->. reflexivity.
Qed.

(* C15 *)
Lemma c15_targets api fs env stdin a p b :
  In (EWrite p b) (fst (cli api fs env stdin a)) ->
  (a_in_place a = true /\ In (WPath p) (source_modules fs a)) \/
  (truthy (a_output a) = true /\ p = opt_get (a_output a)).
Proof.
  intro Hin. apply cli_effects_main in Hin as [Hv Hin]. unfold main_spec in Hin.
  assert (Hloop : In (EWrite p b) (fst (run_items api fs env a (source_modules fs a))) ->
     (a_in_place a = true /\ In (WPath p) (source_modules fs a)) \/
     (truthy (a_output a) = true /\ p = opt_get (a_output a))).
  { intro H. apply run_items_effects in H as (p' & es & st & Hp & Hf & He).
    destruct (file_step_effects _ _ _ _ _ _ _ _ Hf He) as [H|[H|(src & Hr & Hcase)]]; try discriminate.
    assert (Hdel : forall x, In (EWrite p b) (deliver a p' x) ->
       (a_in_place a = true /\ In (WPath p) (source_modules fs a)) \/ (truthy (a_output a) = true /\ p = opt_get (a_output a))).
    { unfold deliver. intro x. destruct (a_in_place a) eqn:Hi.
      - intros [H|[]]. injection H as <- <-. left; auto.
      - destruct (truthy (a_output a)) eqn:Ho; intros [H|[]]; [|discriminate]. injection H as <- <-. right; auto. }
    destruct Hcase as [(m & _ & Hd)|(_ & _ & Hd)]; eapply Hdel; eauto. }
  destruct (a_path a) as [|p0 [|q r]] eqn:Hp; auto.
  destruct (text_eqb p0 (t "-")) eqn:Hd; auto.
  unfold stdin_spec in Hin. right.
  destruct (do_minify api env stdin (t "stdin") a); cbn [fst] in Hin; try (destruct Hin; fail);
    destruct (truthy (a_output a)) eqn:Ho; destruct Hin as [H|[]]; try discriminate; injection H as <- <-; auto.
Qed.

Lemma c15_content_in_place api fs env stdin a p b :
  a_in_place a = true -> In (EWrite p b) (fst (cli api fs env stdin a)) ->
  validate fs a = None /\
  exists src m, fs_read fs p = Some src /\ api src p (opts_of a) = ApiOk m /\ b = utf8 m.
Proof.
  intros Hi Hin. pose proof Hin as Hin0. apply cli_effects_main in Hin as [Hv Hin]. split; [exact Hv|].
  unfold main_spec in Hin.
  assert (Hnostdin : forall x, a_path a = [x] -> text_eqb x (t "-") = false).
  { intros x Hx. destruct (text_eqb x (t "-")) eqn:E; [|reflexivity]. apply text_eqb_eq in E. subst x.
    unfold validate in Hv. rewrite Hx, Hi in Hv. cbn in Hv. discriminate. }
  assert (Hrun : In (EWrite p b) (fst (run_items api fs env a (source_modules fs a)))).
  { destruct (a_path a) as [|p0 [|q r]] eqn:Hp; auto. rewrite (Hnostdin p0 eq_refl) in Hin. exact Hin. }
  apply run_items_effects in Hrun as (p' & es & st & Hp & Hf & He).
  destruct (file_step_effects _ _ _ _ _ _ _ _ Hf He) as [H|[H|(src & Hr & Hcase)]]; try discriminate.
  destruct Hcase as [(m & Hd & Hdel)|(_ & Hni & _)]; [|congruence].
  unfold deliver in Hdel. rewrite Hi in Hdel. destruct Hdel as [H|[]]. injection H as <- <-.
  rewrite do_minify_any in Hd. destruct (size_rule_ok _ _ _ _ Hd) as (m' & Hm & ->). eauto.
Qed.

Lemma file_step_failure_no_write api fs env a p es st :
  file_step api fs env a p = (es, st) -> st <> Done -> forall e, In e es -> is_write e = false.
Proof.
  unfold file_step, announce. intros H Hst e Hin.
  destruct (fs_read fs p) as [src|].
  - destruct (do_minify api env src p a); injection H as <- <-; try congruence.
    apply in_app_or in Hin as [Hin|[<-|[]]]; [|reflexivity].
    destruct (truthy (a_output a) || a_in_place a); [destruct Hin as [<-|[]]; reflexivity | destruct Hin].
  - injection H as <- <-.
    destruct (truthy (a_output a) || a_in_place a); [destruct Hin as [<-|[]]; reflexivity | destruct Hin].
Qed.

Lemma c15_failure_prefix api fs env a l1 p l2 es st :
  snd (run_items api fs env a l1) = Done ->
  file_step api fs env a p = (es, st) -> st <> Done ->
  run_items api fs env a (l1 ++ WPath p :: l2) = (fst (run_items api fs env a l1) ++ es, st) /\
  (forall e, In e es -> is_write e = false).
Proof.
  intros Hd Hf Hst. split; [|eapply file_step_failure_no_write; eauto].
  rewrite run_items_app, Hd. cbn [run_items]. rewrite Hf.
  destruct st; [congruence| |]; reflexivity.
Qed.

Lemma c15_walk_error_prefix api fs env a l1 l2 :
  snd (run_items api fs env a l1) = Done ->
  run_items api fs env a (l1 ++ WErr :: l2) = (fst (run_items api fs env a l1) ++ [], Raised OSError).
Proof. intros Hd. rewrite run_items_app, Hd. reflexivity. Qed.

(* order inside one file: announce, then the read, then (at most) one delivery; nothing is written before
   do_minify returned for that file *)
Lemma c15_order api fs env a p es st :
  file_step api fs env a p = (es, st) ->
  es = announce a p \/
  exists src, fs_read fs p = Some src /\
    (es = announce a p ++ [ERead p] \/
     exists b, es = announce a p ++ [ERead p] ++ deliver a p b /\
        (do_minify api env src p a = DmOk b \/ (do_minify api env src p a = DmNotBeneficial /\ b = src))).
Proof.
  unfold file_step. intro H. destruct (fs_read fs p) as [src|].
  - right. exists src. split; [reflexivity|].
    destruct (do_minify api env src p a) as [m| |ex]; injection H as <- <-.
    + right. exists m. auto.
    + destruct (a_in_place a).
      * left. reflexivity.
      * right. exists src. auto.
    + left. reflexivity.
  - left. injection H as <- <-. reflexivity.
Qed.

(* C13 *)
Lemma c13_own_option_only F f fld pl pg :
  ~ In fld (owned f) ->
  get fld (documented (toggle f F) pl pg) = get fld (documented F pl pg).
Proof.
  intro H. destruct f, fld;
    try (exfalso; apply H; cbn; tauto); unfold documented, get, toggle; cbn; try reflexivity;
    destruct (F F_no_remove_annotations); reflexivity.
Qed.
Lemma c13_lists_untouched F f pl pg :
  o_preserve_locals (documented (toggle f F) pl pg) = o_preserve_locals (documented F pl pg) /\
  o_preserve_globals (documented (toggle f F) pl pg) = o_preserve_globals (documented F pl pg).
Proof. split; reflexivity. Qed.

Lemma c13_every_option_forwarded n :
  In n api_option_parameters <-> In n forwarded_keywords.
Proof.
  assert (H1 : forallb (fun n => mem_text n forwarded_keywords) api_option_parameters = true) by (vm_compute; reflexivity).
  assert (H2 : forallb (fun n => mem_text n api_option_parameters) forwarded_keywords = true) by (vm_compute; reflexivity).
  rewrite forallb_forall in H1, H2. split; intro H.
  - apply mem_text_In. apply H1. exact H.
  - apply mem_text_In. apply H2. exact H.
Qed.

Lemma documented_names_app l1 l2 :
  documented_names (Some (l1 ++ l2)) = documented_names (Some l1) ++ documented_names (Some l2).
Proof. unfold documented_names. apply flat_map_app. Qed.

(* a comma separated spelling of plain names splits back into exactly those names *)
Fixpoint join_commas (names : list text) : text :=
  match names with
  | [] => []
  | [n] => n
  | n :: rest => n ++ [44%N] ++ join_commas rest
  end.
Definition plain (n : text) : Prop :=
  n <> [] /\ ~ In 44%N n /\ (forall c, hd_error n = Some c -> is_space c = false) /\
  (forall c, hd_error (rev n) = Some c -> is_space c = false).

Lemma split_on_nonempty sep s : split_on sep s <> [].
Proof. induction s as [|c s IH]; cbn [split_on]; [discriminate|].
  destruct (N.eqb c sep); [discriminate|]. destruct (split_on sep s); [congruence|discriminate]. Qed.

Lemma split_on_app_nosep sep n rest :
  ~ In sep n -> split_on sep (n ++ sep :: rest) = n :: split_on sep rest.
Proof.
  induction n as [|c n IH]; intro H; cbn [app split_on].
  - now rewrite N.eqb_refl.
  - destruct (N.eqb c sep) eqn:E; [apply N.eqb_eq in E; subst; exfalso; apply H; now left|].
    rewrite IH; [reflexivity|]. intro H'; apply H; now right.
Qed.
Lemma split_on_nosep sep n : ~ In sep n -> split_on sep n = [n].
Proof.
  induction n as [|c n IH]; intro H; cbn [split_on]; [reflexivity|].
  destruct (N.eqb c sep) eqn:E; [apply N.eqb_eq in E; subst; exfalso; apply H; now left|].
  rewrite IH; [reflexivity|]. intro H'; apply H; now right.
Qed.
Lemma split_join names :
  names <> [] -> Forall (fun n => ~ In 44%N n) names -> split_on 44 (join_commas names) = names.
Proof.
  induction names as [|n [|n2 rest] IH]; intros Hne Hall; [congruence| |].
  - cbn [join_commas]. apply split_on_nosep. now inversion Hall.
  - change (join_commas (n :: n2 :: rest)) with (n ++ 44%N :: join_commas (n2 :: rest)).
    inversion Hall as [|? ? Hn Hrest]; subst. rewrite split_on_app_nosep by exact Hn.
    f_equal. apply IH; [discriminate|exact Hrest].
Qed.
Lemma lstrip_plain_head n : (forall c, hd_error n = Some c -> is_space c = false) -> lstrip n = n.
Proof. destruct n as [|c n]; [reflexivity|]. intro H. cbn [lstrip]. now rewrite (H c eq_refl). Qed.
Lemma strip_plain n : plain n -> strip n = n.
Proof.
  intros (_ & _ & Hh & Ht). unfold strip. rewrite (lstrip_plain_head n Hh), (lstrip_plain_head (rev n) Ht).
  apply rev_involutive.
Qed.
Lemma c13_preserve_split names :
  names <> [] -> Forall plain names -> documented_names (Some [join_commas names]) = names.
Proof.
  intros Hne Hall. unfold documented_names. cbn [flat_map]. rewrite app_nil_r.
  rewrite split_join; [|exact Hne|eapply Forall_impl; [|exact Hall]; intros n Hn; apply Hn].
  clear Hne. induction Hall as [|n rest Hn Hrest IH]; [reflexivity|].
  cbn [filter]. destruct n as [|c n]; [destruct Hn as [Hn _]; congruence|].
  cbn [map]. rewrite IH. f_equal. apply strip_plain. exact Hn.
Qed.

Lemma c13_invalid_rejected api fs env stdin a :
  invalid fs a = true -> exists c, cli api fs env stdin a = ([], Exit c) /\ c <> 0%Z.
Proof.
  intro H. destruct (invalid_rejected fs a H) as (c & Hv & Hc). exists c. unfold cli. now rewrite Hv.
Qed.

(* accepted command line, one file to stdout: exactly [read; bytes] *)
Definition chosen_bytes (env : option text) (src : bytes) (r : api_result) : option bytes :=
  match size_rule env src r with DmOk b => Some b | DmNotBeneficial => Some src | DmRaise _ => None end.
Lemma c13_bytes_file api fs env stdin a p src b :
  validate fs a = None -> a_path a = [p] -> text_eqb p (t "-") = false ->
  a_in_place a = false -> truthy (a_output a) = false ->
  fs_read fs p = Some src -> chosen_bytes env src (api src p (opts_of a)) = Some b ->
  cli api fs env stdin a = ([ERead p; EOutB b], Done).
Proof.
  intros Hv Hp Hns Hi Ho Hr Hb. rewrite cli_spec, Hv. unfold main_spec. rewrite Hp, Hns.
  unfold source_modules. rewrite Hp. cbn [flat_map]. rewrite app_nil_r.
  assert (Hdir : fs_isdir fs p = false).
  { unfold validate in Hv. rewrite Hp, Hi in Hv. cbn [length Nat.eqb nth negb andb] in Hv.
    destruct (fs_isdir fs p); [|reflexivity]. rewrite !andb_false_r in Hv. cbn in Hv. discriminate. }
  rewrite Hdir. cbn [run_items]. unfold file_step, announce, deliver. rewrite Hr, Hi, Ho. cbn [orb].
  unfold chosen_bytes in Hb. rewrite do_minify_any.
  destruct (size_rule env src (api src p (opts_of a))); try discriminate; injection Hb as <-; reflexivity.
Qed.
Lemma c13_bytes_stdin api fs env stdin a b :
  validate fs a = None -> a_path a = [t "-"] -> truthy (a_output a) = false ->
  chosen_bytes env stdin (api stdin (t "stdin") (opts_of a)) = Some b ->
  cli api fs env stdin a = ([EOutB b], Done).
Proof.
  intros Hv Hp Ho Hb. rewrite cli_spec, Hv. unfold main_spec. rewrite Hp, text_eqb_refl.
  unfold stdin_spec. rewrite Ho, do_minify_any. unfold chosen_bytes in Hb.
  destruct (size_rule env stdin (api stdin (t "stdin") (opts_of a))); try discriminate; injection Hb as <-; reflexivity.
Qed.
