From Coq Require Import String.
From PM Require Import Model.Base Model.MiniString Proofs.MiniStringProofs Model.FStr.
Open Scope bool_scope.
Open Scope N_scope.
Ltac Zify.zify_post_hook ::= Z.to_euclidean_division_equations.

Lemma is_q_quote q : is_q q <-> is_quote q. Proof. reflexivity. Qed.

(* what the proofs need of the per-character escaping *)
Record esc_ok (esc : N -> text) : Prop := {
  e_short : forall q c rest, is_q q -> c <> q -> scan_short q (esc c ++ rest) = scan_short q rest;
  e_long : forall q c rest, is_q q -> c <> q -> scan_long q (esc c ++ rest) = scan_long q rest;
  e_head : forall q c, is_q q -> c <> q -> exists x r, esc c = x :: r /\ x <> q }.

Lemma hex2_inert q v : is_q q -> forallb (inert q) (hex_fixed 2 v) = true.
Proof. intro H. apply hex_fixed_inert. exact H. Qed.

Lemma esc_str_ok : esc_ok esc_str.
Proof.
  split.
  - intros q c rest Hq Hc. assert (Hq92 : q <> 92) by (destruct Hq; subst; discriminate).
    unfold esc_str.
    destruct (c =? 10) eqn:E10; [apply (scan_short_escape q 110 [] rest Hq92); reflexivity|].
    destruct (c =? 13) eqn:E13; [apply (scan_short_escape q 114 [] rest Hq92); reflexivity|].
    destruct (c =? 92) eqn:E92; [apply (scan_short_escape q 92 [] rest Hq92); reflexivity|].
    destruct (c =? 0) eqn:E0; [apply (scan_short_escape q 120 [48; 48] rest Hq92); destruct Hq; subst; reflexivity|].
    destruct (surrogate c); [apply (scan_short_escape q 117 (hex_fixed 4 c) rest Hq92); apply hex_fixed_inert; exact Hq|].
    apply (scan_short_inert q [c] rest). cbn. unfold inert. rewrite E10, E92. apply N.eqb_neq in Hc. rewrite Hc. reflexivity.
  - intros q c rest Hq Hc. unfold esc_str.
    destruct (c =? 10) eqn:E10; [apply (scan_long_escape q 110 [] rest); reflexivity|].
    destruct (c =? 13) eqn:E13; [apply (scan_long_escape q 114 [] rest); reflexivity|].
    destruct (c =? 92) eqn:E92; [apply (scan_long_escape q 92 [] rest); reflexivity|].
    destruct (c =? 0) eqn:E0; [apply (scan_long_escape q 120 [48; 48] rest); destruct Hq; subst; reflexivity|].
    destruct (surrogate c).
    + apply (scan_long_escape q 117 (hex_fixed 4 c) rest). eapply forallb_impl; [apply inert_inertL|]. apply hex_fixed_inert; exact Hq.
    + apply (scan_long_inert q [c] rest). cbn. unfold inertL. rewrite E92. apply N.eqb_neq in Hc. rewrite Hc. reflexivity.
  - intros q c Hq Hc. assert (Hq92 : 92 <> q) by (destruct Hq; subst; discriminate). unfold esc_str.
    destruct (c =? 10); [eexists _, _; split; [reflexivity|exact Hq92]|].
    destruct (c =? 13); [eexists _, _; split; [reflexivity|exact Hq92]|].
    destruct (c =? 92); [eexists _, _; split; [reflexivity|exact Hq92]|].
    destruct (c =? 0); [eexists _, _; split; [reflexivity|exact Hq92]|].
    destruct (surrogate c); [eexists _, _; split; [reflexivity|exact Hq92]|].
    eexists _, _; split; [reflexivity|exact Hc].
Qed.

Lemma esc_bytes_ok : esc_ok esc_bytes.
Proof.
  split.
  - intros q c rest Hq Hc. assert (Hq92 : q <> 92) by (destruct Hq; subst; discriminate).
    unfold esc_bytes.
    destruct (c =? 92) eqn:E92; [apply (scan_short_escape q 92 [] rest Hq92); reflexivity|].
    destruct (c =? 10) eqn:E10; [apply (scan_short_escape q 110 [] rest Hq92); reflexivity|].
    destruct (c =? 13) eqn:E13; [apply (scan_short_escape q 114 [] rest Hq92); reflexivity|].
    destruct ((c =? 0) || (128 <=? c)); [apply (scan_short_escape q 120 (hex_fixed 2 c) rest Hq92); apply hex_fixed_inert; exact Hq|].
    apply (scan_short_inert q [c] rest). cbn. unfold inert. rewrite E10, E92. apply N.eqb_neq in Hc. rewrite Hc. reflexivity.
  - intros q c rest Hq Hc. unfold esc_bytes.
    destruct (c =? 92) eqn:E92; [apply (scan_long_escape q 92 [] rest); reflexivity|].
    destruct (c =? 10) eqn:E10; [apply (scan_long_escape q 110 [] rest); reflexivity|].
    destruct (c =? 13) eqn:E13; [apply (scan_long_escape q 114 [] rest); reflexivity|].
    destruct ((c =? 0) || (128 <=? c)).
    + apply (scan_long_escape q 120 (hex_fixed 2 c) rest). eapply forallb_impl; [apply inert_inertL|]. apply hex_fixed_inert; exact Hq.
    + apply (scan_long_inert q [c] rest). cbn. unfold inertL. rewrite E92. apply N.eqb_neq in Hc. rewrite Hc. reflexivity.
  - intros q c Hq Hc. assert (Hq92 : 92 <> q) by (destruct Hq; subst; discriminate). unfold esc_bytes.
    destruct (c =? 92); [eexists _, _; split; [reflexivity|exact Hq92]|].
    destruct (c =? 10); [eexists _, _; split; [reflexivity|exact Hq92]|].
    destruct (c =? 13); [eexists _, _; split; [reflexivity|exact Hq92]|].
    destruct ((c =? 0) || (128 <=? c)); [eexists _, _; split; [reflexivity|exact Hq92]|].
    eexists _, _; split; [reflexivity|exact Hc].
Qed.

Section Closed.
  Variable pre : text.
  Variable esc : N -> text.
  Hypothesis Hpre : pre = [] \/ pre = [98].
  Hypothesis Hesc : esc_ok esc.

  Definition valid (q : quote) : Prop := is_q (qc q).
  (* an open literal: prefix, opening quote, the escapes of characters none of which is the quote character *)
  Definition body_of (q : quote) (cs : text) : Prop := cs <> [] /\ Forall (fun c => c <> qc q) cs.
  Definition open_lit (q : quote) (l : text) : Prop := exists cs, body_of q cs /\ l = pre ++ qtext q ++ flat_map esc cs.
  Definition good_lit (L : text) : Prop := exists q cs, valid q /\ body_of q cs /\ L = pre ++ qtext q ++ flat_map esc cs ++ qtext q.

  Lemma body_short q cs rest : is_q q -> Forall (fun c => c <> q) cs -> scan_short q (flat_map esc cs ++ q :: rest) = Some rest.
  Proof.
    intros Hq H. induction H as [|c cs Hc _ IH]; cbn [flat_map app].
    - cbn [scan_short]. rewrite N.eqb_refl. reflexivity.
    - rewrite <- app_assoc, (e_short esc Hesc) by assumption. exact IH.
  Qed.
  Lemma body_long q cs rest : is_q q -> Forall (fun c => c <> q) cs -> scan_long q (flat_map esc cs ++ q :: q :: q :: rest) = Some rest.
  Proof.
    intros Hq H. induction H as [|c cs Hc _ IH]; cbn [flat_map app].
    - cbn [scan_long starts2 skipn]. assert (q =? 92 = false) by (destruct Hq; subst; reflexivity). rewrite H, !N.eqb_refl. reflexivity.
    - rewrite <- app_assoc, (e_long esc Hesc) by assumption. exact IH.
  Qed.
  Lemma body_head q cs rest : is_q q -> cs <> [] -> Forall (fun c => c <> q) cs -> starts2 q (flat_map esc cs ++ rest) = false.
  Proof.
    intros Hq Hne H. destruct H as [|c cs Hc _]; [contradiction|]. cbn [flat_map].
    destruct (e_head esc Hesc q c Hq Hc) as (x & r & -> & Hx). cbn [app starts2].
    apply N.eqb_neq in Hx. destruct ((r ++ flat_map esc cs) ++ rest); [reflexivity|]. rewrite Hx. reflexivity.
  Qed.

  (* a finished literal is one literal for the reference scanner, whatever follows *)
  Lemma good_lit_closed L rest : good_lit L -> lits_text rest -> lits_text (L ++ rest).
  Proof.
    intros (q & cs & Hq & [Hne Hcs] & ->) Hrest. unfold qtext. destruct (qlong q).
    - rewrite <- !app_assoc. cbn [app].
      eapply LT_long; eauto. apply body_long; assumption.
    - rewrite <- !app_assoc. cbn [app].
      eapply LT_short; eauto; [apply body_head | apply body_short]; assumption.
  Qed.

  Lemma joinr_closed ls : Forall good_lit ls -> lits_text (joinr ls).
  Proof.
    induction 1 as [|l ls Hl Hls IH]; cbn [joinr]; [constructor|].
    apply good_lit_closed; [exact Hl|].
    destruct ls as [|l2 ls']; [exact IH|]. destruct (N.eqb (last l 0) (hd 0 l2)); [apply LT_space|]; exact IH.
  Qed.

  (* the allowed quotes of Python 3.12+: a replacement quote never starts with the character that forced the switch *)
  Lemma get_quote_full c q : get_quote full_quotes c = Some q -> valid q /\ c <> qc q.
  Proof.
    unfold get_quote, full_quotes, differs. cbn [find qlong qc orb].
    destruct (N.eqb_spec c 34) as [->|H34]; cbn [negb].
    - cbn. intro H. injection H as <-. split; [left; reflexivity | discriminate].
    - intro H. injection H as <-. split; [right; reflexivity | exact H34].
  Qed.
  Lemma get_quote_full_total c : get_quote full_quotes c <> None.
  Proof. unfold get_quote, full_quotes, differs. cbn [find qlong qc orb]. destruct (N.eqb_spec c 34) as [->|H34]; cbn; discriminate. Qed.

  Lemma open_extend q l c : valid q -> c <> qc q -> open_lit q l -> open_lit q (l ++ esc c).
  Proof.
    intros Hq Hc (cs & [Hne Hcs] & ->). exists (cs ++ [c]). split.
    - split; [destruct cs; discriminate|]. apply Forall_app. split; [exact Hcs|]. constructor; [exact Hc|constructor].
    - rewrite flat_map_app. cbn [flat_map]. rewrite app_nil_r, <- !app_assoc. reflexivity.
  Qed.
  Lemma open_start q c : c <> qc q -> open_lit q (pre ++ qtext q ++ esc c).
  Proof.
    intro Hc. exists [c]. split; [split; [discriminate|constructor; [exact Hc|constructor]]|]. cbn [flat_map]. rewrite app_nil_r. reflexivity.
  Qed.
  Lemma flush_good q l : valid q -> open_lit q l -> Forall good_lit (flush (Some q) (Some l)).
  Proof.
    intros Hq (cs & Hb & ->). cbn [flush]. constructor; [|constructor]. exists q, cs. split; [exact Hq|]. split; [exact Hb|].
    rewrite <- !app_assoc. reflexivity.
  Qed.

  (* _literals never fails with the full quote list, and every piece it yields is a good literal *)
  Lemma lits_good s : forall cq lit,
    (match cq with Some q => valid q | None => True end) ->
    (match lit with Some l => exists q, cq = Some q /\ open_lit q l | None => True end) ->
    exists ls, lits pre esc full_quotes cq lit s = Some ls /\ Forall good_lit ls.
  Proof.
    induction s as [|c s IH]; intros cq lit Hcq Hlit; cbn [lits].
    - eexists. split; [reflexivity|]. destruct lit as [l|]; [|destruct cq; constructor].
      destruct Hlit as (q & -> & Ho). apply flush_good; assumption.
    - destruct (can_quote cq c) eqn:Ecan.
      + destruct cq as [q|]; [|discriminate]. cbn [can_quote] in Ecan. apply negb_true_iff, N.eqb_neq in Ecan.
        apply IH; [exact Hcq|]. exists q. split; [reflexivity|].
        destruct lit as [l|]; [destruct Hlit as (q' & Hq' & Ho); injection Hq' as <-; apply open_extend; assumption | rewrite <- app_assoc; apply open_start; exact Ecan].
      + destruct (get_quote full_quotes c) as [q|] eqn:Eg; [|exfalso; eapply get_quote_full_total; eauto].
        destruct (get_quote_full c q Eg) as [Hv Hne].
        destruct (IH (Some q) (Some (pre ++ qtext q ++ esc c)) Hv) as (ls & -> & Hls).
        { exists q. split; [reflexivity|]. apply open_start. exact Hne. }
        cbn [option_map]. eexists. split; [reflexivity|]. apply Forall_app. split; [|exact Hls].
        destruct lit as [l|]; [|destruct cq; constructor].
        destruct Hlit as (q0 & -> & Ho). apply flush_good; assumption.
  Qed.

  Theorem candidate_is_literals start s : valid start ->
    exists txt, candidate pre esc full_quotes start s = Some txt /\ lits_text txt.
  Proof.
    intro Hv. unfold candidate. destruct (lits_good s (Some start) None Hv I) as (ls & -> & Hls).
    eexists. split; [reflexivity|]. apply joinr_closed. exact Hls.
  Qed.
End Closed.

(* whatever string (bytes) constant is nested in an f-string, whatever quote the candidate starts with: the text handed to
   eval() is a sequence of complete string (bytes) literals and single spaces *)
Theorem str_candidate_closed start s : In start full_quotes -> exists txt, str_candidate start s = Some txt /\ lits_text txt.
Proof.
  intro Hin. apply (candidate_is_literals [] esc_str (or_introl eq_refl) esc_str_ok).
  cbn in Hin. unfold valid, is_q. destruct Hin as [<-|[<-|[<-|[<-|[]]]]]; cbn; auto.
Qed.
Theorem bytes_candidate_closed start s : In start full_quotes -> exists txt, bytes_candidate start s = Some txt /\ lits_text txt.
Proof.
  intro Hin. apply (candidate_is_literals [98] esc_bytes (or_intror eq_refl) esc_bytes_ok).
  cbn in Hin. unfold valid, is_q. destruct Hin as [<-|[<-|[<-|[<-|[]]]]]; cbn; auto.
Qed.

(* no raw line break or NUL ever reaches the evaluated text *)
Definition no_raw (c : N) : bool := negb (c =? 10) && negb (c =? 13) && negb (c =? 0).
Lemma hex_digit_no_raw n : n < 16 -> no_raw (hex_digit n) = true.
Proof. intro H. unfold no_raw, hex_digit. destruct (N.ltb_spec n 10);
  repeat match goal with |- context [N.eqb ?a ?b] => destruct (N.eqb_spec a b); [exfalso; lia|] end; reflexivity. Qed.
Lemma hex_fixed_no_raw w v : forallb no_raw (hex_fixed w v) = true.
Proof. revert v; induction w as [|w IH]; intro v; [reflexivity|]. cbn [hex_fixed]. rewrite forallb_app, IH. cbn [forallb].
  rewrite hex_digit_no_raw; [reflexivity|]. apply N.mod_lt. lia. Qed.
Lemma esc_str_no_raw c : forallb no_raw (esc_str c) = true.
Proof.
  unfold esc_str. destruct (c =? 10) eqn:E10; [reflexivity|]. destruct (c =? 13) eqn:E13; [reflexivity|].
  destruct (c =? 92); [reflexivity|]. destruct (c =? 0) eqn:E0; [reflexivity|].
  destruct (surrogate c); [cbn [app forallb]; rewrite hex_fixed_no_raw; reflexivity|].
  cbn. unfold no_raw. rewrite E10, E13, E0. reflexivity.
Qed.
Lemma esc_bytes_no_raw c : forallb no_raw (esc_bytes c) = true.
Proof.
  unfold esc_bytes. destruct (c =? 92); [reflexivity|]. destruct (c =? 10) eqn:E10; [reflexivity|]. destruct (c =? 13) eqn:E13; [reflexivity|].
  destruct (c =? 0) eqn:E0; cbn [orb]; [cbn [app forallb]; rewrite hex_fixed_no_raw; reflexivity|].
  destruct (128 <=? c); [cbn [app forallb]; rewrite hex_fixed_no_raw; reflexivity|].
  cbn. unfold no_raw. rewrite E10, E13, E0. reflexivity.
Qed.


(* double-quoted it's ; single-quoted start: the apostrophe forces a switch to double quotes ; triple start, newline escaped, quote forces a switch ; bytes *)
Example fstr_examples :
  str_candidate {| qc := 34; qlong := false |} [105; 116; 39; 115] = Some [34; 105; 116; 39; 115; 34] /\
  str_candidate {| qc := 39; qlong := false |} [105; 116; 39; 115] = Some [39; 105; 116; 39; 34; 39; 115; 34] /\
  str_candidate {| qc := 34; qlong := true |} [97; 10; 34; 98] = Some [34; 34; 34; 97; 92; 110; 34; 34; 34; 39; 34; 98; 39] /\
  bytes_candidate {| qc := 34; qlong := false |} [92; 255; 13] = Some [98; 34; 92; 92; 92; 120; 102; 102; 92; 114; 34].
Proof. vm_compute. repeat split. Qed.
