From Coq Require Import String.
From PM Require Import Model.Base Model.ScopeBase Gen.ResolveNames Model.Scope.
Open Scope bool_scope.

Lemma mem_text_app x a b : mem_text x (a ++ b) = mem_text x a || mem_text x b.
Proof. unfold mem_text. apply existsb_app. Qed.

Lemma mem_text_filter x p l : (forall y, text_eqb x y = true -> p y = p x) ->
  mem_text x (filter p l) = mem_text x l && p x.
Proof.
  intro Hp. unfold mem_text. induction l as [|y l IH]; cbn [filter existsb]; [reflexivity|].
  destruct (text_eqb x y) eqn:E.
  - rewrite (Hp y E). destruct (p x); cbn [existsb]; [rewrite E; reflexivity|]. rewrite IH. cbn. rewrite andb_false_r. reflexivity.
  - destruct (p y); cbn [existsb]; [rewrite E|]; cbn [orb]; exact IH.
Qed.

Lemma bound_below_snoc fs g : forall d B,
  bound_below (fs ++ [g]) d B =
  (if is_class (s_kind g) then bound_below fs d B else classify (bound_below fs d B) g (d + length fs)).
Proof.
  induction fs as [|f fs IH]; intros d B; cbn [app bound_below length].
  - rewrite Nat.add_0_r. reflexivity.
  - rewrite IH. replace (S d + length fs) with (d + S (length fs)) by lia. reflexivity.
Qed.

(* the clause list the proofs below are about: if the regenerated list differs, this no longer checks *)
Lemma clauses_as_modelled : get_binding_clauses = [CGlobalDecl; CNonlocalDecl; COwn; CUp] /\ nonlocal_namespace_skips_classes = true.
Proof. split; reflexivity. Qed.

(* one step of the minifier's walk on the view of a block = analyze_name on the block *)
Lemma run_view g x d up :
  (is_module (s_kind g) = true -> d = 0) ->
  run_clauses get_binding_clauses (view g) x d up =
  if is_module (s_kind g) then 0
  else if mem_text x (s_gdecl g) then 0
  else if mem_text x (v_nonlocals g) then up
  else if mem_text x (s_bound g) then d
  else up.
Proof.
  intro Hd. destruct clauses_as_modelled as [-> _]. cbn [run_clauses view m_kind m_globals m_nonlocals m_bindings].
  rewrite mem_text_filter.
  2:{ intros y Hy. apply text_eqb_eq in Hy. subst. reflexivity. }
  destruct (is_module (s_kind g)) eqn:Em; cbn [negb andb].
  - rewrite (Hd eq_refl), !andb_false_r. destruct (mem_text x (s_bound g) && _); reflexivity.
  - rewrite !andb_true_r.
    destruct (mem_text x (s_gdecl g)); [reflexivity|].
    destruct (mem_text x (v_nonlocals g)); [reflexivity|].
    cbn [negb andb]. rewrite andb_true_r. reflexivity.
Qed.

Definition tail_not_module (fs : list sframe) : Prop :=
  forall g, In g (tl fs) -> is_module (s_kind g) = false.

Lemma tail_not_module_prefix fs g : tail_not_module (fs ++ [g]) -> tail_not_module fs.
Proof.
  intros H h Hh. apply H. destruct fs as [|f fs]; [destruct Hh|]. cbn [tl app] in *. apply in_or_app. left. exact Hh.
Qed.
Lemma tail_not_module_last fs g : tail_not_module (fs ++ [g]) -> fs <> [] -> is_module (s_kind g) = false.
Proof.
  intros H Hne. apply H. destruct fs as [|f fs]; [contradiction|]. cbn [tl app]. apply in_or_app. right. left. reflexivity.
Qed.

(* what the walk finds when it arrives from below = the `bound` map the symtable pass hands down *)
Lemma look_is_bound_below x : forall outer, tail_not_module outer ->
  look true x (rev (map view outer)) = bound_below outer 0 none_bound x.
Proof.
  intro outer. induction outer as [|g outer IH] using rev_ind; intro Hwf; [reflexivity|].
  rewrite map_app, rev_app_distr. cbn [map rev app look].
  rewrite bound_below_snoc. cbn [Nat.add].
  specialize (IH (tail_not_module_prefix _ _ Hwf)).
  destruct clauses_as_modelled as [_ Hs]. rewrite Hs, andb_true_r. cbn [andb view m_kind].
  destruct (is_class (s_kind g)) eqn:Ec; [exact IH|].
  rewrite rev_length, map_length. rewrite run_view.
  2:{ intro Hm. destruct outer as [|o outer']; [reflexivity|].
      rewrite (tail_not_module_last _ _ Hwf) in Hm; [discriminate|discriminate]. }
  unfold classify, v_nonlocals. rewrite Ec, app_nil_r, IH. reflexivity.
Qed.

Lemma wf_chain_tail outer f : wf_chain outer f = true -> tail_not_module (outer ++ [f]).
Proof.
  unfold wf_chain, tail_not_module. destruct (outer ++ [f]) as [|m rest]; [discriminate|].
  intros H g Hg. apply andb_true_iff in H as [_ H]. rewrite forallb_forall in H. cbn [tl] in Hg.
  specialize (H g Hg). destruct (is_module (s_kind g)); [discriminate|reflexivity].
Qed.

Lemma min_owner_unfold outer f x : wf_chain outer f = true ->
  min_owner x (chain_view outer f) =
  if is_module (s_kind f) then 0
  else if mem_text x (s_gdecl f) then 0
  else if mem_text x (v_nonlocals f) then bound_below outer 0 none_bound x
  else if mem_text x (s_bound f) then length outer
  else bound_below outer 0 none_bound x.
Proof.
  intro Hwf. pose proof (wf_chain_tail _ _ Hwf) as Ht.
  unfold min_owner, chain_view. cbn [look andb].
  rewrite rev_length, map_length, run_view.
  2:{ intro Hm. destruct outer as [|o outer']; [reflexivity|].
      rewrite (tail_not_module_last _ _ Ht) in Hm; [discriminate|discriminate]. }
  rewrite (look_is_bound_below x outer (tail_not_module_prefix _ _ Ht)). reflexivity.
Qed.

(* the minifier's lookup finds the namespace CPython's symtable pass assigns the name to *)
Theorem lookup_refines_symtable outer f x :
  wf_chain outer f = true -> merged_in_class f x = false ->
  min_owner x (chain_view outer f) = ref_owner outer f x.
Proof.
  intros Hwf Hm. rewrite (min_owner_unfold _ _ _ Hwf). unfold ref_owner, classify, v_nonlocals, merged_in_class in *.
  destruct (is_module (s_kind f)); [reflexivity|].
  destruct (mem_text x (s_gdecl f)) eqn:Eg; [reflexivity|].
  rewrite mem_text_app.
  destruct (mem_text x (s_ndecl f)) eqn:En; [reflexivity|]. cbn [orb].
  destruct (is_class (s_kind f)) eqn:Ec; [|reflexivity].
  destruct (mem_text x (s_loads f)) eqn:El; [|reflexivity].
  cbn [andb negb] in Hm. rewrite ?andb_true_r in Hm. rewrite Hm. reflexivity.
Qed.

(* the designed deviation: a name both bound and loaded in a class body is attributed to the binding the ENCLOSING code
   sees (the class-level store and the outer binding are merged into one binding, which the binder then pins) *)
Theorem class_body_merge outer f x :
  wf_chain outer f = true -> merged_in_class f x = true ->
  min_owner x (chain_view outer f) = bound_below outer 0 none_bound x /\ ref_owner outer f x = length outer.
Proof.
  intros Hwf Hm. rewrite (min_owner_unfold _ _ _ Hwf). unfold ref_owner, classify, v_nonlocals, merged_in_class in *.
  apply andb_true_iff in Hm as [Hm Hn]. apply andb_true_iff in Hm as [Hm Hg]. apply andb_true_iff in Hm as [Hm Hb].
  apply andb_true_iff in Hm as [Hc Hl]. apply negb_true_iff in Hn, Hg.
  assert (Em : is_module (s_kind f) = false) by (destruct (s_kind f); cbn in *; congruence).
  rewrite Em, Hg, Hn, mem_text_app, Hn, Hc, Hl, Hb. cbn [orb]. split; reflexivity.
Qed.

(* resolution from a namespace never lands in a class namespace other than the starting one, and never below it *)
Theorem owner_le_depth outer f x : wf_chain outer f = true -> ref_owner outer f x <= length outer.
Proof.
  intro Hwf. unfold ref_owner.
  assert (Hb : forall fs d B, (forall y, B y <= d) -> forall y, bound_below fs d B y <= d + length fs).
  { induction fs as [|g fs IH]; intros d B HB y; cbn [bound_below length]; [rewrite Nat.add_0_r; apply HB|].
    replace (d + S (length fs)) with (S d + length fs) by lia. apply IH. intro z.
    destruct (is_class (s_kind g)); [specialize (HB z); lia|].
    unfold classify. destruct (is_module (s_kind g)); [lia|]. destruct (mem_text z (s_gdecl g)); [lia|].
    destruct (mem_text z (s_ndecl g)); [specialize (HB z); lia|]. destruct (mem_text z (s_bound g)); [lia|]. specialize (HB z); lia. }
  pose proof (Hb outer 0 none_bound (fun _ => le_n 0) x) as H0. cbn [Nat.add] in H0.
  unfold classify. destruct (is_module (s_kind f)); [lia|]. destruct (mem_text x (s_gdecl f)); [lia|].
  destruct (mem_text x (s_ndecl f)); [exact H0|]. destruct (mem_text x (s_bound f)); [lia|exact H0].
Qed.

(* non-vacuity: a class inside a function inside the module; `x` is a parameter of the function, loaded and stored in the class *)
#[local] Open Scope string_scope.
Example chain_example :
  let m := {| s_kind := KModule; s_bound := [t "x"; t "f"]; s_gdecl := []; s_ndecl := []; s_loads := [] |} in
  let fn := {| s_kind := KFunction; s_bound := [t "x"; t "C"]; s_gdecl := []; s_ndecl := []; s_loads := [t "C"] |} in
  let c := {| s_kind := KClass; s_bound := [t "x"; t "y"]; s_gdecl := []; s_ndecl := []; s_loads := [t "x"] |} in
  let g := {| s_kind := KFunction; s_bound := []; s_gdecl := []; s_ndecl := []; s_loads := [t "x"; t "y"] |} in
  wf_chain [m; fn; c] g = true /\ merged_in_class g (t "x") = false /\
  min_owner (t "x") (chain_view [m; fn; c] g) = 1 /\ ref_owner [m; fn; c] g (t "x") = 1 /\      (* the method sees the parameter, not the class attribute *)
  ref_owner [m; fn; c] g (t "y") = 0 /\                                                            (* class attributes are invisible to methods *)
  merged_in_class c (t "x") = true /\ min_owner (t "x") (chain_view [m; fn] c) = 1 /\ ref_owner [m; fn] c (t "x") = 2 /\
  min_owner (t "y") (chain_view [m; fn] c) = 2.
Proof. vm_compute. repeat split; reflexivity. Qed.
