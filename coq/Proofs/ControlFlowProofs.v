From PM Require Import Model.Base Model.Struct Proofs.StructProofs Model.ControlFlow.
Open Scope bool_scope.

Lemma run_S f' o l : run (S f') o l =
  match l with
  | [] => Some ([], Normal, o)
  | s :: l' =>
      match step f' o s with
      | Some (t, Normal, o') => match run f' o' l' with Some (t', c, o'') => Some (t ++ t', c, o'') | None => None end
      | r => r
      end
  end.
Proof. reflexivity. Qed.

Lemma first_suite_map (g : list stmt -> list stmt) x : g [] = [] -> first_suite (map g x) = g (first_suite x).
Proof. intro H. destruct x; cbn; auto. Qed.
Lemma second_suite_map (g : list stmt -> list stmt) x : g [] = [] -> second_suite (map g x) = g (second_suite x).
Proof. intro H. destruct x as [|a [|b x]]; cbn; auto. Qed.

Definition vall : list stmt -> list stmt := map ret_visit.

Lemma simple_step_ret k : simple_step (match k with KReturn RNoneConst => KReturn RBare | _ => k end) = simple_step k.
Proof. destruct k as [| | |[]| | |]; reflexivity. Qed.

(* `return None -> return` (at every depth, also inside nested definitions) changes no run *)
Lemma ret_visit_runs : forall f,
  (forall o l, run f o (vall l) = run f o l) /\ (forall o s, step f o (ret_visit s) = step f o s).
Proof.
  induction f as [|f [IHr IHs]]; [split; reflexivity|]. split.
  - intros o l. rewrite !run_S. destruct l as [|s l']; [reflexivity|]. unfold vall. cbn [map]. fold vall.
    rewrite IHs. destruct (step f o s) as [[[t c] o']|]; [|reflexivity]. destruct c; [|reflexivity]. rewrite IHr. reflexivity.
  - intros o s. destruct s as [k|k m op u].
    + destruct k as [| | |[| |id]| | |]; reflexivity.
    + assert (Hf : forall x, first_suite (map vall x) = vall (first_suite x)) by (intro x; apply first_suite_map; reflexivity).
      assert (Hs2 : forall x, second_suite (map vall x) = vall (second_suite x)) by (intro x; apply second_suite_map; reflexivity).
      destruct k as [t|id|id| |id|id bases|id]; cbn [ret_visit]; fold vall.
      * (* if *) cbn [step]. destruct o as [|b o']; [reflexivity|]. rewrite !Hf. destruct b; apply IHr.
      * (* loop *)
        change (step (S f) o (Block (BLoop id) (map vall m) (map vall op) (map vall u))) with
          (match o with
           | true :: o' => match run f o' (first_suite (map vall m)) with
                           | Some (t, Normal, o'') => match step f o'' (Block (BLoop id) (map vall m) (map vall op) (map vall u)) with Some (t', c, o3) => Some (t ++ t', c, o3) | None => None end
                           | r => r end
           | false :: o' => run f o' (first_suite (map vall op))
           | [] => None end).
        change (step (S f) o (Block (BLoop id) m op u)) with
          (match o with
           | true :: o' => match run f o' (first_suite m) with
                           | Some (t, Normal, o'') => match step f o'' (Block (BLoop id) m op u) with Some (t', c, o3) => Some (t ++ t', c, o3) | None => None end
                           | r => r end
           | false :: o' => run f o' (first_suite op)
           | [] => None end).
        destruct o as [|[|] o']; [reflexivity| |].
        -- rewrite Hf, IHr. destruct (run f o' (first_suite m)) as [[[t c] o'']|]; [|reflexivity]. destruct c; [|reflexivity].
           specialize (IHs o'' (Block (BLoop id) m op u)). cbn [ret_visit] in IHs. fold vall in IHs. rewrite IHs. reflexivity.
        -- rewrite Hf. apply IHr.
      * (* with *) cbn [step]. rewrite Hf. apply IHr.
      * (* try *) cbn [step]. rewrite !Hf, !Hs2, ?IHr.
        destruct (run f o (first_suite m)) as [[[t c] o1]|]; [|reflexivity]. destruct c; rewrite ?IHr.
        -- destruct (run f o1 (first_suite op)) as [[[t' c'] o2]|]; [|reflexivity]. rewrite ?IHr. reflexivity.
        -- reflexivity.
      * (* def *) reflexivity.
      * (* class *) cbn [step]. rewrite Hf. apply IHr.
      * (* unhooked *) cbn [step]. destruct o as [|b o']; [reflexivity|]. rewrite <- !map_app, Hf, Hs2. destruct b; apply IHr.
Qed.

(* more fuel never changes a result *)
Lemma mono : forall f,
  (forall o l r, run f o l = Some r -> run (S f) o l = Some r) /\ (forall o s r, step f o s = Some r -> step (S f) o s = Some r).
Proof.
  induction f as [|f [IHr IHs]]; [split; intros; discriminate|]. split.
  - intros o l r H. rewrite run_S in H. rewrite run_S. destruct l as [|s l']; [exact H|].
    destruct (step f o s) as [[[t c] o']|] eqn:E; [|discriminate]. rewrite (IHs _ _ _ E).
    destruct c; [|exact H]. destruct (run f o' l') as [[[t' c'] o'']|] eqn:E2; [|discriminate]. rewrite (IHr _ _ _ E2). exact H.
  - intros o s r H. destruct s as [k|k m op u]; [exact H|].
    destruct k as [t|id|id| |id|id bases|id].
    + cbn [step] in H |- *. destruct o as [|b o']; [discriminate|]. apply IHr. exact H.
    + change (step (S (S f)) o (Block (BLoop id) m op u)) with
        (match o with
         | true :: o' => match run (S f) o' (first_suite m) with
                         | Some (t, Normal, o'') => match step (S f) o'' (Block (BLoop id) m op u) with Some (t', c, o3) => Some (t ++ t', c, o3) | None => None end
                         | r => r end
         | false :: o' => run (S f) o' (first_suite op)
         | [] => None end).
      change (step (S f) o (Block (BLoop id) m op u)) with
        (match o with
         | true :: o' => match run f o' (first_suite m) with
                         | Some (t, Normal, o'') => match step f o'' (Block (BLoop id) m op u) with Some (t', c, o3) => Some (t ++ t', c, o3) | None => None end
                         | r => r end
         | false :: o' => run f o' (first_suite op)
         | [] => None end) in H.
      destruct o as [|[|] o']; [discriminate| |apply IHr; exact H].
      destruct (run f o' (first_suite m)) as [[[t c] o'']|] eqn:E; [|discriminate]. rewrite (IHr _ _ _ E).
      destruct c; [|exact H]. destruct (step f o'' (Block (BLoop id) m op u)) as [[[t' c'] o3]|] eqn:E2; [|discriminate].
      rewrite (IHs _ _ _ E2). exact H.
    + cbn [step] in H |- *. apply IHr. exact H.
    + cbn [step] in H |- *.
      destruct (run f o (first_suite m)) as [[[t c] o1]|] eqn:E; [|discriminate]. rewrite (IHr _ _ _ E). destruct c.
      * destruct (run f o1 (first_suite op)) as [[[t' c'] o2]|] eqn:E2; [|discriminate]. rewrite (IHr _ _ _ E2).
        destruct (run f o2 (second_suite op)) as [[[t3 c3] o3]|] eqn:E3; [|discriminate]. rewrite (IHr _ _ _ E3). exact H.
      * destruct (run f o1 (second_suite op)) as [[[t3 c3] o3]|] eqn:E3; [|discriminate]. rewrite (IHr _ _ _ E3). exact H.
    + exact H.
    + cbn [step] in H |- *. apply IHr. exact H.
    + cbn [step] in H |- *. destruct o as [|b o']; [discriminate|]. apply IHr. exact H.
Qed.
Lemma run_mono f o l r : run f o l = Some r -> run (S f) o l = Some r.
Proof. apply mono. Qed.

Lemma call_mono f o l r : call f o l = Some r -> call (S f) o l = Some r.
Proof.
  unfold call. destruct (run f o l) as [[[t c] o']|] eqn:E; [|discriminate]. rewrite (run_mono _ _ _ _ E). auto.
Qed.

Definition val (c : outcome) : option N := match c with Normal => None | Ret v => v end.
Lemma call_run f o l : call f o l = match run f o l with Some (t, c, o') => Some (t, val c, o') | None => None end.
Proof. unfold call. destruct (run f o l) as [[[t c] o']|]; [destruct c|]; reflexivity. Qed.

Definition is_bare_return (s : stmt) : bool := match s with Simple (KReturn RBare) => true | _ => false end.
Lemma strip_cons s l : strip_last_bare_return (s :: l) =
  if is_bare_return s && match l with [] => true | _ => false end then [] else s :: strip_last_bare_return l.
Proof. destruct s as [[| | |[| |id]| | |]|]; destruct l; reflexivity. Qed.

(* dropping a bare `return` at the very end of a body: the caller sees the same events and the same value (None) *)
Lemma strip_call_fwd : forall l f o r, call f o l = Some r -> call f o (strip_last_bare_return l) = Some r.
Proof.
  induction l as [|s l IH]; intros f o r H; [exact H|].
  rewrite strip_cons. destruct (is_bare_return s && match l with [] => true | _ => false end) eqn:Eb.
  - apply andb_true_iff in Eb as [Es El]. destruct l; [|discriminate].
    destruct s as [[| | |[| |id]| | |]|]; try discriminate.
    destruct f as [|[|f]]; try discriminate. rewrite call_run in H |- *. cbn in H. injection H as <-. reflexivity.
  - clear Eb. destruct f as [|f]; [discriminate|]. rewrite call_run in H |- *. rewrite run_S in H |- *.
    destruct (step f o s) as [[[t c] o']|]; [|discriminate]. destruct c; [|exact H].
    destruct (run f o' l) as [[[t' c'] o'']|] eqn:E; [|discriminate].
    specialize (IH f o' (t', val c', o'')). rewrite !call_run, E in IH. specialize (IH eq_refl).
    destruct (run f o' (strip_last_bare_return l)) as [[[t2 c2] o2]|]; [|discriminate].
    injection IH as -> Hv ->. injection H as <-. rewrite Hv. reflexivity.
Qed.

(* conversely, with one more unit of fuel *)
Lemma strip_call_bwd : forall l f o r, call f o (strip_last_bare_return l) = Some r -> call (S f) o l = Some r.
Proof.
  induction l as [|s l IH]; intros f o r H; [apply call_mono; exact H|].
  rewrite strip_cons in H. destruct (is_bare_return s && match l with [] => true | _ => false end) eqn:Eb.
  - apply andb_true_iff in Eb as [Es El]. destruct l; [|discriminate].
    destruct s as [[| | |[| |id]| | |]|]; try discriminate.
    destruct f as [|f]; [discriminate|]. rewrite call_run in H |- *. cbn in H. injection H as <-. reflexivity.
  - clear Eb. destruct f as [|f]; [discriminate|]. rewrite call_run in H |- *. rewrite run_S in H. rewrite run_S.
    destruct (step f o s) as [[[t c] o']|] eqn:Es; [|discriminate].
    destruct (mono f) as [_ Hms]. rewrite (Hms _ _ _ Es).
    destruct c; [|exact H].
    destruct (run f o' (strip_last_bare_return l)) as [[[t2 c2] o2]|] eqn:E; [|discriminate].
    specialize (IH f o' (t2, val c2, o2)). rewrite !call_run, E in IH. specialize (IH eq_refl).
    destruct (run (S f) o' l) as [[[t' c'] o'']|]; [|discriminate].
    injection IH as -> Hv ->. injection H as <-. rewrite Hv. reflexivity.
Qed.

Lemma call_zero f o : call (S (S f)) o [zero_stmt] = Some ([], None, o).
Proof. reflexivity. Qed.
Lemma call_nil f o : call (S f) o [] = Some ([], None, o).
Proof. reflexivity. Qed.
Lemma call_nil_inv f o r : call f o [] = Some r -> r = ([], None, o).
Proof. destruct f; [discriminate|]. cbn. intro H. injection H as <-. reflexivity. Qed.
Lemma call_zero_inv f o r : call f o [zero_stmt] = Some r -> r = ([], None, o).
Proof. destruct f as [|[|f]]; try discriminate. cbn. intro H. injection H as <-. reflexivity. Qed.

Lemma call_vall f o l : call f o (vall l) = call f o l.
Proof. unfold call. destruct (ret_visit_runs f) as [H _]. rewrite H. reflexivity. Qed.

(* RemoveExplicitReturnNone preserves what a call of the function does: the same events in the same order, the same
   returned value, the same branches taken - for every body, every oracle *)
Theorem ret_body_call_fwd body f o r : call f o body = Some r -> call (S f) o (ret_body body) = Some r.
Proof.
  intro H. rewrite <- call_vall in H. apply strip_call_fwd in H. unfold ret_body. fold (vall body).
  destruct (strip_last_bare_return (vall body)) eqn:E.
  - destruct f as [|f]; [discriminate|]. apply call_nil_inv in H. subst. reflexivity.
  - apply call_mono. exact H.
Qed.
Theorem ret_body_call_bwd body f o r : call f o (ret_body body) = Some r -> call (S (S f)) o body = Some r.
Proof.
  unfold ret_body. fold (vall body). intro H. rewrite <- call_vall.
  destruct (strip_last_bare_return (vall body)) eqn:E.
  - destruct f as [|[|f]]; try discriminate. apply call_zero_inv in H. subst. apply call_mono. apply strip_call_bwd. rewrite E. reflexivity.
  - apply call_mono. apply strip_call_bwd. rewrite E. exact H.
Qed.

(* non-vacuity: a body ending in `if c: return None` / `else: x; return` *)
Example ret_body_example :
  let body := [Simple (KOther 1); Block (BIf (TOther 9)) [[Simple (KReturn RNoneConst)]] [[Simple (KOther 2); Simple (KReturn RBare)]] []; Simple (KReturn RBare)]%N in
  ret_body body = [Simple (KOther 1); Block (BIf (TOther 9)) [[Simple (KReturn RBare)]] [[Simple (KOther 2); Simple (KReturn RBare)]] []]%N /\
  call 10 [false] body = Some ([1; 2]%N, None, []) /\ call 10 [false] (ret_body body) = Some ([1; 2]%N, None, []).
Proof. vm_compute. repeat split. Qed.
