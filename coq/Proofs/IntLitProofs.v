From Coq Require Import String NArith DecimalString HexadecimalString DecimalN HexadecimalN DecimalPos HexadecimalPos Ascii.
From PM Require Import Model.IntLit.
Open Scope string_scope.

Lemma to_uint_nonnil v : N.to_uint v <> Decimal.Nil.
Proof. destruct v; cbn; [discriminate|apply DecimalPos.Unsigned.to_uint_nonnil]. Qed.
Lemma to_hex_uint_nonnil v : N.to_hex_uint v <> Hexadecimal.Nil.
Proof. destruct v; cbn; [discriminate|apply HexadecimalPos.Unsigned.to_uint_nonnil]. Qed.

Lemma dec_read v : option_map N.of_uint (DecimalString.NilZero.uint_of_string (dec_text v)) = Some v.
Proof. unfold dec_text. rewrite DecimalString.NilZero.usu by apply to_uint_nonnil. cbn. now rewrite DecimalN.Unsigned.of_to. Qed.
Lemma hex_read v : option_map N.of_hex_uint (HexadecimalString.NilZero.uint_of_string (HexadecimalString.NilZero.string_of_uint (N.to_hex_uint v))) = Some v.
Proof. rewrite HexadecimalString.NilZero.usu by apply to_hex_uint_nonnil. cbn. now rewrite HexadecimalN.Unsigned.of_to. Qed.

(* a decimal text never starts with "0x": its second character is a digit or it has length one *)
Lemma dec_text_not_hex v rest : dec_text v <> String "0"%char (String "x"%char rest).
Proof.
  unfold dec_text. intro H.
  assert (Hr := DecimalString.NilZero.usu (N.to_uint v) (to_uint_nonnil v)). rewrite H in Hr.
  cbn in Hr. destruct (DecimalString.NilEmpty.uint_of_string rest); cbn in Hr; discriminate.
Qed.

Lemma int_of_literal_decimal s :
  (forall rest, s <> String "0"%char (String "x"%char rest)) ->
  int_of_literal s = option_map N.of_uint (DecimalString.NilZero.uint_of_string s).
Proof.
  intro H. destruct s as [|a [|b rest]]; [reflexivity| |].
  { destruct a as [[|] [|] [|] [|] [|] [|] [|] [|]]; reflexivity. }
  destruct (Ascii.ascii_dec a "0"%char) as [->|Ha].
  - destruct (Ascii.ascii_dec b "x"%char) as [->|Hb]; [exfalso; eapply H; reflexivity|].
    destruct b as [[|] [|] [|] [|] [|] [|] [|] [|]]; try reflexivity. congruence.
  - destruct a as [[|] [|] [|] [|] [|] [|] [|] [|]]; try reflexivity. congruence.
Qed.

Theorem int_literal_roundtrip v : int_of_literal (print_int v) = Some v.
Proof.
  unfold print_int. destruct (Nat.ltb _ _).
  - unfold hex_text. cbn [append int_of_literal]. apply hex_read.
  - rewrite int_of_literal_decimal by apply dec_text_not_hex. apply dec_read.
Qed.
