From PM Require Import Model.Base Model.MiniPy.
Open Scope bool_scope.

Section mstmt_ind2.
  Variable P : mstmt -> Prop.
  Hypothesis Hpass : P SPass.
  Hypothesis Hexpr : forall e, P (SExpr e).
  Hypothesis Hassign : forall v e, P (SAssign v e).
  Hypothesis Hdel : forall v, P (SDel v).
  Hypothesis Hprint : forall e, P (SPrint e).
  Hypothesis Hif : forall c t f, Forall P t -> Forall P f -> P (SIf c t f).
  Hypothesis Hwhile : forall c b, Forall P b -> P (SWhile c b).
  Fixpoint mstmt_ind2 (s : mstmt) : P s :=
    let lf := fix lf (l : list mstmt) : Forall P l := match l with [] => Forall_nil _ | x :: l' => Forall_cons x (mstmt_ind2 x) (lf l') end in
    match s with
    | SPass => Hpass | SExpr e => Hexpr e | SAssign v e => Hassign v e | SDel v => Hdel v | SPrint e => Hprint e
    | SIf c t f => Hif c t f (lf t) (lf f)
    | SWhile c b => Hwhile c b (lf b)
    end.
End mstmt_ind2.

(* unfolding lemmas *)
Lemma seq_nil ex ev st : seq_with ex [] ev st = Some {| events := ev; ended := Normal; final := st |}.
Proof. reflexivity. Qed.
Lemma seq_cons ex s l ev st :
  seq_with ex (s :: l) ev st =
  match ex s ev st with None => None | Some o => match ended o with Normal => seq_with ex l (events o) (final o) | Raised _ => Some o end end.
Proof. reflexivity. Qed.
Definition while_loop (c : mexpr) (body : list mstmt) : nat -> list val -> store -> option outcome :=
  fix loop (n : nat) (ev : list val) (st : store) : option outcome :=
    match n with
    | O => None
    | S n' =>
        match eval c st with
        | inr x => Some {| events := ev; ended := Raised x; final := st |}
        | inl x =>
            if truthy x then
              match seq_with (exec n') body ev st with
              | None => None
              | Some o => match ended o with Normal => loop n' (events o) (final o) | Raised _ => Some o end
              end
            else Some {| events := ev; ended := Normal; final := st |}
        end
    end.
Lemma exec_while fuel c body ev st : exec fuel (SWhile c body) ev st = while_loop c body fuel ev st.
Proof. reflexivity. Qed.
Lemma exec_if fuel c t f ev st :
  exec fuel (SIf c t f) ev st =
  match eval c st with
  | inr x => Some {| events := ev; ended := Raised x; final := st |}
  | inl x => if truthy x then seq_with (exec fuel) t ev st else seq_with (exec fuel) f ev st
  end.
Proof. reflexivity. Qed.
Lemma seq_ext ex ex' l : Forall (fun s => forall ev st, ex s ev st = ex' s ev st) l -> forall ev st, seq_with ex l ev st = seq_with ex' l ev st.
Proof.
  induction 1 as [|s l Hs _ IH]; intros ev st; [reflexivity|]. rewrite !seq_cons, Hs.
  destruct (ex' s ev st) as [o|]; [|reflexivity]. destruct (ended o); [apply IH|reflexivity].
Qed.

(* ---------------- constant folding preserves the value or the error of every expression ---------------- *)
Theorem fold_expr_sound e st : eval (fold_expr e) st = eval e st.
Proof.
  induction e as [z|s|v|o a IHa b IHb]; try reflexivity. cbn [fold_expr].
  destruct (fold_expr a) as [x| | |] eqn:Ea; destruct (fold_expr b) as [y| | |] eqn:Eb;
    cbn [eval] in *; rewrite <- ?IHa, <- ?IHb; try reflexivity.
  destruct o; reflexivity.
Qed.

(* ---------------- removing pass (RemovePass) does not change the outcome, at the same fuel ---------------- *)
Definition rp_go (l : list mstmt) : list mstmt :=
  (fix go (l : list mstmt) : list mstmt := match l with [] => [] | SPass :: l' => go l' | s :: l' => rp_stmt s :: go l' end) l.
Lemma rp_suite_unfold nested l : rp_suite_with rp_stmt nested l = match rp_go l with [] => if nested then [SExpr (MInt 0)] else [] | k => k end.
Proof. reflexivity. Qed.
Lemma rp_go_cons s l : rp_go (s :: l) = match s with SPass => rp_go l | _ => rp_stmt s :: rp_go l end.
Proof. destruct s; reflexivity. Qed.

Lemma seq_rp_go fuel l : Forall (fun s => forall ev st, exec fuel (rp_stmt s) ev st = exec fuel s ev st) l ->
  forall ev st, seq_with (exec fuel) (rp_go l) ev st = seq_with (exec fuel) l ev st.
Proof.
  induction 1 as [|s l Hs _ IH]; intros ev st; [reflexivity|]. rewrite rp_go_cons.
  destruct s; try (rewrite !seq_cons, Hs; destruct (exec fuel _ ev st) as [o|]; [destruct (ended o); [apply IH|reflexivity]|reflexivity]).
  rewrite seq_cons. cbn [exec ended events final]. apply IH.
Qed.
Lemma seq_rp_suite fuel nested l : Forall (fun s => forall ev st, exec fuel (rp_stmt s) ev st = exec fuel s ev st) l ->
  forall ev st, seq_with (exec fuel) (rp_suite_with rp_stmt nested l) ev st = seq_with (exec fuel) l ev st.
Proof.
  intros H ev st. rewrite rp_suite_unfold. rewrite <- (seq_rp_go fuel l H ev st).
  destruct (rp_go l); [|reflexivity]. destruct nested; reflexivity.
Qed.

Lemma rp_stmt_sound s : forall fuel ev st, exec fuel (rp_stmt s) ev st = exec fuel s ev st.
Proof.
  induction s as [| | | | |c t f IHt IHf|c b IHb] using mstmt_ind2; intros fuel ev st; try reflexivity.
  - cbn [rp_stmt]. rewrite !exec_if. destruct (eval c st) as [x|x]; [|reflexivity]. destruct (truthy x).
    + apply seq_rp_suite. eapply Forall_impl; [|exact IHt]. intros a Ha ev' st'. apply Ha.
    + destruct f as [|s0 f]; [reflexivity|]. apply seq_rp_suite. eapply Forall_impl; [|exact IHf]. intros a Ha ev' st'. apply Ha.
  - cbn [rp_stmt]. rewrite !exec_while. revert ev st. induction fuel as [|n IHn]; intros ev st; [reflexivity|].
    cbn [while_loop]. destruct (eval c st) as [x|x]; [|reflexivity]. destruct (truthy x); [|reflexivity].
    rewrite (seq_rp_suite n true b) by (eapply Forall_impl; [|exact IHb]; intros a Ha ev' st'; apply Ha).
    destruct (seq_with (exec n) b ev st) as [o|]; [|reflexivity]. destruct (ended o); [apply IHn|reflexivity].
Qed.
Theorem remove_pass_sound fuel p : run fuel (remove_pass p) = run fuel p.
Proof. unfold run, remove_pass. apply seq_rp_suite. apply Forall_forall. intros s _ ev st. apply rp_stmt_sound. Qed.

(* ---------------- injective renaming of variables: same events, same ending, renamed final namespace ---------------- *)
Section Rename.
  Variable r : var -> var.
  Hypothesis r_inj : forall a b, r a = r b -> a = b.

  Lemma lookup_ren st v : lookup (ren_store r st) (r v) = lookup st v.
  Proof.
    induction st as [|[w x] st IH]; [reflexivity|]. cbn [ren_store map lookup fst snd].
    destruct (N.eqb_spec v w) as [->|Hn]; [now rewrite N.eqb_refl|].
    destruct (N.eqb_spec (r v) (r w)) as [E|_]; [apply r_inj in E; contradiction|]. exact IH.
  Qed.
  Lemma remove_ren st v : remove (ren_store r st) (r v) = ren_store r (remove st v).
  Proof.
    induction st as [|[w x] st IH]; [reflexivity|]. cbn [ren_store map remove fst snd].
    destruct (N.eqb_spec v w) as [->|Hn]; [rewrite N.eqb_refl; exact IH|].
    destruct (N.eqb_spec (r v) (r w)) as [E|_]; [apply r_inj in E; contradiction|]. cbn [map fst snd]. f_equal. exact IH.
  Qed.
  Lemma update_ren st v x : update (ren_store r st) (r v) x = ren_store r (update st v x).
  Proof. unfold update. cbn [ren_store map fst snd]. f_equal. apply remove_ren. Qed.
  Lemma eval_ren e st : eval (ren_expr r e) (ren_store r st) = eval e st.
  Proof.
    induction e as [z|s|v|o a IHa b IHb]; try reflexivity.
    - cbn [ren_expr eval]. now rewrite lookup_ren.
    - cbn [ren_expr eval]. now rewrite IHa, IHb.
  Qed.

  Definition ren_outcome (o : outcome) : outcome := {| events := events o; ended := ended o; final := ren_store r (final o) |}.
  Definition ren_res (x : option outcome) : option outcome := option_map ren_outcome x.

  Lemma seq_ren ex ex' l :
    Forall (fun s => forall ev st, ex' (ren_stmt r s) ev (ren_store r st) = ren_res (ex s ev st)) l ->
    forall ev st, seq_with ex' (map (ren_stmt r) l) ev (ren_store r st) = ren_res (seq_with ex l ev st).
  Proof.
    induction 1 as [|s l Hs _ IH]; intros ev st; [reflexivity|]. cbn [map]. rewrite !seq_cons, Hs.
    destruct (ex s ev st) as [o|]; [|reflexivity]. cbn [ren_res option_map ren_outcome ended events final].
    destruct (ended o); [apply IH|reflexivity].
  Qed.

  Lemma ren_stmt_sound s : forall fuel ev st, exec fuel (ren_stmt r s) ev (ren_store r st) = ren_res (exec fuel s ev st).
  Proof.
    induction s as [|e|v e|v|e|c t f IHt IHf|c b IHb] using mstmt_ind2; intros fuel ev st.
    - reflexivity.
    - cbn [ren_stmt exec]. rewrite eval_ren. destruct (eval e st); reflexivity.
    - cbn [ren_stmt exec]. rewrite eval_ren. destruct (eval e st); [|reflexivity]. cbn. now rewrite update_ren.
    - cbn [ren_stmt exec]. rewrite lookup_ren. destruct (lookup st v); [|reflexivity]. cbn. now rewrite remove_ren.
    - cbn [ren_stmt exec]. rewrite eval_ren. destruct (eval e st); reflexivity.
    - cbn [ren_stmt]. rewrite !exec_if, eval_ren. destruct (eval c st) as [x|x]; [|reflexivity].
      destruct (truthy x); apply seq_ren; [eapply Forall_impl; [|exact IHt]|eapply Forall_impl; [|exact IHf]]; intros a Ha ev' st'; apply Ha.
    - cbn [ren_stmt]. rewrite !exec_while. revert ev st. induction fuel as [|n IHn]; intros ev st; [reflexivity|].
      cbn [while_loop]. rewrite eval_ren. destruct (eval c st) as [x|x]; [|reflexivity]. destruct (truthy x); [|reflexivity].
      rewrite (seq_ren (exec n) (exec n) b) by (eapply Forall_impl; [|exact IHb]; intros a Ha ev' st'; apply Ha).
      destruct (seq_with (exec n) b ev st) as [o|]; [|reflexivity]. cbn [ren_res option_map ren_outcome ended events final].
      destruct (ended o); [apply IHn|reflexivity].
  Qed.
  Theorem rename_sound fuel p : run fuel (map (ren_stmt r) p) = ren_res (run fuel p).
  Proof.
    unfold run. change (@nil (var * val)) with (ren_store r []) at 1.
    apply seq_ren. apply Forall_forall. intros s _ ev st. apply ren_stmt_sound.
  Qed.
End Rename.

(* ---------------- hoisting a string literal into a fresh module-level name ---------------- *)
Section Hoist.
  Variable A : var.
  Variable s : N.
  (* the namespace with the alias: everything as before, plus A bound to the literal *)
  Definition aliased (st st' : store) : Prop := forall v, lookup st' v = if N.eqb v A then Some (VStr s) else lookup st v.

  Lemma lookup_remove st v w : lookup (remove st v) w = if N.eqb w v then None else lookup st w.
  Proof.
    induction st as [|[u x] st IH]; cbn [remove lookup]; [destruct (N.eqb w v); reflexivity|].
    destruct (N.eqb_spec v u) as [->|Hvu].
    - rewrite IH. destruct (N.eqb_spec w u); reflexivity.
    - cbn [lookup]. rewrite IH. destruct (N.eqb_spec w u) as [->|Hwu]; [|reflexivity].
      destruct (N.eqb_spec u v); [congruence|reflexivity].
  Qed.
  Lemma lookup_update st v x w : lookup (update st v x) w = if N.eqb w v then Some x else lookup st w.
  Proof. unfold update. cbn [lookup]. destruct (N.eqb_spec w v); [reflexivity|]. rewrite lookup_remove. destruct (N.eqb_spec w v); [contradiction|reflexivity]. Qed.

  Lemma aliased_update st st' v x : aliased st st' -> N.eqb v A = false -> aliased (update st v x) (update st' v x).
  Proof.
    intros H Hv w. rewrite !lookup_update. destruct (N.eqb_spec w v) as [->|Hn]; [now rewrite Hv|]. apply H.
  Qed.
  Lemma aliased_remove st st' v : aliased st st' -> N.eqb v A = false -> aliased (remove st v) (remove st' v).
  Proof.
    intros H Hv w. rewrite !lookup_remove. destruct (N.eqb_spec w v) as [->|Hn]; [now rewrite Hv|]. apply H.
  Qed.
  Lemma eval_sub e st st' : aliased st st' -> fresh_expr A e = true -> eval (sub_expr A s e) st' = eval e st.
  Proof.
    intros H. induction e as [z|t|v|o a IHa b IHb]; intro Hf; cbn [sub_expr eval fresh_expr] in *.
    - reflexivity.
    - destruct (N.eqb_spec t s) as [->|Hn]; [|reflexivity]. cbn [eval]. rewrite H, N.eqb_refl. reflexivity.
    - rewrite H. apply negb_true_iff in Hf. now rewrite Hf.
    - apply andb_true_iff in Hf as [Ha Hb]. now rewrite IHa, IHb.
  Qed.

  (* two outcomes that agree up to the alias *)
  Definition orel (x y : option outcome) : Prop :=
    match x, y with
    | Some o, Some o' => events o = events o' /\ ended o = ended o' /\ aliased (final o) (final o')
    | None, None => True
    | _, _ => False
    end.
  Lemma seq_sub ex ex' l :
    Forall (fun st0 => forall ev st st', aliased st st' -> orel (ex st0 ev st) (ex' (sub_stmt A s st0) ev st')) l ->
    forall ev st st', aliased st st' -> orel (seq_with ex l ev st) (seq_with ex' (map (sub_stmt A s) l) ev st').
  Proof.
    induction 1 as [|x l Hx _ IH]; intros ev st st' Hal; [cbn; auto|]. cbn [map]. rewrite !seq_cons.
    specialize (Hx ev st st' Hal). unfold orel in Hx.
    destruct (ex x ev st) as [o|], (ex' (sub_stmt A s x) ev st') as [o'|]; try contradiction; [|exact I].
    destruct Hx as (He & Hen & Hf). rewrite <- Hen, <- He. destruct (ended o) eqn:Eo.
    - apply IH. exact Hf.
    - cbn. rewrite Eo. auto.
  Qed.

  Lemma sub_stmt_sound st0 : fresh_stmt A st0 = true ->
    forall fuel ev st st', aliased st st' -> orel (exec fuel st0 ev st) (exec fuel (sub_stmt A s st0) ev st').
  Proof.
    induction st0 as [|e|v e|v|e|c t f IHt IHf|c b IHb] using mstmt_ind2; intros Hfr fuel ev st st' Hal; cbn [fresh_stmt] in Hfr.
    - cbn; auto.
    - cbn [sub_stmt exec]. rewrite (eval_sub e st st' Hal Hfr). destruct (eval e st); cbn; auto.
    - apply andb_true_iff in Hfr as [Hv He]. apply negb_true_iff in Hv. cbn [sub_stmt exec]. rewrite (eval_sub e st st' Hal He).
      destruct (eval e st); cbn; auto. repeat split. now apply aliased_update.
    - apply negb_true_iff in Hfr. cbn [sub_stmt exec]. rewrite (Hal v), Hfr. destruct (lookup st v); cbn; auto.
      repeat split. now apply aliased_remove.
    - cbn [sub_stmt exec]. rewrite (eval_sub e st st' Hal Hfr). destruct (eval e st); cbn; auto.
    - apply andb_true_iff in Hfr as [Hfr Hff]. apply andb_true_iff in Hfr as [Hc Hft].
      cbn [sub_stmt]. rewrite !exec_if, (eval_sub c st st' Hal Hc). destruct (eval c st) as [x|x]; [|cbn; auto].
      rewrite forallb_forall in Hft, Hff. rewrite Forall_forall in IHt, IHf.
      destruct (truthy x); apply seq_sub; auto; apply Forall_forall; intros a Ha ev0 st0 st0' Hal0; [apply IHt|apply IHf]; auto.
    - apply andb_true_iff in Hfr as [Hc Hfb]. cbn [sub_stmt]. rewrite !exec_while.
      rewrite forallb_forall in Hfb. rewrite Forall_forall in IHb.
      revert ev st st' Hal. induction fuel as [|n IHn]; intros ev st st' Hal; [exact I|].
      cbn [while_loop]. rewrite (eval_sub c st st' Hal Hc). destruct (eval c st) as [x|x]; [|cbn; auto].
      destruct (truthy x); [|cbn; auto].
      assert (Hb : orel (seq_with (exec n) b ev st) (seq_with (exec n) (map (sub_stmt A s) b) ev st')).
      { apply seq_sub; auto. apply Forall_forall. intros a Ha ev0 st0 st0' Hal0. apply IHb; auto. }
      unfold orel in Hb. destruct (seq_with (exec n) b ev st) as [o|], (seq_with (exec n) (map (sub_stmt A s) b) ev st') as [o'|]; try contradiction; [|exact I].
      destruct Hb as (He & Hen & Hf). rewrite <- Hen, <- He. destruct (ended o) eqn:Eo; [apply IHn; exact Hf|cbn; rewrite Eo; auto].
  Qed.

  Theorem hoist_sound fuel p : forallb (fresh_stmt A) p = true -> orel (run fuel p) (run fuel (hoist A s p)).
  Proof.
    intro Hfr. unfold run, hoist. rewrite seq_cons. cbn [exec eval ended events final].
    apply seq_sub.
    - apply Forall_forall. intros a Ha ev st st' Hal. apply sub_stmt_sound; auto. rewrite forallb_forall in Hfr. auto.
    - intro v. rewrite lookup_update. cbn [lookup]. destruct (N.eqb v A); reflexivity.
  Qed.
End Hoist.
