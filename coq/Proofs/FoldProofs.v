From PM Require Import Model.Base Model.Fold.
Open Scope bool_scope.

(* ==, same type, not NaN, and equal "no sign bit anywhere" status imply identity, for values without sign bits *)
Lemma fl_eq_nonneg a b : fl_eq a b = true -> fl_signbit a = false -> fl_signbit b = false -> a = b.
Proof.
  destruct a as [|s m], b as [|s' m']; cbn; try discriminate. intros H -> ->.
  apply andb_true_iff in H as [H _]. apply N.eqb_eq in H. now subst.
Qed.
Lemma eq_nonneg_ident f v : tag_eqb (ty f) (ty v) = true -> py_eq f v = true -> nonneg f = true -> nonneg v = true -> f = v.
Proof.
  destruct f, v; cbn; try discriminate; intros _ H Hf Hv.
  - apply Z.eqb_eq in H. now subst.
  - apply Bool.eqb_prop in H. now subst.
  - f_equal. apply fl_eq_nonneg; auto; now apply negb_true_iff.
  - apply andb_true_iff in H as [H1 H2]. apply andb_true_iff in Hf as [Hf1 Hf2]. apply andb_true_iff in Hv as [Hv1 Hv2].
    apply negb_true_iff in Hf1, Hf2, Hv1, Hv2. f_equal; apply fl_eq_nonneg; auto.
  - reflexivity.
  - apply N.eqb_eq in H. now subst.
Qed.

Lemma fl_neg_invol f : fl_neg (fl_neg f) = f.
Proof. destruct f as [|s m]; cbn; [reflexivity|]. now rewrite negb_involutive. Qed.

Arguments repr_neg : simpl never.
Arguments negv : simpl never.

Section FoldingProofs.
  Variable pr : ex -> text.
  Variable ev : text -> option val.
  Variable reparse_ok : ex -> bool.
  Variable repr_fails : val -> bool.

  (* ---- hypotheses about the interpreter and the printed text of NUMBER candidates (each sampled by leg L) ---- *)
  (* HL: a candidate Num that re-parses to itself is one unsigned literal token: it evaluates to a value without sign bits *)
  Hypothesis HL : forall w x, reparse_ok (Lit w) = true -> ev (pr (Lit w)) = Some x -> nonneg x = true.
  (* HE: '-' in front of such a token evaluates to the negation *)
  Hypothesis HE : forall w, reparse_ok (Neg (Lit w)) = true ->
      reparse_ok (Lit w) = true /\ forall x, ev (pr (Lit w)) = Some x -> ev (pr (Neg (Lit w))) = Some (negv x).
  (* HEv: and it evaluates at all only if the token does *)
  Hypothesis HEv : forall w y, reparse_ok (Neg (Lit w)) = true -> ev (pr (Neg (Lit w))) = Some y -> exists x, ev (pr (Lit w)) = Some x.
  (* HRc: a complex Num that re-parses to itself is a plain imaginary literal: no sign bits *)
  Hypothesis HRc : forall w, ty w = TComplex -> reparse_ok (Lit w) = true -> nonneg w = true.

  Notation try_fold := (try_fold pr ev reparse_ok repr_fails).
  Notation fold := (fold pr ev reparse_ok repr_fails).

  Lemma nonneg_negv_repr_neg v :   (* int/float with a leading '-' in repr: the negation has no sign bit *)
    repr_neg v = true -> match ty v with TInt | TFloat => nonneg (negv v) = true | _ => True end.
  Proof.
    unfold repr_neg, negv. destruct v as [z| |f| | |]; cbn; auto.
    - intro H. apply Z.ltb_lt in H. apply Z.leb_le. lia.
    - destruct f as [|s m]; cbn; [discriminate|]. intros ->. reflexivity.
  Qed.

  (* the heart: whenever every check of visit_BinOp passes, the candidate evaluates to EXACTLY the original value *)
  Lemma candidate_identical v new f :
    float_nan v = false ->
    candidate repr_fails v = Some new -> ev (pr new) = Some f -> reparse_ok new = true -> eqvt f v = true -> f = v.
  Proof.
    intros Hnan Hc Hf Hr He. unfold eqvt in He.
    apply andb_true_iff in He as [He Heq]. apply andb_true_iff in He as [Hty _].
    destruct v as [z|b|fv|re im| |n]; cbn [candidate] in Hc; try discriminate.
    - (* int *) destruct f; cbn in Hty, Heq; try discriminate. apply Z.eqb_eq in Heq. now subst.
    - (* bool *) destruct f; cbn in Hty, Heq; try discriminate. apply Bool.eqb_prop in Heq. now subst.
    - (* float *)
      destruct (repr_fails (VFloat fv)); [discriminate|]. injection Hc as <-.
      destruct fv as [|s m]; [discriminate|]. destruct s; unfold repr_neg, negv in Hr, Hf; cbn in Hr, Hf.
      + destruct (HE _ Hr) as [Hr' Hev]. destruct (HEv _ _ Hr Hf) as [x Hx].
        rewrite (Hev x Hx) in Hf. injection Hf as <-.
        pose proof (HL _ _ Hr' Hx) as Hxnn.
        destruct x as [| |fx| | |]; cbn in Hty; try discriminate.
        destruct fx as [|sx mx]; cbn in Heq; [discriminate|]. cbn in Hxnn. apply negb_true_iff in Hxnn. subst sx.
        apply andb_true_iff in Heq as [Hm _]. apply N.eqb_eq in Hm. subst. reflexivity.
      + pose proof (HL _ _ Hr Hf) as Hfnn.
        apply eq_nonneg_ident; auto.
    - (* complex *)
      destruct (repr_fails (VComplex re im)); [discriminate|]. injection Hc as <-.
      destruct (repr_neg (VComplex re im)) eqn:Hneg.
      + (* '-...j': the candidate -(Num(-v)) can never re-parse to itself: -v has a set sign bit on its real part *)
        exfalso. destruct (HE _ Hr) as [Hr' _].
        pose proof (HRc (negv (VComplex re im)) eq_refl Hr') as Hnn.
        unfold repr_neg in Hneg. unfold negv in Hnn. destruct re as [|[|] [|p]]; try discriminate; cbn in Hnn; discriminate.
      + pose proof (HL _ _ Hr Hf) as Hfnn. pose proof (HRc (VComplex re im) eq_refl Hr) as Hvnn.
        apply eq_nonneg_ident; auto.
  Qed.

  (* one step, exceptions included: an expression whose evaluation raises is left in place *)
  Lemma try_fold_sound l o r : ev (pr (try_fold l o r)) = ev (pr (Bin l o r)).
  Proof.
    unfold Fold.try_fold.
    destruct (negb (is_const l)); [reflexivity|]. destruct (negb (is_const r)); [reflexivity|].
    destruct o; try reflexivity;
    (destruct (ev (pr (Bin l _ r))) as [v|] eqn:Hv; [|now rewrite Hv]);
    (destruct (float_nan v) eqn:Hnan; [now rewrite Hv|]);
    (destruct (complex_nonfinite v); [now rewrite Hv|]);
    (destruct (candidate repr_fails v) as [new|] eqn:Hc; [|now rewrite Hv]);
    (destruct (ev (pr new)) as [f|] eqn:Hf; [|now rewrite Hv]);
    (destruct (Nat.leb _ _); [now rewrite Hv|]);
    (destruct (reparse_ok new) eqn:Hr; cbn [negb]; [|now rewrite Hv]);
    (destruct (eqvt f v) eqn:He; cbn [negb]; [|now rewrite Hv]);
    rewrite Hf; f_equal; eapply candidate_identical; eauto.
  Qed.

  (* ---- any depth, any context: evaluation is compositional (semantic hypotheses about the interpreter) ---- *)
  Hypothesis Cbin : forall l l' o r r', ev (pr l) = ev (pr l') -> ev (pr r) = ev (pr r') -> ev (pr (Bin l o r)) = ev (pr (Bin l' o r')).
  Hypothesis Cneg : forall a a', ev (pr a) = ev (pr a') -> ev (pr (Neg a)) = ev (pr (Neg a')).
  Hypothesis Cctx : forall c args args', Forall2 (fun a b => ev (pr a) = ev (pr b)) args args' -> ev (pr (Ctx c args)) = ev (pr (Ctx c args')).

  Fixpoint ex_ind' (P : ex -> Prop) (Hlit : forall v, P (Lit v)) (Hneg : forall e, P e -> P (Neg e))
    (Hbin : forall l o r, P l -> P r -> P (Bin l o r)) (Hctx : forall c args, Forall P args -> P (Ctx c args))
    (Hleaf : forall n, P (Leaf n)) (e : ex) : P e :=
    match e with
    | Lit v => Hlit v
    | Neg a => Hneg a (ex_ind' P Hlit Hneg Hbin Hctx Hleaf a)
    | Bin l o r => Hbin l o r (ex_ind' P Hlit Hneg Hbin Hctx Hleaf l) (ex_ind' P Hlit Hneg Hbin Hctx Hleaf r)
    | Ctx c args => Hctx c args ((fix go (l : list ex) : Forall P l :=
                                    match l with [] => Forall_nil P | a :: l' => Forall_cons a (ex_ind' P Hlit Hneg Hbin Hctx Hleaf a) (go l') end) args)
    | Leaf n => Hleaf n
    end.

  Theorem fold_preserves_eval e : ev (pr (fold e)) = ev (pr e).
  Proof.
    induction e using ex_ind'; cbn [Fold.fold]; try reflexivity.
    - apply Cneg. exact IHe.
    - rewrite try_fold_sound. apply Cbin; assumption.
    - apply Cctx. induction H as [|a args Ha _ IH]; cbn [map]; constructor; assumption.
  Qed.

  (* ---- no NaN literal is ever created ---- *)
  Definition lit_nan (v : val) : bool := match v with VFloat FNan => true | VComplex r i => match r, i with FNan, _ | _, FNan => true | _, _ => false end | _ => false end.
  Fixpoint no_nan (e : ex) : Prop :=
    match e with
    | Lit v => lit_nan v = false
    | Neg a => no_nan a
    | Bin l _ r => no_nan l /\ no_nan r
    | Ctx _ args => (fix all (l : list ex) : Prop := match l with [] => True | a :: l' => no_nan a /\ all l' end) args
    | Leaf _ => True
    end.
  Lemma candidate_no_nan v new : float_nan v = false -> complex_nonfinite v = false -> candidate repr_fails v = Some new -> no_nan new.
  Proof.
    intros Hn Hc H. destruct v as [z|b|f|re im| |n]; cbn [candidate] in H; try discriminate.
    - destruct (repr_fails _); [discriminate|]. injection H as <-. destruct (repr_neg _); reflexivity.
    - injection H as <-. reflexivity.
    - destruct (repr_fails _); [discriminate|]. injection H as <-.
      destruct f as [|s m]; [discriminate|]. destruct (repr_neg _); reflexivity.
    - destruct (repr_fails _); [discriminate|]. injection H as <-.
      cbn in Hc. apply orb_false_iff in Hc as [Hr Hi].
      destruct re as [|s m], im as [|s2 m2]; cbn in Hr, Hi; try discriminate.
      destruct (repr_neg _); reflexivity.
  Qed.
  Lemma try_fold_no_nan l o r : no_nan l -> no_nan r -> no_nan (try_fold l o r).
  Proof.
    intros Hl Hr. unfold Fold.try_fold.
    destruct (negb (is_const l)); [now split|]. destruct (negb (is_const r)); [now split|].
    destruct o; try (now split);
    (destruct (ev (pr (Bin l _ r))) as [v|]; [|now split]);
    (destruct (float_nan v) eqn:Hn; [now split|]);
    (destruct (complex_nonfinite v) eqn:Hcn; [now split|]);
    (destruct (candidate repr_fails v) as [new|] eqn:Hc; [|now split]);
    (destruct (ev (pr new)); [|now split]);
    (destruct (Nat.leb _ _); [now split|]);
    (destruct (negb (reparse_ok new)); [now split|]);
    (destruct (negb (eqvt _ v)); [now split|]);
    eapply candidate_no_nan; eauto.
  Qed.
  Theorem fold_no_nan e : no_nan e -> no_nan (fold e).
  Proof.
    induction e using ex_ind'; cbn [Fold.fold no_nan].
    - auto.
    - exact IHe.
    - intros [Hl Hr]. apply try_fold_no_nan; auto.
    - induction H as [|a args Ha _ IH]; cbn [map]; [auto|]. intros [H1 H2]. split; [apply Ha; exact H1 | exact (IH H2)].
    - auto.
  Qed.

  (* ---- folding makes the printed node strictly shorter or leaves it alone; Div and Pow are never folded ---- *)
  Lemma try_fold_shorter l o r : try_fold l o r = Bin l o r \/ length (pr (try_fold l o r)) < length (pr (Bin l o r)).
  Proof.
    unfold Fold.try_fold.
    destruct (negb (is_const l)); [now left|]. destruct (negb (is_const r)); [now left|].
    destruct o; try (now left);
    (destruct (ev (pr (Bin l _ r))) as [v|]; [|now left]);
    (destruct (float_nan v); [now left|]); (destruct (complex_nonfinite v); [now left|]);
    (destruct (candidate repr_fails v) as [new|]; [|now left]);
    (destruct (ev (pr new)); [|now left]);
    (destruct (Nat.leb _ _) eqn:Hlen; [now left|]);
    (destruct (negb (reparse_ok new)); [now left|]); (destruct (negb (eqvt _ v)); [now left|]);
    right; apply Nat.leb_gt in Hlen; exact Hlen.
  Qed.
  Lemma try_fold_div_pow l r : try_fold l Div r = Bin l Div r /\ try_fold l Pow r = Bin l Pow r.
  Proof. unfold Fold.try_fold. destruct (negb (is_const l)), (negb (is_const r)); split; reflexivity. Qed.
  Lemma try_fold_operands l o r : try_fold l o r <> Bin l o r -> is_const l = true /\ is_const r = true.
  Proof.
    unfold Fold.try_fold. destruct (is_const l), (is_const r); cbn [negb]; intro H; try (exfalso; apply H; reflexivity). auto.
  Qed.
End FoldingProofs.
