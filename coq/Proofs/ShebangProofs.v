From Coq Require Import String.
From PM Require Import Model.Base Model.PipelineBase Gen.Pipeline Model.Shebang.
Open Scope bool_scope.
Ltac Zify.zify_post_hook ::= Z.to_euclidean_division_equations.

Lemma rmatch_star_last a s fuel :
  length s + 1 < fuel -> rmatch fuel [(a, true)] s = Some (takewhile (atom_matches a) s).
Proof.
  revert fuel; induction s as [|c s IH]; intros fuel Hf; destruct fuel as [|fuel]; try (cbn in Hf; lia).
  - cbn [rmatch takewhile]. destruct fuel; [cbn in Hf; lia|]. reflexivity.
  - cbn [rmatch takewhile]. cbn [length] in Hf. destruct (atom_matches a c).
    + rewrite IH by lia. reflexivity.
    + destruct fuel; [lia|]. reflexivity.
Qed.

(* any regex of the shape  <lit> <lit> <atom>*  matches exactly: the two literals, then the longest run of the atom *)
Lemma re_match_lit2_star x y a s :
  re_match [(RLit x, false); (RLit y, false); (a, true)] s =
  match s with
  | c :: d :: rest => if N.eqb c x && N.eqb d y then Some (c :: d :: takewhile (atom_matches a) rest) else None
  | _ => None
  end.
Proof.
  unfold re_match. cbn [length].
  destruct s as [|c [|d rest]].
  - reflexivity.
  - cbn. destruct (N.eqb c x); reflexivity.
  - cbn [length]. replace (2 * (S (S (length rest)) + 3) + 2) with (S (S (2 * length rest + 10))) by lia.
    cbn [rmatch atom_matches]. destruct (N.eqb c x); [|reflexivity]. destruct (N.eqb d y); [|reflexivity].
    cbn [andb option_map]. rewrite rmatch_star_last by lia. reflexivity.
Qed.

Lemma takewhile_ext {A} (p q : A -> bool) l : (forall x, p x = q x) -> takewhile p l = takewhile q l.
Proof. intro H. induction l as [|x l IH]; cbn; [reflexivity|]. rewrite H, IH. reflexivity. Qed.

Lemma takewhile_app_all {A} (p : A -> bool) l r : forallb p l = true -> takewhile p (l ++ r) = l ++ takewhile p r.
Proof. induction l as [|x l IH]; cbn; [reflexivity|]. intro H. apply andb_true_iff in H as [-> H]. now rewrite IH. Qed.

(* UTF-8 and ASCII-determined character classes: a class that excludes a set of ASCII characters *)
Definition excl (cs : list N) (c : N) : bool := negb (existsb (N.eqb c) cs).
Definition ascii_set (cs : list N) : Prop := Forall (fun x => (x < 128)%N) cs.

Lemma existsb_ge128 cs b : ascii_set cs -> (128 <= b)%N -> existsb (N.eqb b) cs = false.
Proof.
  intros Hcs Hb. induction Hcs as [|x cs Hx _ IH]; [reflexivity|]. cbn [existsb].
  destruct (N.eqb_spec b x); [lia|]. exact IH.
Qed.
Lemma utf8_cp_excl cs c : ascii_set cs -> excl cs c = true -> forallb (excl cs) (utf8_cp c) = true.
Proof.
  unfold utf8_cp, excl. intros Hcs H.
  destruct (c <? 128)%N eqn:E1; [cbn [forallb]; rewrite H; reflexivity|].
  apply N.ltb_ge in E1.
  destruct (c <? 2048)%N; [|destruct (c <? 65536)%N]; cbn [forallb];
    rewrite ?(existsb_ge128 cs) by (try exact Hcs; lia); reflexivity.
Qed.
Lemma utf8_cp_not_excl cs c : ascii_set cs -> excl cs c = false -> utf8_cp c = [c].
Proof.
  unfold excl. intros Hcs H. apply negb_false_iff in H. apply existsb_exists in H as (x & Hx & He).
  apply N.eqb_eq in He. subst x. unfold ascii_set in Hcs. rewrite Forall_forall in Hcs. specialize (Hcs c Hx).
  unfold utf8_cp. apply N.ltb_lt in Hcs. now rewrite Hcs.
Qed.
Lemma takewhile_utf8 cs s : ascii_set cs ->
  takewhile (excl cs) (utf8 s) = utf8 (takewhile (excl cs) s).
Proof.
  intro Hcs. unfold utf8. induction s as [|c s IH]; [reflexivity|]. cbn [flat_map takewhile].
  destruct (excl cs c) eqn:E.
  - rewrite takewhile_app_all by (apply utf8_cp_excl; assumption). cbn [flat_map]. now rewrite IH.
  - rewrite (utf8_cp_not_excl cs c Hcs E). cbn [app takewhile]. rewrite E. reflexivity.
Qed.

(* which characters an atom excludes, when it is of the "everything but some ASCII characters" kind *)
Definition atom_excludes (a : ratom) : option (list N) :=
  match a with RDot => Some [10%N] | RNotIn cs => if forallb (fun x => (x <? 128)%N) cs then Some cs else None | _ => None end.
Lemma atom_excludes_spec a cs : atom_excludes a = Some cs -> ascii_set cs /\ forall c, atom_matches a c = excl cs c.
Proof.
  destruct a as [| |?|cs']; cbn [atom_excludes]; try discriminate.
  - intro H; injection H as <-. split; [repeat constructor|]. intro c. unfold excl. cbn. now rewrite orb_false_r.
  - destruct (forallb _ cs') eqn:E; [|discriminate]. intro H; injection H as <-. split; [|reflexivity].
    unfold ascii_set. rewrite Forall_forall. rewrite forallb_forall in E. intros x Hx. apply N.ltb_lt. auto.
Qed.

(* the bytes-level and text-level shebang matches agree through UTF-8, for any pair of equal patterns of the shape
   '#' '!' <class>* where the class excludes only ASCII characters *)
Lemma shebang_bytes_text_agree_gen x y a cs s :
  (x < 128)%N -> (y < 128)%N -> atom_excludes a = Some cs ->
  re_match [(RLit x, false); (RLit y, false); (a, true)] (utf8 s) =
  option_map utf8 (re_match [(RLit x, false); (RLit y, false); (a, true)] s).
Proof.
  intros Hx Hy Ha. destruct (atom_excludes_spec a cs Ha) as [Hcs Hm].
  rewrite !re_match_lit2_star.
  assert (Hlit : forall z c, (z < 128)%N -> N.eqb c z = true -> utf8_cp c = [c]).
  { intros z c Hz E. apply N.eqb_eq in E. subst. unfold utf8_cp. apply N.ltb_lt in Hz. now rewrite Hz. }
  assert (Hhead : forall c, (c < 128)%N \/ (128 <= c)%N) by (intro; lia).
  destruct s as [|c [|d rest]].
  - reflexivity.
  - unfold utf8. cbn [flat_map]. rewrite app_nil_r. unfold utf8_cp.
    destruct (c <? 128)%N; [reflexivity|]. destruct (c <? 2048)%N; [|destruct (c <? 65536)%N].
    + destruct (N.eqb_spec (192 + c / 64) x); [lia|]. reflexivity.
    + destruct (N.eqb_spec (224 + c / 4096) x); [lia|]. reflexivity.
    + destruct (N.eqb_spec (240 + c / 262144) x); [lia|]. reflexivity.
  - destruct (N.eqb c x) eqn:Ec.
    + destruct (N.eqb d y) eqn:Ed.
      * unfold utf8. cbn [flat_map]. rewrite (Hlit x c Hx Ec), (Hlit y d Hy Ed). cbn [app]. rewrite Ec, Ed. cbn [andb option_map].
        f_equal. cbn [flat_map]. rewrite (Hlit x c Hx Ec), (Hlit y d Hy Ed). cbn [app]. f_equal. f_equal.
        rewrite (takewhile_ext _ (excl cs)) by exact Hm. rewrite (takewhile_ext (atom_matches a) (excl cs)) by exact Hm.
        apply (takewhile_utf8 cs rest Hcs).
      * unfold utf8. cbn [flat_map]. rewrite (Hlit x c Hx Ec). cbn [app andb option_map].
        unfold utf8_cp at 1. destruct (d <? 128)%N; [cbn [app]; rewrite Ec, Ed; reflexivity|].
        destruct (d <? 2048)%N; [|destruct (d <? 65536)%N]; cbn [app]; rewrite Ec; cbn [andb];
          match goal with |- context [N.eqb ?u y] => destruct (N.eqb_spec u y); [lia|] end; reflexivity.
    + cbn [andb option_map]. unfold utf8. cbn [flat_map]. unfold utf8_cp at 1.
      destruct (c <? 128)%N.
      * cbn [app]. destruct (utf8_cp d ++ flat_map utf8_cp rest); [reflexivity|]. rewrite Ec. reflexivity.
      * destruct (c <? 2048)%N; [|destruct (c <? 65536)%N]; cbn [app];
          match goal with |- context [N.eqb ?u x] => destruct (N.eqb_spec u x); [lia|] end; reflexivity.
Qed.

Lemma c16_bytes_text_agree s :
  find_shebang_bytes (utf8 s) = option_map utf8 (find_shebang_text s).
Proof.
  unfold find_shebang_bytes, find_shebang_text, shebang_regex_bytes, shebang_regex_text.
  eapply shebang_bytes_text_agree_gen; [reflexivity|reflexivity|reflexivity].
Qed.

(* the shebang line that is re-attached is exactly the first physical line *)
Lemma c16_first_line s :
  starts_shebang s = true -> find_shebang_text s = Some (first_line s).
Proof.
  unfold find_shebang_text, shebang_regex_text. rewrite re_match_lit2_star.
  destruct s as [|c [|d rest]]; try discriminate. cbn [starts_shebang].
  intro H. rewrite H. apply andb_true_iff in H as [Hc Hd]. apply N.eqb_eq in Hc, Hd. subst c d. unfold first_line. cbn [takewhile is_eol N.eqb orb negb Pos.eqb]. f_equal. f_equal. f_equal.
  apply takewhile_ext. intro c. cbn [atom_matches existsb]. unfold is_eol.
  destruct (N.eqb c 13), (N.eqb c 10); reflexivity.
Qed.
Lemma c16_no_shebang s : starts_shebang s = false -> find_shebang_text s = None.
Proof.
  unfold find_shebang_text, shebang_regex_text. rewrite re_match_lit2_star.
  destruct s as [|c [|d rest]]; try reflexivity. cbn [starts_shebang]. intros ->. reflexivity.
Qed.

Lemma c16_output s preserve minified :
  attach_shebang preserve (find_shebang_text s) minified =
  if preserve && starts_shebang s then first_line s ++ [10%N] ++ minified else minified.
Proof.
  unfold attach_shebang. destruct preserve; [|reflexivity]. cbn [andb].
  destruct (starts_shebang s) eqn:E; [rewrite c16_first_line by exact E|rewrite c16_no_shebang by exact E]; reflexivity.
Qed.

(* where the epilogue sits in minify(): after printing, gated on `preserve_shebang is True`, last before return *)
Lemma c16_epilogue_position :
  exists pre, minify_body = pre ++ [PUnparse; PShebang (GIsTrue "preserve_shebang"); PReturn] /\
    forall st, In st pre -> match st with PShebang _ | PUnparse | PReturn => False | _ => True end.
Proof.
  exists (firstn (length minify_body - 3) minify_body). split; [vm_compute; reflexivity|].
  intros st H. vm_compute in H.
  repeat (destruct H as [<-|H]; [exact I|]). destruct H.
Qed.
