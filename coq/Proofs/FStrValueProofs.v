From PM Require Import Model.Base Model.MiniString Model.StrDecode Model.FStr Model.FStrValue.
From PM Require Import Proofs.MiniStringProofs Proofs.StrDecodeProofs Proofs.FStrProofs.
From Coq Require Import Lia ZifyBool ZifyN.
Open Scope bool_scope.
Open Scope N_scope.

Lemma esc_str_dec long q c tail : is_q q -> c <> q -> code_point c ->
  dec long q DNorm (esc_str c ++ tail) = cons_res c (dec long q DNorm tail).
Proof.
  intros Hq Hcq Hc. unfold code_point in Hc. unfold esc_str.
  destruct (N.eqb_spec c 10) as [->|H10]; [apply dec_simple; reflexivity|].
  destruct (N.eqb_spec c 13) as [->|H13]; [apply dec_simple; reflexivity|].
  destruct (N.eqb_spec c 92) as [->|H92]; [apply dec_simple; reflexivity|].
  destruct (N.eqb_spec c 0) as [->|H0]; [cbn [app]; cbn [dec]; reflexivity|].
  destruct (surrogate c) eqn:Es.
  - rewrite <- app_assoc. apply dec_u4. unfold surrogate in Es. lia.
  - cbn [app]. destruct long; [apply dec_plain_long | apply dec_plain_short]; assumption.
Qed.

Definition okc (q : N) (c : N) : Prop := c <> q /\ code_point c.

Lemma body_dec_short q cs rest : is_q q -> Forall (okc q) cs ->
  dec false q DNorm (flat_map esc_str cs ++ q :: rest) = Some (cs, rest).
Proof.
  intros Hq H. induction H as [|c cs [Hc Hp] _ IH]; cbn [flat_map app].
  - cbn [dec]. destruct Hq as [->| ->]; reflexivity.
  - rewrite <- app_assoc, esc_str_dec by assumption. rewrite IH. reflexivity.
Qed.
Lemma body_dec_long q cs rest : is_q q -> Forall (okc q) cs ->
  dec true q DNorm (flat_map esc_str cs ++ q :: q :: q :: rest) = Some (cs, rest).
Proof.
  intros Hq H. induction H as [|c cs [Hc Hp] _ IH]; cbn [flat_map app].
  - cbn [dec]. destruct Hq as [->| ->]; reflexivity.
  - rewrite <- app_assoc, esc_str_dec by assumption. rewrite IH. reflexivity.
Qed.

Definition open_v (q : quote) (l cs : text) : Prop := cs <> [] /\ Forall (okc (qc q)) cs /\ l = qtext q ++ flat_map esc_str cs.
Definition good_v (L cs : text) : Prop := exists q, is_q (qc q) /\ cs <> [] /\ Forall (okc (qc q)) cs /\ L = qtext q ++ flat_map esc_str cs ++ qtext q.

Lemma okc_ne q cs : Forall (okc q) cs -> Forall (fun c => c <> q) cs.
Proof. intro H. eapply Forall_impl; [|exact H]. intros c [Hc _]. exact Hc. Qed.

Lemma good_v_value L cs rest v : good_v L cs -> lits_value rest v -> lits_value (L ++ rest) (cs ++ v).
Proof.
  intros (q & Hq & Hne & Hcs & ->) Hrest. unfold qtext. destruct (qlong q).
  - rewrite <- !app_assoc. cbn [app]. eapply LV_long; [exact Hq | | exact Hrest]. apply body_dec_long; assumption.
  - rewrite <- !app_assoc. cbn [app]. eapply LV_short; [exact Hq | | | exact Hrest].
    + eapply (body_head esc_str esc_str_ok); [exact Hq | exact Hne | apply okc_ne; exact Hcs].
    + apply body_dec_short; assumption.
Qed.

Lemma joinr_value ls bodies : Forall2 good_v ls bodies -> lits_value (joinr ls) (concat bodies).
Proof.
  induction 1 as [|l b ls bs Hl Hls IH]; cbn [joinr concat]; [constructor|].
  apply good_v_value; [exact Hl|].
  destruct ls as [|l2 ls']; [exact IH|]. destruct (N.eqb (last l 0) (hd 0 l2)); [apply LV_space|]; exact IH.
Qed.

Lemma get_quote_full_v c q : get_quote full_quotes c = Some q -> is_q (qc q) /\ c <> qc q.
Proof.
  unfold get_quote, full_quotes, differs. cbn [find qlong qc orb].
  destruct (N.eqb_spec c 34) as [->|H34]; cbn [negb].
  - cbn. intro H. injection H as <-. split; [left; reflexivity | discriminate].
  - intro H. injection H as <-. split; [right; reflexivity | exact H34].
Qed.

Lemma lits_val s : forall cq lit cur, Forall code_point s ->
  (match cq with Some q => is_q (qc q) | None => True end) ->
  (match lit with Some l => exists q, cq = Some q /\ open_v q l cur | None => cur = [] end) ->
  exists ls bodies, lits [] esc_str full_quotes cq lit s = Some ls /\ Forall2 good_v ls bodies /\ concat bodies = cur ++ s.
Proof.
  induction s as [|c s IH]; intros cq lit cur Hs Hcq Hlit; cbn [lits].
  - destruct lit as [l|].
    + destruct Hlit as (q & -> & Hne & Hcs & ->). cbn [flush]. exists [(qtext q ++ flat_map esc_str cur) ++ qtext q], [cur].
      split; [reflexivity|]. split; [|cbn [concat]; reflexivity].
      constructor; [|constructor]. exists q. repeat split; try assumption. rewrite <- app_assoc. reflexivity.
    + subst cur. exists [], []. split; [destruct cq; reflexivity|]. split; [constructor|reflexivity].
  - inversion Hs as [|c' s' Hc Hs']; subst c' s'.
    destruct (can_quote cq c) eqn:Ecan.
    + destruct cq as [q|]; [|discriminate]. cbn [can_quote] in Ecan. apply negb_true_iff, N.eqb_neq in Ecan.
      destruct (IH (Some q) (Some ((match lit with Some l => l | None => [] ++ qtext q end) ++ esc_str c)) (cur ++ [c]) Hs' Hcq) as (ls & bodies & Hl & Hg & Hcat).
      { exists q. split; [reflexivity|]. destruct lit as [l|].
        - destruct Hlit as (q' & Hq' & Hne & Hcs & ->). injection Hq' as <-. split; [destruct cur; discriminate|]. split.
          + apply Forall_app. split; [exact Hcs|]. constructor; [split; assumption|constructor].
          + rewrite flat_map_app. cbn [flat_map]. rewrite app_nil_r, <- app_assoc. reflexivity.
        - subst cur. cbn [app]. split; [discriminate|]. split; [constructor; [split; assumption|constructor]|].
          cbn [flat_map]. rewrite app_nil_r. reflexivity. }
      exists ls, bodies. split; [exact Hl|]. split; [exact Hg|]. rewrite Hcat, <- app_assoc. reflexivity.
    + destruct (get_quote full_quotes c) as [q|] eqn:Eg; [|exfalso; eapply get_quote_full_total; eauto].
      destruct (get_quote_full_v c q Eg) as [Hv Hne].
      destruct (IH (Some q) (Some ([] ++ qtext q ++ esc_str c)) [c] Hs' Hv) as (ls & bodies & Hl & Hg & Hcat).
      { exists q. split; [reflexivity|]. cbn [app]. split; [discriminate|]. split; [constructor; [split; assumption|constructor]|].
        cbn [flat_map]. rewrite app_nil_r. reflexivity. }
      rewrite Hl. cbn [option_map]. destruct lit as [l|].
      * destruct Hlit as (q0 & -> & Hne0 & Hcs0 & ->). cbn [flush].
        exists (((qtext q0 ++ flat_map esc_str cur) ++ qtext q0) :: ls), (cur :: bodies). split; [reflexivity|]. split.
        -- constructor; [|exact Hg]. exists q0. repeat split; try assumption. rewrite <- app_assoc. reflexivity.
        -- cbn [concat]. rewrite Hcat. reflexivity.
      * subst cur. exists ls, bodies. split; [destruct cq; reflexivity|]. split; [exact Hg|]. rewrite Hcat. reflexivity.
Qed.

(* VALUE of the text f_string.Str evaluates and writes: whatever quote the candidate starts with, the literals it consists
   of denote, concatenated, exactly the original string *)
Theorem str_candidate_value start s : In start full_quotes -> Forall code_point s ->
  exists txt, str_candidate start s = Some txt /\ lits_value txt s.
Proof.
  intros Hin Hs. unfold str_candidate, candidate.
  assert (Hv : is_q (qc start)) by (cbn in Hin; unfold is_q; destruct Hin as [<-|[<-|[<-|[<-|[]]]]]; cbn; auto).
  destruct (lits_val s (Some start) None [] Hs Hv eq_refl) as (ls & bodies & -> & Hg & Hcat).
  eexists. split; [reflexivity|]. cbn [app] in Hcat. rewrite <- Hcat. apply joinr_value. exact Hg.
Qed.
