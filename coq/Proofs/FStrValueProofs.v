From PM Require Import Model.Base Model.MiniString Model.StrDecode Model.FStr Model.FStrValue.
From PM Require Import Proofs.MiniStringProofs Proofs.StrDecodeProofs Proofs.FStrProofs.
From Coq Require Import Lia ZifyBool ZifyN.
Open Scope bool_scope.
Open Scope N_scope.
Ltac Zify.zify_post_hook ::= Z.to_euclidean_division_equations.

(* ------------------------------------------------------------------ str: one escaped character decodes to itself *)
Lemma esc_str_dec long q c tail : is_q q -> c <> q -> code_point c ->
  dec long q DNorm (esc_str c ++ tail) = cons_res c (dec long q DNorm tail).
Proof.
  intros Hq Hcq Hc. unfold code_point in Hc. unfold esc_str.
  destruct (N.eqb_spec c 10) as [->|H10]; [apply dec_simple; reflexivity|].
  destruct (N.eqb_spec c 13) as [->|H13]; [apply dec_simple; reflexivity|].
  destruct (N.eqb_spec c 92) as [->|H92]; [apply dec_simple; reflexivity|].
  destruct (N.eqb_spec c 0) as [->|H0]; [cbn [app]; cbn [dec]; reflexivity|].
  destruct (surrogate c) eqn:Es.
  - rewrite <- app_assoc. apply dec_u4. unfold surrogate in Es. lia.
  - cbn [app]. destruct long; [apply dec_plain_long | apply dec_plain_short]; assumption.
Qed.

(* ------------------------------------------------------------------ bytes: the same for decb *)
Lemma decb_hex_cons long q k acc n tail : n < 16 ->
  decb long q (DHex (S (S k)) acc) (hex_digit n :: tail) = decb long q (DHex (S k) (acc * 16 + n)) tail.
Proof. intros H. cbn [decb]. rewrite (unhex_hex_digit n H). reflexivity. Qed.
Lemma decb_hex_last long q acc n tail : n < 16 ->
  decb long q (DHex 1 acc) (hex_digit n :: tail) = cons_res (acc * 16 + n) (decb long q DNorm tail).
Proof. intros H. cbn [decb]. rewrite (unhex_hex_digit n H). reflexivity. Qed.
Lemma decb_x2 long q b tail : b < 256 ->
  decb long q DNorm ([92; 120] ++ hex_fixed 2 b ++ tail) = cons_res b (decb long q DNorm tail).
Proof.
  intros H. cbn [app hex_fixed]. cbn [decb]. change (92 =? 92) with true. cbv iota.
  change (simple_escape 120) with (@None N). cbv iota. change (120 =? 120) with true. cbv iota.
  rewrite (unhex_hex_digit (b / 16 mod 16)) by lia. cbv iota. rewrite (unhex_hex_digit (b mod 16)) by lia. cbv iota. f_equal. lia.
Qed.
Lemma decb_simple long q e v tail : simple_escape e = Some v ->
  decb long q DNorm (92 :: e :: tail) = cons_res v (decb long q DNorm tail).
Proof. intros H. cbn [decb]. change (92 =? 92) with true. cbv iota. rewrite H. reflexivity. Qed.
Lemma decb_plain long q c tail : c <> q -> c <> 10 -> c <> 92 -> c <> 13 -> c <> 0 -> c < 128 ->
  decb long q DNorm (c :: tail) = cons_res c (decb long q DNorm tail).
Proof.
  intros H1 H2 H3 H4 H5 H6. cbn [decb].
  replace (c =? 92) with false by lia. replace ((c =? 13) || (c =? 0) || (128 <=? c)) with false by lia.
  replace (c =? q) with false by lia. replace (c =? 10) with false by lia. cbn [andb]. destruct long; reflexivity.
Qed.
Definition byte_val (b : N) : Prop := b < 256.
Lemma esc_bytes_dec long q b tail : is_q q -> b <> q -> byte_val b ->
  decb long q DNorm (esc_bytes b ++ tail) = cons_res b (decb long q DNorm tail).
Proof.
  intros Hq Hbq Hb. unfold byte_val in Hb. unfold esc_bytes.
  destruct (N.eqb_spec b 92) as [->|H92]; [apply decb_simple; reflexivity|].
  destruct (N.eqb_spec b 10) as [->|H10]; [apply decb_simple; reflexivity|].
  destruct (N.eqb_spec b 13) as [->|H13]; [apply decb_simple; reflexivity|].
  destruct ((b =? 0) || (128 <=? b)) eqn:E.
  - rewrite <- app_assoc. apply decb_x2. exact Hb.
  - cbn [app]. apply decb_plain; lia.
Qed.

(* ------------------------------------------------------------------ generic: _literals + join preserve the value *)
Section Value.
  Variable pre : text.
  Variable esc : N -> text.
  Variable D : bool -> N -> dstate -> text -> option (text * text).
  Variable okc : N -> N -> Prop.           (* okc q c: c may stand in a literal quoted with q *)
  Variable valid_char : N -> Prop.
  Hypothesis Hesc : esc_ok esc.
  Hypothesis Hok : forall q c, c <> q -> valid_char c -> okc q c.
  Hypothesis Hne : forall q c, okc q c -> c <> q.
  Hypothesis Hchar : forall long q c tail, is_q q -> okc q c -> D long q DNorm (esc c ++ tail) = cons_res c (D long q DNorm tail).
  Hypothesis Hclose_s : forall q rest, is_q q -> D false q DNorm (q :: rest) = Some ([], rest).
  Hypothesis Hclose_l : forall q rest, is_q q -> D true q DNorm (q :: q :: q :: rest) = Some ([], rest).

  Lemma body_dec_short q cs rest : is_q q -> Forall (okc q) cs -> D false q DNorm (flat_map esc cs ++ q :: rest) = Some (cs, rest).
  Proof.
    intros Hq H. induction H as [|c cs Hc _ IH]; cbn [flat_map app]; [apply Hclose_s; exact Hq|].
    rewrite <- app_assoc, Hchar by assumption. rewrite IH. reflexivity.
  Qed.
  Lemma body_dec_long q cs rest : is_q q -> Forall (okc q) cs -> D true q DNorm (flat_map esc cs ++ q :: q :: q :: rest) = Some (cs, rest).
  Proof.
    intros Hq H. induction H as [|c cs Hc _ IH]; cbn [flat_map app]; [apply Hclose_l; exact Hq|].
    rewrite <- app_assoc, Hchar by assumption. rewrite IH. reflexivity.
  Qed.

  Definition open_v (q : quote) (l cs : text) : Prop := cs <> [] /\ Forall (okc (qc q)) cs /\ l = pre ++ qtext q ++ flat_map esc cs.
  Definition good_v (L cs : text) : Prop :=
    exists q, is_q (qc q) /\ cs <> [] /\ Forall (okc (qc q)) cs /\ L = pre ++ qtext q ++ flat_map esc cs ++ qtext q.

  Lemma okc_ne q cs : Forall (okc q) cs -> Forall (fun c => c <> q) cs.
  Proof. intro H. eapply Forall_impl; [|exact H]. intros c Hc. eapply Hne. exact Hc. Qed.

  Lemma good_v_value L cs rest v : good_v L cs -> lits_value_gen pre D rest v -> lits_value_gen pre D (L ++ rest) (cs ++ v).
  Proof.
    intros (q & Hq & Hnn & Hcs & ->) Hrest. unfold qtext. destruct (qlong q).
    - rewrite <- !app_assoc. cbn [app]. eapply LV_long; [exact Hq | | exact Hrest]. apply body_dec_long; assumption.
    - rewrite <- !app_assoc. cbn [app]. eapply LV_short; [exact Hq | | | exact Hrest].
      + eapply (body_head esc Hesc); [exact Hq | exact Hnn | apply okc_ne; exact Hcs].
      + apply body_dec_short; assumption.
  Qed.

  Lemma joinr_value ls bodies : Forall2 good_v ls bodies -> lits_value_gen pre D (joinr ls) (concat bodies).
  Proof.
    induction 1 as [|l b ls bs Hl Hls IH]; cbn [joinr concat]; [constructor|].
    apply good_v_value; [exact Hl|].
    destruct ls as [|l2 ls']; [exact IH|]. destruct (N.eqb (last l 0) (hd 0 l2)); [apply LV_space|]; exact IH.
  Qed.

  Lemma get_quote_full_v c q : get_quote full_quotes c = Some q -> is_q (qc q) /\ c <> qc q.
  Proof.
    unfold get_quote, full_quotes, differs. cbn [find qlong qc orb].
    destruct (N.eqb_spec c 34) as [->|H34]; cbn [negb].
    - cbn. intro H. injection H as <-. split; [left; reflexivity | discriminate].
    - intro H. injection H as <-. split; [right; reflexivity | exact H34].
  Qed.

  Lemma lits_val s : forall cq lit cur, Forall valid_char s ->
    (match cq with Some q => is_q (qc q) | None => True end) ->
    (match lit with Some l => exists q, cq = Some q /\ open_v q l cur | None => cur = [] end) ->
    exists ls bodies, lits pre esc full_quotes cq lit s = Some ls /\ Forall2 good_v ls bodies /\ concat bodies = cur ++ s.
  Proof.
    induction s as [|c s IH]; intros cq lit cur Hs Hcq Hlit; cbn [lits].
    - destruct lit as [l|].
      + destruct Hlit as (q & -> & Hnn & Hcs & ->). cbn [flush]. exists [(pre ++ qtext q ++ flat_map esc cur) ++ qtext q], [cur].
        split; [reflexivity|]. split; [|cbn [concat]; reflexivity].
        constructor; [|constructor]. exists q. repeat split; try assumption. rewrite <- !app_assoc. reflexivity.
      + subst cur. exists [], []. split; [destruct cq; reflexivity|]. split; [constructor|reflexivity].
    - inversion Hs as [|c' s' Hc Hs']; subst c' s'.
      destruct (can_quote cq c) eqn:Ecan.
      + destruct cq as [q|]; [|discriminate]. cbn [can_quote] in Ecan. apply negb_true_iff, N.eqb_neq in Ecan.
        destruct (IH (Some q) (Some ((match lit with Some l => l | None => pre ++ qtext q end) ++ esc c)) (cur ++ [c]) Hs' Hcq) as (ls & bodies & Hl & Hg & Hcat).
        { exists q. split; [reflexivity|]. destruct lit as [l|].
          - destruct Hlit as (q' & Hq' & Hnn & Hcs & ->). injection Hq' as <-. split; [destruct cur; discriminate|]. split.
            + apply Forall_app. split; [exact Hcs|]. constructor; [apply Hok; assumption|constructor].
            + rewrite flat_map_app. cbn [flat_map]. rewrite app_nil_r, <- !app_assoc. reflexivity.
          - subst cur. cbn [app]. split; [discriminate|]. split; [constructor; [apply Hok; assumption|constructor]|].
            cbn [flat_map]. rewrite app_nil_r, <- app_assoc. reflexivity. }
        exists ls, bodies. split; [exact Hl|]. split; [exact Hg|]. rewrite Hcat, <- app_assoc. reflexivity.
      + destruct (get_quote full_quotes c) as [q|] eqn:Eg; [|exfalso; eapply get_quote_full_total; eauto].
        destruct (get_quote_full_v c q Eg) as [Hv Hcq'].
        destruct (IH (Some q) (Some (pre ++ qtext q ++ esc c)) [c] Hs' Hv) as (ls & bodies & Hl & Hg & Hcat).
        { exists q. split; [reflexivity|]. split; [discriminate|]. split; [constructor; [apply Hok; assumption|constructor]|].
          cbn [flat_map]. rewrite app_nil_r. reflexivity. }
        rewrite Hl. cbn [option_map]. destruct lit as [l|].
        * destruct Hlit as (q0 & -> & Hne0 & Hcs0 & ->). cbn [flush].
          exists (((pre ++ qtext q0 ++ flat_map esc cur) ++ qtext q0) :: ls), (cur :: bodies). split; [reflexivity|]. split.
          -- constructor; [|exact Hg]. exists q0. repeat split; try assumption. rewrite <- !app_assoc. reflexivity.
          -- cbn [concat]. rewrite Hcat. reflexivity.
        * subst cur. exists ls, bodies. split; [destruct cq; reflexivity|]. split; [exact Hg|]. rewrite Hcat. reflexivity.
  Qed.

  Theorem candidate_value start s : In start full_quotes -> Forall valid_char s ->
    exists txt, candidate pre esc full_quotes start s = Some txt /\ lits_value_gen pre D txt s.
  Proof.
    intros Hin Hs. unfold candidate.
    assert (Hv : is_q (qc start)) by (cbn in Hin; unfold is_q; destruct Hin as [<-|[<-|[<-|[<-|[]]]]]; cbn; auto).
    destruct (lits_val s (Some start) None [] Hs Hv eq_refl) as (ls & bodies & -> & Hg & Hcat).
    eexists. split; [reflexivity|]. cbn [app] in Hcat. rewrite <- Hcat. apply joinr_value. exact Hg.
  Qed.
End Value.

(* VALUE of the text f_string.Str evaluates and writes: whatever quote the candidate starts with, the literals it consists
   of denote, concatenated, exactly the original string *)
Theorem str_candidate_value start s : In start full_quotes -> Forall code_point s ->
  exists txt, str_candidate start s = Some txt /\ lits_value txt s.
Proof.
  apply (candidate_value [] esc_str dec (fun q c => c <> q /\ code_point c) code_point esc_str_ok).
  - intros q c H1 H2. split; assumption.
  - intros q c [H _]. exact H.
  - intros long q c tail Hq [H1 H2]. apply esc_str_dec; assumption.
  - intros q rest [->| ->]; reflexivity.
  - intros q rest [->| ->]; reflexivity.
Qed.
(* ... and the same for f_string.Bytes: b-prefixed literals whose decoded bytes concatenate to the original bytes *)
Theorem bytes_candidate_value start s : In start full_quotes -> Forall byte_val s ->
  exists txt, bytes_candidate start s = Some txt /\ lits_value_bytes txt s.
Proof.
  apply (candidate_value [98] esc_bytes decb (fun q c => c <> q /\ byte_val c) byte_val esc_bytes_ok).
  - intros q c H1 H2. split; assumption.
  - intros q c [H _]. exact H.
  - intros long q c tail Hq [H1 H2]. apply esc_bytes_dec; assumption.
  - intros q rest [->| ->]; reflexivity.
  - intros q rest [->| ->]; reflexivity.
Qed.
