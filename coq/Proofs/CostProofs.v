From PM Require Import Model.Base Gen.TokenRules Model.Cost.
Open Scope nat_scope.

(* changing only lexeme LENGTHS (the emitted kinds stay the same: an identifier replaced by an identifier) changes the
   rendered length by exactly the difference of the lexeme lengths: no space appears or disappears *)
Definition same_kinds (a b : list ptok) : Prop := map p_emit a = map p_emit b.
Lemma rlen_total prev a b : same_kinds a b -> rlen prev a + total b = rlen prev b + total a.
Proof.
  revert prev b; induction a as [|x a IH]; intros prev [|y b] H; try discriminate; [reflexivity|].
  unfold same_kinds in H. cbn [map] in H. injection H as Hx Hr. cbn [rlen total fold_right]. rewrite <- Hx.
  specialize (IH (class_after (p_emit x)) b Hr). unfold total in IH. lia.
Qed.
Theorem rename_len_exact prev a b : same_kinds a b -> total b <= total a -> rlen prev b <= rlen prev a.
Proof. intros H Hle. pose proof (rlen_total prev a b H). lia. Qed.
Theorem rename_len_delta prev a b : same_kinds a b -> rlen prev b + total a = rlen prev a + total b.
Proof. intro H. pose proof (rlen_total prev a b H). lia. Qed.

(* the cost model of NameBinding: if every accounted mention is a token of the stated length, should_rename = true
   exactly when the total lexeme length does not grow *)
Theorem should_rename_name_sound refs old_len new_len old_m new_m add :
  should_rename_name refs old_len new_len old_m new_m add = true <->
  old_m * old_len + new_m * new_len + add <= refs * old_len.
Proof. unfold should_rename_name. apply Nat.leb_le. Qed.

(* hoisting changes the KIND of the replaced tokens (a string literal becomes an identifier): the cost model does not
   see the space that may become necessary.  Witness: five `return''` - after a keyword a quote needs no space, a name does. *)
Definition ret_lit : list ptok := [{| p_emit := EKeyword; p_len := 6 |}; {| p_emit := EString false; p_len := 2 |}].
Definition ret_name : list ptok := [{| p_emit := EKeyword; p_len := 6 |}; {| p_emit := EIdentifier; p_len := 1 |}].
Example hoist_cost_model_ignores_spacing :
  rlen CNewLine ret_lit = 8 /\ rlen CNewLine ret_name = 8 /\ total ret_name + 1 = total ret_lit.
Proof. vm_compute. repeat split. Qed.

(* ---- the per-reference accounting is exact on the lexeme level ---- *)
Lemma flag_count p refs : count p refs <= 1 -> flag p refs = count p refs.
Proof.
  unfold flag, count. induction refs as [|k refs IH]; cbn [existsb filter length]; [reflexivity|].
  destruct (p k) eqn:E; cbn [orb length]; intro H.
  - assert (length (filter p refs) = 0) by lia. lia.
  - apply IH. exact H.
Qed.
Lemma count_rebind_le_arg refs : count is_rebind refs <= count is_arg refs.
Proof. unfold count. induction refs as [|k refs IH]; cbn [filter length]; [lia|]. destruct k; cbn [is_rebind is_arg length]; lia. Qed.

Lemma text_before_simple refs old_len : forallb simple_ref refs = true -> text_before refs old_len = length refs * old_len.
Proof.
  induction refs as [|k refs IH]; cbn [forallb text_before fold_right length]; [reflexivity|]. intro H.
  apply andb_true_iff in H as [Hk Hr]. specialize (IH Hr). unfold text_before in IH. rewrite IH.
  destruct k; cbn [chars_before simple_ref] in *; try lia; apply Nat.eqb_eq in Hk; subst; lia.
Qed.

Lemma text_after_simple refs old_len new_len : forallb simple_ref refs = true ->
  text_after refs old_len new_len =
    (count is_plain_alias refs + 2 * count is_rebind refs) * old_len
    + (fold_right (fun k a => new_mentions_of k + a) 0 refs + count is_arg refs) * new_len
    + 4 * count is_plain_alias refs + 2 * count is_rebind refs.
Proof.
  unfold count. induction refs as [|k refs IH]; cbn [forallb text_after fold_right filter length]; [lia|]. intro H.
  apply andb_true_iff in H as [Hk Hr]. specialize (IH Hr). unfold text_after in IH. rewrite IH. clear IH.
  destruct k; cbn [chars_after simple_ref is_plain_alias is_rebind is_arg new_mentions_of length] in *; try lia;
    apply Nat.eqb_eq in Hk; subst; lia.
Qed.

(* should_rename answers exactly "the identifiers, ` as ` and `new=old` + newline written by the rename are not longer
   than the identifiers they replace" *)
Theorem should_rename_refs_exact refs old_len new_len : simple_refs refs = true ->
  (should_rename_refs refs old_len new_len = true <-> text_after refs old_len new_len <= text_before refs old_len).
Proof.
  intro Hs. apply andb_true_iff in Hs as [Hsim Harg]. apply Nat.leb_le in Harg.
  unfold should_rename_refs. rewrite should_rename_name_sound.
  rewrite (text_before_simple _ _ Hsim), (text_after_simple _ _ _ Hsim).
  unfold old_mention_count, new_mention_count, additional_byte_cost.
  pose proof (count_rebind_le_arg refs).
  rewrite (flag_count is_arg refs Harg), (flag_count is_rebind refs) by lia.
  split; intro; lia.
Qed.

(* combined with the rendering lemma: a rename the cost model approves does not lengthen the rendered text of the tokens
   it touches (kinds unchanged), up to the indentation of the inserted statement, which the model does not price *)
Example cost_example :
  let refs := [RAliasPlain; RAliasPlain; RName; RName] in
  simple_refs refs = true /\ additional_byte_cost refs = 8 /\ old_mention_count refs = 2 /\ new_mention_count refs = 4 /\
  should_rename_refs refs 4 1 = false /\ text_before refs 4 = 16 /\ text_after refs 4 1 = 20.
Proof. vm_compute. repeat split. Qed.
