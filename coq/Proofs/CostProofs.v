From PM Require Import Model.Base Gen.TokenRules Model.Cost.
Open Scope nat_scope.

(* changing only lexeme LENGTHS (the emitted kinds stay the same: an identifier replaced by an identifier) changes the
   rendered length by exactly the difference of the lexeme lengths: no space appears or disappears *)
Definition same_kinds (a b : list ptok) : Prop := map p_emit a = map p_emit b.
Lemma rlen_total prev a b : same_kinds a b -> rlen prev a + total b = rlen prev b + total a.
Proof.
  revert prev b; induction a as [|x a IH]; intros prev [|y b] H; try discriminate; [reflexivity|].
  unfold same_kinds in H. cbn [map] in H. injection H as Hx Hr. cbn [rlen total fold_right]. rewrite <- Hx.
  specialize (IH (class_after (p_emit x)) b Hr). unfold total in IH. lia.
Qed.
Theorem rename_len_exact prev a b : same_kinds a b -> total b <= total a -> rlen prev b <= rlen prev a.
Proof. intros H Hle. pose proof (rlen_total prev a b H). lia. Qed.
Theorem rename_len_delta prev a b : same_kinds a b -> rlen prev b + total a = rlen prev a + total b.
Proof. intro H. pose proof (rlen_total prev a b H). lia. Qed.

(* the cost model of NameBinding: if every accounted mention is a token of the stated length, should_rename = true
   exactly when the total lexeme length does not grow *)
Theorem should_rename_name_sound refs old_len new_len old_m new_m add :
  should_rename_name refs old_len new_len old_m new_m add = true <->
  old_m * old_len + new_m * new_len + add <= refs * old_len.
Proof. unfold should_rename_name. apply Nat.leb_le. Qed.

(* hoisting changes the KIND of the replaced tokens (a string literal becomes an identifier): the cost model does not
   see the space that may become necessary.  Witness: five `return''` - after a keyword a quote needs no space, a name does. *)
Definition ret_lit : list ptok := [{| p_emit := EKeyword; p_len := 6 |}; {| p_emit := EString false; p_len := 2 |}].
Definition ret_name : list ptok := [{| p_emit := EKeyword; p_len := 6 |}; {| p_emit := EIdentifier; p_len := 1 |}].
Example hoist_cost_model_ignores_spacing :
  rlen CNewLine ret_lit = 8 /\ rlen CNewLine ret_name = 8 /\ total ret_name + 1 = total ret_lit.
Proof. vm_compute. repeat split. Qed.
