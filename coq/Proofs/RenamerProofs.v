From PM Require Import Model.Base Model.Renamer.
Open Scope bool_scope.

Lemma in_names_in a sc s n : In (s, n) a -> In s sc -> In n (names_in a sc).
Proof.
  intros Ha Hs. unfold names_in. apply in_map_iff. exists (s, n). split; [reflexivity|].
  apply filter_In. split; [exact Ha|]. apply existsb_exists. exists s. split; [exact Hs|]. cbn. apply N.eqb_refl.
Qed.
Lemma names_in_inv a sc n : In n (names_in a sc) -> exists s, In (s, n) a /\ In s sc.
Proof.
  unfold names_in. intro H. apply in_map_iff in H as ([s n'] & Hn & Hf). cbn in Hn. subst n'.
  apply filter_In in Hf as [Ha He]. apply existsb_exists in He as (s' & Hs' & Heq). cbn in Heq. apply N.eqb_eq in Heq. subst s'.
  exists s. auto.
Qed.
Lemma available_spec n sc a : available n sc a = true -> ~ In n (names_in a sc).
Proof. unfold available. intros H Hin. apply negb_true_iff in H. apply mem_text_In in Hin. congruence. Qed.
Lemma reserve_in n sc a s : In s sc -> In (s, n) (reserve n sc a).
Proof. intro H. unfold reserve. apply in_or_app. left. apply in_map_iff. exists s. auto. Qed.
Lemma reserve_mono n sc a p : In p a -> In p (reserve n sc a).
Proof. intro H. unfold reserve. apply in_or_app. auto. Qed.
Lemma opt_text_eqb_eq a b : opt_text_eqb a b = true <-> a = b.
Proof.
  destruct a, b; cbn; split; intro H; try discriminate; try reflexivity.
  - apply text_eqb_eq in H. now subst.
  - injection H as ->. apply text_eqb_refl.
Qed.

(* a binding is pinned when it keeps its original name whatever happens and that name is reserved from the start *)
Definition pinned (b : binding) (n : text) : Prop := b_name b = Some n /\ b_reserved b = Some n.
(* well-formed table entry: a binding that may not be renamed has reserved its own name (NameBinding.disallow_rename
   does this), and a literal has no name before it is hoisted.  Checked on every table by the correspondence leg. *)
Definition wf_binding (b : binding) : Prop :=
  (b_allow b = false -> forall n, b_name b = Some n -> b_reserved b = Some n) /\
  (is_name_binding b = false -> b_name b = None).
Definition wf_bindingb (b : binding) : bool :=
  (b_allow b || match b_name b with Some n => opt_text_eqb (b_reserved b) (Some n) | None => true end) &&
  (is_name_binding b || match b_name b with None => true | Some _ => false end).
Lemma wf_bindingb_spec b : wf_bindingb b = true -> wf_binding b.
Proof.
  unfold wf_bindingb, wf_binding. intro H. apply andb_true_iff in H as [H1 H2]. split.
  - intros Ha n Hn. rewrite Ha, Hn in H1. cbn in H1. now apply opt_text_eqb_eq in H1.
  - intros Hk. rewrite Hk in H2. cbn in H2. destruct (b_name b); [discriminate|reflexivity].
Qed.

Section Proofs.
  Variable pick : bool -> list text -> text.
  Variable should : binding -> text -> bool.
  Variable prefix_globals : bool.
  Hypothesis pick_fresh : forall p l, ~ In (pick p l) l.

  Notation decide := (decide pick should prefix_globals).
  Notation run := (run pick should prefix_globals).

  (* whatever is already assigned in a namespace of the binding's scope is avoided, unless the binding is pinned to it *)
  Lemma decide_avoids b a s n :
    wf_binding b -> In s (b_scope b) -> In (s, n) a -> decide b a = Some n -> pinned b n.
  Proof.
    intros [Hwf1 Hwf2] Hs Ha Hd. unfold Renamer.decide in Hd.
    pose proof (in_names_in _ _ _ _ Ha Hs) as Hin.
    destruct (b_allow b) eqn:Eal.
    - set (c := pick (b_module b && prefix_globals) (names_in a (b_scope b))) in *.
      assert (Hc : c <> n). { intro; subst n. exact (pick_fresh _ _ Hin). }
      destruct (should b c); [injection Hd as Hd; congruence|].
      destruct (is_name_binding b) eqn:Ek.
      + destruct (b_name b) as [orig|] eqn:En; [|injection Hd as Hd; congruence].
        destruct (opt_text_eqb (b_reserved b) (Some orig)) eqn:Er.
        * injection Hd as ->. apply opt_text_eqb_eq in Er. split; auto.
        * destruct (available orig (b_scope b) a) eqn:Eav; [|injection Hd as Hd; congruence].
          injection Hd as ->. apply available_spec in Eav. contradiction.
      + rewrite (Hwf2 eq_refl) in Hd. discriminate.
    - split; [exact Hd|]. apply Hwf1; auto.
  Qed.

  (* a binding that is renamed gets a name that is assigned nowhere in its scope *)
  Lemma decide_changed_is_fresh b a n :
    decide b a = Some n -> b_name b <> Some n -> ~ In n (names_in a (b_scope b)).
  Proof.
    unfold Renamer.decide. intros Hd Hne.
    destruct (b_allow b); [|congruence].
    set (c := pick (b_module b && prefix_globals) (names_in a (b_scope b))) in *.
    assert (Hc : ~ In c (names_in a (b_scope b))) by apply pick_fresh.
    destruct (should b c); [injection Hd as <-; exact Hc|].
    destruct (is_name_binding b); [|congruence].
    destruct (b_name b) as [orig|]; [|injection Hd as <-; exact Hc].
    destruct (opt_text_eqb _ _); [congruence|]. destruct (available orig _ a); [congruence|]. injection Hd as <-; exact Hc.
  Qed.
  Lemma decide_not_allowed b a : b_allow b = false -> decide b a = b_name b.
  Proof. unfold Renamer.decide. now intros ->. Qed.

  Definition step (b : binding) (a : assigned) : assigned :=
    match decide b a with Some x => reserve x (b_scope b) a | None => a end.
  Lemma step_mono b a p : In p a -> In p (step b a).
  Proof. unfold step. destruct (decide b a); [apply reserve_mono|auto]. Qed.
  Lemma run_cons b rest a : run (b :: rest) a = (b_id b, decide b a) :: run rest (step b a).
  Proof. reflexivity. Qed.

  Lemma run_ids bs a i n : In (i, n) (run bs a) -> In i (map b_id bs).
  Proof.
    revert a; induction bs as [|b rest IH]; intros a H; [destruct H|]. rewrite run_cons in H. cbn [map].
    destruct H as [H|H]; [injection H as <- _; now left | right; eauto].
  Qed.

  (* later binding vs anything assigned before it is processed *)
  Lemma run_later : forall bs a s n1 b2 n2,
    Forall wf_binding bs -> NoDup (map b_id bs) ->
    In (s, n1) a -> In b2 bs -> In (b_id b2, Some n2) (run bs a) -> In s (b_scope b2) -> n2 = n1 -> pinned b2 n2.
  Proof.
    induction bs as [|b rest IH]; intros a s n1 b2 n2 Hwf Hnd Ha Hin Hrun Hs Heq; [destruct Hin|].
    rewrite run_cons in Hrun. cbn [map] in Hnd. inversion Hnd as [|? ? Hnotin Hnd']; subst.
    inversion Hwf as [|? ? Hwfb Hwfr]; subst.
    destruct Hrun as [Hr|Hrun].
    - injection Hr as Hid Hn. destruct Hin as [->|Hin].
      + eapply decide_avoids; eauto.
      + exfalso. apply Hnotin. rewrite Hid. now apply in_map.
    - destruct Hin as [->|Hin].
      + exfalso. apply Hnotin. eapply run_ids; eauto.
      + eapply (IH (step b a)); eauto. apply step_mono. exact Ha.
  Qed.

  Lemma head_entry b rest a n :
    NoDup (map b_id (b :: rest)) -> In (b_id b, Some n) (run (b :: rest) a) -> decide b a = Some n.
  Proof.
    intros Hnd H. rewrite run_cons in H. destruct H as [H|H]; [now injection H|].
    exfalso. cbn [map] in Hnd. inversion Hnd as [|? ? Hnotin _]; subst. apply Hnotin. eapply run_ids; eauto.
  Qed.
  Lemma tail_entry b rest a b2 n :
    NoDup (map b_id (b :: rest)) -> In b2 rest -> In (b_id b2, Some n) (run (b :: rest) a) -> In (b_id b2, Some n) (run rest (step b a)).
  Proof.
    intros Hnd Hin H. rewrite run_cons in H. destruct H as [H|H]; [|exact H].
    exfalso. injection H as Hid _. cbn [map] in Hnd. inversion Hnd as [|? ? Hnotin _]; subst. apply Hnotin. rewrite Hid. now apply in_map.
  Qed.

  (* SEPARATION: two different bindings whose reservation scopes share a namespace end up with the same name only if
     both are pinned to that name (kept, and reserved from the start) *)
  Theorem run_separates : forall bs a,
    Forall wf_binding bs -> NoDup (map b_id bs) ->
    (forall b r s, In b bs -> b_reserved b = Some r -> In s (b_scope b) -> In (s, r) a) ->
    forall b1 b2 n s, In b1 bs -> In b2 bs -> b_id b1 <> b_id b2 ->
      In (b_id b1, Some n) (run bs a) -> In (b_id b2, Some n) (run bs a) ->
      In s (b_scope b1) -> In s (b_scope b2) -> pinned b1 n /\ pinned b2 n.
  Proof.
    induction bs as [|b rest IH]; intros a Hwf Hnd Hinit b1 b2 n s H1 H2 Hne R1 R2 S1 S2; [destruct H1|].
    inversion Hwf as [|? ? Hwfb Hwfr]; subst.
    assert (Hnd' : NoDup (map b_id rest)) by (cbn [map] in Hnd; now inversion Hnd).
    assert (Hinit' : forall b0 r s0, In b0 rest -> b_reserved b0 = Some r -> In s0 (b_scope b0) -> In (s0, r) (step b a)).
    { intros b0 r s0 Hb0 Hr Hs0. apply step_mono. apply (Hinit b0 r s0); [now right|assumption|assumption]. }
    assert (Hhead : forall bh bt, bh = b -> In bt rest -> In (b_id bh, Some n) (run (b :: rest) a) -> In (b_id bt, Some n) (run (b :: rest) a) ->
              In s (b_scope bh) -> In s (b_scope bt) -> pinned bh n /\ pinned bt n).
    { intros bh bt -> Hbt Rh Rt Sh St.
      pose proof (head_entry _ _ _ _ Hnd Rh) as Hd.
      pose proof (tail_entry _ _ _ _ _ Hnd Hbt Rt) as Rt'.
      assert (Hrec : In (s, n) (step b a)). { unfold step. rewrite Hd. now apply reserve_in. }
      assert (Hp2 : pinned bt n) by (eapply (run_later rest (step b a) s n bt n); eauto).
      split; [|exact Hp2].
      destruct Hp2 as [_ Hres]. apply (decide_avoids b a s n Hwfb Sh); [|exact Hd]. apply (Hinit bt n s); [now right|assumption|assumption]. }
    destruct H1 as [<-|H1], H2 as [<-|H2].
    - congruence.
    - apply (Hhead b b2); auto.
    - destruct (Hhead b b1) as [A B]; auto.
    - eapply (IH (step b a)); eauto; eapply tail_entry; eauto.
  Qed.

  (* the initial reservations contain every reserved name in every namespace of its binding's scope *)
  Lemma init_reserved bs rg b r s :
    In b bs -> b_reserved b = Some r -> In s (b_scope b) -> In (s, r) (init bs rg).
  Proof.
    intros Hb Hr Hs. unfold init. apply in_or_app. right.
    induction bs as [|x bs IH]; [destruct Hb|]. cbn [fold_right].
    destruct Hb as [->|Hb].
    - rewrite Hr. now apply reserve_in.
    - destruct (b_reserved x); [apply reserve_mono|]; auto.
  Qed.
  Lemma init_globals bs rg n : In n rg -> In (0%N, n) (init bs rg).
  Proof. intro H. unfold init. apply in_or_app. left. apply in_map_iff. eauto. Qed.

  Lemma insert_desc_perm x l : forall y, In y (insert_desc x l) <-> y = x \/ In y l.
  Proof.
    induction l as [|z l IH]; intro y; cbn [insert_desc].
    - cbn. intuition.
    - destruct (N.leb _ _); cbn [In]; [intuition|]. rewrite IH. intuition.
  Qed.
  Lemma sort_desc_in l y : In y (sort_desc l) <-> In y l.
  Proof. induction l as [|x l IH]; [cbn; tauto|]. cbn [sort_desc fold_right]. fold (sort_desc l). rewrite insert_desc_perm, IH. cbn [In]. intuition. Qed.
  Lemma insert_desc_ids x l : forall i, In i (map b_id (insert_desc x l)) <-> i = b_id x \/ In i (map b_id l).
  Proof.
    induction l as [|z l IH]; intro i; cbn [insert_desc map].
    - cbn. intuition.
    - destruct (N.leb _ _); cbn [map In]; [intuition|]. rewrite IH. intuition.
  Qed.
  Lemma insert_desc_nodup x l : NoDup (map b_id l) -> ~ In (b_id x) (map b_id l) -> NoDup (map b_id (insert_desc x l)).
  Proof.
    induction l as [|z l IH]; intros Hnd Hx; cbn [insert_desc].
    - cbn. constructor; auto.
    - destruct (N.leb _ _); cbn [map].
      + constructor; auto.
      + cbn [map] in Hnd, Hx. inversion Hnd as [|? ? Hz Hl]; subst. constructor.
        * rewrite insert_desc_ids. intros [E|E]; [apply Hx; left; congruence|contradiction].
        * apply IH; [exact Hl|]. intro Hin. apply Hx. now right.
  Qed.
  Lemma sort_desc_nodup l : NoDup (map b_id l) -> NoDup (map b_id (sort_desc l)).
  Proof.
    induction l as [|x l IH]; [auto|]. cbn [sort_desc fold_right map]. fold (sort_desc l). intro H. inversion H; subst.
    apply insert_desc_nodup; [apply IH; auto|].
    intro Hin. apply in_map_iff in Hin as (y & Hy & Hyin). apply (proj1 (sort_desc_in l y)) in Hyin. match goal with Hn : ~ In (b_id x) (map b_id l) |- _ => apply Hn end. rewrite <- Hy. apply in_map. exact Hyin.
  Qed.

  Notation assign := (assign pick should prefix_globals).

  Theorem assign_separates bs rg b1 b2 n s :
    Forall wf_binding bs -> NoDup (map b_id bs) ->
    In b1 bs -> In b2 bs -> b_id b1 <> b_id b2 ->
    In (b_id b1, Some n) (assign bs rg) -> In (b_id b2, Some n) (assign bs rg) ->
    In s (b_scope b1) -> In s (b_scope b2) -> pinned b1 n /\ pinned b2 n.
  Proof.
    intros Hwf Hnd H1 H2 Hne R1 R2 S1 S2. unfold Renamer.assign in *.
    eapply (run_separates (sort_desc bs) (init bs rg)); eauto.
    - apply Forall_forall. intros x Hx. apply (proj1 (sort_desc_in bs x)) in Hx. rewrite Forall_forall in Hwf. auto.
    - now apply sort_desc_nodup.
    - intros b r s0 Hb Hr Hs0. apply (proj1 (sort_desc_in bs b)) in Hb. eapply init_reserved; eauto.
    - now apply sort_desc_in.
    - now apply sort_desc_in.
  Qed.

  (* a binding whose scope contains the module namespace never takes a preserved-global name, unless pinned to it *)
  Theorem assign_avoids_reserved_globals bs rg b n :
    Forall wf_binding bs -> NoDup (map b_id bs) -> In b bs -> In 0%N (b_scope b) -> In n rg ->
    In (b_id b, Some n) (assign bs rg) -> pinned b n.
  Proof.
    intros Hwf Hnd Hb Hs Hn R. unfold Renamer.assign in R.
    eapply (run_later (sort_desc bs) (init bs rg) 0%N n b n); eauto.
    - apply Forall_forall. intros x Hx. apply (proj1 (sort_desc_in bs x)) in Hx. rewrite Forall_forall in Hwf. auto.
    - now apply sort_desc_nodup.
    - now apply init_globals.
    - now apply sort_desc_in.
  Qed.

  (* a binding that may not be renamed keeps its name *)
  Lemma run_not_allowed : forall bs a b n, NoDup (map b_id bs) -> In b bs -> b_allow b = false -> In (b_id b, n) (run bs a) -> n = b_name b.
  Proof.
    induction bs as [|x rest IH]; intros a b n Hnd Hb Ha R; [destruct Hb|]. rewrite run_cons in R.
    cbn [map] in Hnd. inversion Hnd as [|? ? Hnotin Hnd']; subst.
    destruct Hb as [->|Hb].
    - destruct R as [R|R]; [injection R as <-; now apply decide_not_allowed|].
      exfalso. apply Hnotin. eapply run_ids; eauto.
    - destruct R as [R|R]; [|eauto].
      exfalso. injection R as Hid _. apply Hnotin. rewrite Hid. now apply in_map.
  Qed.
  Theorem assign_not_allowed bs rg b n :
    NoDup (map b_id bs) -> In b bs -> b_allow b = false -> In (b_id b, n) (assign bs rg) -> n = b_name b.
  Proof.
    intros Hnd Hb Ha R. unfold Renamer.assign in R. eapply (run_not_allowed (sort_desc bs)); [now apply sort_desc_nodup | now apply sort_desc_in | exact Ha | exact R].
  Qed.

  (* every binding of the table gets exactly one entry *)
  Lemma run_total : forall bs a b, In b bs -> exists n, In (b_id b, n) (run bs a).
  Proof.
    induction bs as [|x rest IH]; intros a b Hb; [destruct Hb|]. rewrite run_cons. destruct Hb as [->|Hb].
    - eexists; now left.
    - destruct (IH (step x a) b Hb) as [n Hn]. exists n. now right.
  Qed.
End Proofs.

(* ---- preserve lists and taint (allow_rename_locals / allow_rename_globals) ---- *)
Lemma disallow_props b : b_allow (disallow b) = false /\ b_name (disallow b) = b_name b /\ b_id (disallow b) = b_id b /\ b_scope (disallow b) = b_scope b.
Proof. repeat split. Qed.
Lemma allow_locals_preserved rl pl b n :
  b_module b = false -> b_name b = Some n -> In n pl -> b_allow (allow_locals rl pl b) = false.
Proof.
  intros Hm Hn Hin. unfold allow_locals. rewrite Hm. unfold name_in. rewrite Hn.
  assert (mem_text n pl = true) as -> by now apply mem_text_In. rewrite orb_true_r. reflexivity.
Qed.
Lemma allow_globals_preserved rg pg b n :
  b_module b = true -> b_name b = Some n -> In n pg -> b_allow (allow_globals rg pg b) = false.
Proof.
  intros Hm Hn Hin. unfold allow_globals. rewrite Hm. unfold name_in. rewrite Hn.
  assert (mem_text n pg = true) as -> by now apply mem_text_In. rewrite orb_true_r. reflexivity.
Qed.
Lemma allow_locals_off b : b_module b = false -> b_allow (allow_locals false [] b) = false.
Proof. intro Hm. unfold allow_locals. now rewrite Hm. Qed.
Lemma allow_globals_off b : b_module b = true -> b_allow (allow_globals false [] b) = false.
Proof. intro Hm. unfold allow_globals. now rewrite Hm. Qed.
(* asking to preserve a name changes nothing for bindings with other names *)
Lemma allow_locals_other rl pl b : name_in b pl = false -> allow_locals rl pl b = allow_locals rl [] b.
Proof. intro H. unfold allow_locals. destruct (b_module b); [reflexivity|]. rewrite H. unfold name_in. destruct (b_name b); reflexivity. Qed.
Lemma allow_globals_other rg pg b : name_in b pg = false -> allow_globals rg pg b = allow_globals rg [] b.
Proof. intro H. unfold allow_globals. destruct (b_module b); [|reflexivity]. rewrite H. unfold name_in. destruct (b_name b); reflexivity. Qed.
Lemma allow_ids rl pl rg pg b : b_id (allow_globals rg pg (allow_locals rl pl b)) = b_id b /\ b_name (allow_globals rg pg (allow_locals rl pl b)) = b_name b.
Proof.
  unfold allow_globals, allow_locals. destruct (b_module b) eqn:Hm; rewrite ?Hm.
  - destruct (negb rg || _); split; reflexivity.
  - destruct (negb rl || _); cbn; rewrite ?Hm; split; reflexivity.
Qed.

(* ---- C11: the result does not depend on the enumeration order of the reservation-scope SETS ---- *)
Definition aeq (a a' : assigned) : Prop := forall p, In p a <-> In p a'.
Definition seteq (sc sc' : list N) : Prop := forall s, In s sc <-> In s sc'.
Definition same_upto_scope (b b' : binding) : Prop :=
  b_id b = b_id b' /\ b_kind b = b_kind b' /\ b_name b = b_name b' /\ b_allow b = b_allow b' /\ b_reserved b = b_reserved b' /\
  b_module b = b_module b' /\ b_mentions b = b_mentions b' /\ seteq (b_scope b) (b_scope b').

Lemma names_in_equiv a a' sc sc' : aeq a a' -> seteq sc sc' -> forall n, In n (names_in a sc) <-> In n (names_in a' sc').
Proof.
  intros Ha Hs n. split; intro H; apply names_in_inv in H as (s & H1 & H2); eapply in_names_in.
  - apply Ha. exact H1.
  - apply Hs. exact H2.
  - apply Ha. exact H1.
  - apply Hs. exact H2.
Qed.
Lemma mem_text_equiv n l l' : (forall x, In x l <-> In x l') -> mem_text n l = mem_text n l'.
Proof.
  intro H. destruct (mem_text n l) eqn:E1, (mem_text n l') eqn:E2; try reflexivity.
  - apply mem_text_In in E1. apply H in E1. apply mem_text_In in E1. congruence.
  - apply mem_text_In in E2. apply H in E2. apply mem_text_In in E2. congruence.
Qed.
Lemma reserve_equiv n sc sc' a a' : aeq a a' -> seteq sc sc' -> aeq (reserve n sc a) (reserve n sc' a').
Proof.
  intros Ha Hs p. unfold reserve. rewrite !in_app_iff, !in_map_iff. split; intros [(s & <- & H)|H].
  - left. exists s. split; [reflexivity|now apply Hs].
  - right. now apply Ha.
  - left. exists s. split; [reflexivity|now apply Hs].
  - right. now apply Ha.
Qed.

Section OrderIndependence.
  Variable pick : bool -> list text -> text.
  Variable should : binding -> text -> bool.
  Variable prefix_globals : bool.
  (* the first generated name outside a SET of names depends on the set only; the cost model looks at the binding's identity *)
  Hypothesis pick_ext : forall p l l', (forall x, In x l <-> In x l') -> pick p l = pick p l'.
  Hypothesis should_ext : forall b b' c, b_id b = b_id b' -> should b c = should b' c.

  Lemma decide_equiv b b' a a' : same_upto_scope b b' -> aeq a a' ->
    decide pick should prefix_globals b a = decide pick should prefix_globals b' a'.
  Proof.
    intros (Hid & Hk & Hn & Hal & Hr & Hm & _ & Hs) Ha. unfold decide, is_name_binding.
    rewrite <- Hk, <- Hn, <- Hal, <- Hr, <- Hm.
    rewrite (pick_ext _ _ (names_in a' (b_scope b')) (names_in_equiv a a' _ _ Ha Hs)).
    rewrite (should_ext b b' _ Hid).
    destruct (b_allow b); [|reflexivity]. destruct (should b' _); [reflexivity|].
    destruct (b_kind b); try reflexivity; destruct (b_name b) as [orig|]; try reflexivity;
      destruct (opt_text_eqb _ _); try reflexivity; unfold available;
      rewrite (mem_text_equiv orig _ _ (names_in_equiv a a' _ _ Ha Hs)); reflexivity.
  Qed.
  Lemma run_equiv : forall bs bs' a a', Forall2 same_upto_scope bs bs' -> aeq a a' ->
    run pick should prefix_globals bs a = run pick should prefix_globals bs' a'.
  Proof.
    intros bs bs' a a' H. revert a a'. induction H as [|b b' bs bs' Hb _ IH]; intros a a' Ha; [reflexivity|]. cbn [run].
    rewrite (decide_equiv b b' a a' Hb Ha). destruct Hb as (Hid & Hrest). rewrite Hid. f_equal.
    apply IH. destruct (decide pick should prefix_globals b' a'); [|exact Ha].
    apply reserve_equiv; [exact Ha|]. apply Hrest.
  Qed.
  Lemma insert_desc_rel x x' l l' : same_upto_scope x x' -> Forall2 same_upto_scope l l' ->
    Forall2 same_upto_scope (insert_desc x l) (insert_desc x' l').
  Proof.
    intros Hx H. induction H as [|y y' l l' Hy Hl IH]; cbn [insert_desc]; [constructor; [exact Hx|constructor]|].
    assert (b_mentions x = b_mentions x') as <- by apply Hx. assert (b_mentions y = b_mentions y') as <- by apply Hy.
    destruct (N.leb _ _); [constructor; [exact Hx|constructor; assumption] | constructor; assumption].
  Qed.
  Lemma sort_desc_rel l l' : Forall2 same_upto_scope l l' -> Forall2 same_upto_scope (sort_desc l) (sort_desc l').
  Proof. induction 1; cbn [sort_desc fold_right]; [constructor|]. apply insert_desc_rel; assumption. Qed.
  Lemma init_equiv bs bs' rg : Forall2 same_upto_scope bs bs' -> aeq (init bs rg) (init bs' rg).
  Proof.
    intros H.
    assert (Hf : aeq (fold_right (fun b a => match b_reserved b with Some r => reserve r (b_scope b) a | None => a end) [] bs)
                     (fold_right (fun b a => match b_reserved b with Some r => reserve r (b_scope b) a | None => a end) [] bs')).
    { induction H as [|b b' bs bs' Hb _ IH]; [intro p; reflexivity|]. cbn [fold_right].
      assert (b_reserved b = b_reserved b') as <- by apply Hb.
      destruct (b_reserved b); [|exact IH]. apply reserve_equiv; [exact IH|apply Hb]. }
    intro p. unfold init. rewrite !in_app_iff. apply or_iff_compat_l. apply Hf.
  Qed.
  Theorem assign_order_independent bs bs' rg : Forall2 same_upto_scope bs bs' ->
    assign pick should prefix_globals bs rg = assign pick should prefix_globals bs' rg.
  Proof. intro H. unfold assign. apply run_equiv; [now apply sort_desc_rel|now apply init_equiv]. Qed.
End OrderIndependence.
