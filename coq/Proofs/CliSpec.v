(* Hand-written SPECIFICATION of the command line tool, from the documentation (help strings in the argparse table,
   docs/source/transforms/*.rst, docs/source/command_usage.rst).  Short enough to read in minutes.
   The generated model (Gen/Cli.v) is proved to refine it in Proofs/CliProofs.v. *)
From Coq Require Import String.
From PM Require Import Model.CliBase Gen.Cli.
Open Scope bool_scope.

(* --- what the flags are documented to mean --- *)
Definition documented_names (given : option (list text)) : list text :=
  flat_map (fun arg => map strip (filter (fun n => match n with [] => false | _ => true end) (split_on 44 arg)))
           (match given with Some l => l | None => [] end).

Definition documented (F : flag -> bool) (pl pg : option (list text)) : options := {|
  o_remove_annotations :=
    if F F_no_remove_annotations
    then {| ro_remove_variable_annotations := false; ro_remove_return_annotations := false;
            ro_remove_argument_annotations := false; ro_remove_class_attribute_annotations := false |}
    else {| ro_remove_variable_annotations := negb (F F_no_remove_variable_annotations);
            ro_remove_return_annotations := negb (F F_no_remove_return_annotations);
            ro_remove_argument_annotations := negb (F F_no_remove_argument_annotations);
            ro_remove_class_attribute_annotations := F F_remove_class_attribute_annotations |};
  o_remove_pass := negb (F F_no_remove_pass);
  o_remove_literal_statements := F F_remove_literal_statements;
  o_combine_imports := negb (F F_no_combine_imports);
  o_hoist_literals := negb (F F_no_hoist_literals);
  o_rename_locals := negb (F F_no_rename_locals);
  o_preserve_locals := documented_names pl;
  o_rename_globals := F F_rename_globals;
  o_preserve_globals := documented_names pg;
  o_remove_object_base := negb (F F_no_remove_object_base);
  o_convert_posargs_to_args := negb (F F_no_convert_posargs_to_args);
  o_preserve_shebang := negb (F F_no_preserve_shebang);
  o_remove_asserts := F F_remove_asserts;
  o_remove_debug := F F_remove_debug;
  o_remove_explicit_return_none := negb (F F_no_remove_explicit_return_none);
  o_remove_builtin_exception_brackets := negb (F F_no_remove_builtin_exception_brackets);
  o_constant_folding := negb (F F_no_constant_folding)
|}.

(* boolean observations of an option record, one per documented switch *)
Inductive field :=
| Fd_ann_var | Fd_ann_ret | Fd_ann_arg | Fd_ann_cls
| Fd_remove_pass | Fd_remove_literal_statements | Fd_combine_imports | Fd_hoist_literals | Fd_rename_locals
| Fd_rename_globals | Fd_remove_object_base | Fd_convert_posargs_to_args | Fd_preserve_shebang | Fd_remove_asserts
| Fd_remove_debug | Fd_remove_explicit_return_none | Fd_remove_builtin_exception_brackets | Fd_constant_folding.
Definition get (f : field) (o : options) : bool :=
  match f with
  | Fd_ann_var => ro_remove_variable_annotations (o_remove_annotations o)
  | Fd_ann_ret => ro_remove_return_annotations (o_remove_annotations o)
  | Fd_ann_arg => ro_remove_argument_annotations (o_remove_annotations o)
  | Fd_ann_cls => ro_remove_class_attribute_annotations (o_remove_annotations o)
  | Fd_remove_pass => o_remove_pass o
  | Fd_remove_literal_statements => o_remove_literal_statements o
  | Fd_combine_imports => o_combine_imports o
  | Fd_hoist_literals => o_hoist_literals o
  | Fd_rename_locals => o_rename_locals o
  | Fd_rename_globals => o_rename_globals o
  | Fd_remove_object_base => o_remove_object_base o
  | Fd_convert_posargs_to_args => o_convert_posargs_to_args o
  | Fd_preserve_shebang => o_preserve_shebang o
  | Fd_remove_asserts => o_remove_asserts o
  | Fd_remove_debug => o_remove_debug o
  | Fd_remove_explicit_return_none => o_remove_explicit_return_none o
  | Fd_remove_builtin_exception_brackets => o_remove_builtin_exception_brackets o
  | Fd_constant_folding => o_constant_folding o
  end.
(* the option(s) each flag is documented to control; --in-place is not a minification option *)
Definition owned (f : flag) : list field :=
  match f with
  | F_in_place => []
  | F_no_combine_imports => [Fd_combine_imports]
  | F_no_remove_pass => [Fd_remove_pass]
  | F_remove_literal_statements => [Fd_remove_literal_statements]
  | F_no_hoist_literals => [Fd_hoist_literals]
  | F_no_rename_locals => [Fd_rename_locals]
  | F_rename_globals => [Fd_rename_globals]
  | F_no_remove_object_base => [Fd_remove_object_base]
  | F_no_convert_posargs_to_args => [Fd_convert_posargs_to_args]
  | F_no_preserve_shebang => [Fd_preserve_shebang]
  | F_remove_asserts => [Fd_remove_asserts]
  | F_remove_debug => [Fd_remove_debug]
  | F_no_remove_explicit_return_none => [Fd_remove_explicit_return_none]
  | F_no_remove_builtin_exception_brackets => [Fd_remove_builtin_exception_brackets]
  | F_no_constant_folding => [Fd_constant_folding]
  | F_no_remove_annotations => [Fd_ann_var; Fd_ann_ret; Fd_ann_arg; Fd_ann_cls]
  | F_no_remove_variable_annotations => [Fd_ann_var]
  | F_no_remove_return_annotations => [Fd_ann_ret]
  | F_no_remove_argument_annotations => [Fd_ann_arg]
  | F_remove_class_attribute_annotations => [Fd_ann_cls]
  end.
Definition flag_eqb (f g : flag) : bool :=
  match f, g with
  | F_in_place, F_in_place | F_no_combine_imports, F_no_combine_imports | F_no_remove_pass, F_no_remove_pass
  | F_remove_literal_statements, F_remove_literal_statements | F_no_hoist_literals, F_no_hoist_literals
  | F_no_rename_locals, F_no_rename_locals | F_rename_globals, F_rename_globals
  | F_no_remove_object_base, F_no_remove_object_base | F_no_convert_posargs_to_args, F_no_convert_posargs_to_args
  | F_no_preserve_shebang, F_no_preserve_shebang | F_remove_asserts, F_remove_asserts | F_remove_debug, F_remove_debug
  | F_no_remove_explicit_return_none, F_no_remove_explicit_return_none
  | F_no_remove_builtin_exception_brackets, F_no_remove_builtin_exception_brackets
  | F_no_constant_folding, F_no_constant_folding | F_no_remove_annotations, F_no_remove_annotations
  | F_no_remove_variable_annotations, F_no_remove_variable_annotations
  | F_no_remove_return_annotations, F_no_remove_return_annotations
  | F_no_remove_argument_annotations, F_no_remove_argument_annotations
  | F_remove_class_attribute_annotations, F_remove_class_attribute_annotations => true
  | _, _ => false
  end.
Definition toggle (f : flag) (F : flag -> bool) : flag -> bool :=
  fun g => if flag_eqb f g then negb (F g) else F g.

(* --- the size rule --- *)
Definition size_rule (env_force : option text) (source : bytes) (r : api_result) : dm_result :=
  match r with
  | ApiRaise e => DmRaise (ApiError e)
  | ApiOk m =>
      if truthy env_force then DmOk (utf8 m)
      else if Nat.ltb (length source) (length (utf8 m)) then DmNotBeneficial else DmOk (utf8 m)
  end.

(* --- documented invalid combinations (each must exit non-zero before anything is read or written) --- *)
Definition uses_stdin (a : args) : bool := mem_text (t "-") (a_path a).
Definition invalid (fs : fsys) (a : args) : bool :=
     (uses_stdin a && negb (Nat.eqb (length (a_path a)) 1))            (* stdin together with other paths *)
  || (uses_stdin a && a_in_place a)                                     (* stdin with --in-place *)
  || (Nat.ltb 1 (length (a_path a)) && negb (a_in_place a))             (* several paths without --in-place *)
  || (match a_path a with [p] => fs_isdir fs p && negb (a_in_place a) | _ => false end)  (* a directory without --in-place *)
  || (a_remove_class_attribute_annotations a && negb (a_remove_annotations a)). (* class-attribute flag with annotations off *)

(* --- the per-file behaviour of the tool on path arguments --- *)
Definition announce (a : args) (p : text) : list eff :=
  if truthy (a_output a) || a_in_place a then [EOutT (p ++ [10%N])] else [].
(* where the bytes of one module go *)
Definition deliver (a : args) (p : text) (b : bytes) : list eff :=
  if a_in_place a then [EWrite p b]
  else if truthy (a_output a) then [EWrite (opt_get (a_output a)) b] else [EOutB b].
(* one file: announce, read, minify, deliver (or, when not beneficial: leave in place / pass the source through) *)
Definition file_step (api : api_t) (fs : fsys) (env_force : option text) (a : args) (p : text) : list eff * status :=
  match fs_read fs p with
  | None => (announce a p, Raised OSError)
  | Some src =>
      match do_minify api env_force src p a with
      | DmRaise e => (announce a p ++ [ERead p], Raised e)
      | DmNotBeneficial => (announce a p ++ [ERead p] ++ (if a_in_place a then [] else deliver a p src), Done)
      | DmOk m => (announce a p ++ [ERead p] ++ deliver a p m, Done)
      end
  end.
Fixpoint run_items (api : api_t) (fs : fsys) (env_force : option text) (a : args) (items : list walk_item) : trace :=
  match items with
  | [] => ([], Done)
  | WErr :: _ => ([], Raised OSError)
  | WPath p :: rest =>
      match file_step api fs env_force a p with
      | (es, Done) => let r := run_items api fs env_force a rest in (es ++ fst r, snd r)
      | (es, st) => (es, st)
      end
  end.
Definition stdin_spec (api : api_t) (env_force : option text) (stdin : bytes) (a : args) : trace :=
  let dest b := if truthy (a_output a) then [EWrite (opt_get (a_output a)) b] else [EOutB b] in
  match do_minify api env_force stdin (t "stdin") a with
  | DmRaise e => ([], Raised e)
  | DmNotBeneficial => (dest stdin, Done)
  | DmOk m => (dest m, Done)
  end.
Definition main_spec (api : api_t) (fs : fsys) (env_force : option text) (stdin : bytes) (a : args) : trace :=
  match a_path a with
  | [p] => if text_eqb p (t "-") then stdin_spec api env_force stdin a
           else run_items api fs env_force a (source_modules fs a)
  | _ => run_items api fs env_force a (source_modules fs a)
  end.

(* effects that modify something outside the process *)
Definition is_write (e : eff) : bool := match e with EWrite _ _ => true | _ => false end.
Definition emitted_bytes (e : eff) : option bytes :=
  match e with EWrite _ b => Some b | EOutB b => Some b | _ => None end.
