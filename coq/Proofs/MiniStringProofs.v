From PM Require Import Model.Base Model.MiniString.
Open Scope bool_scope.
Open Scope N_scope.
Ltac Zify.zify_post_hook ::= Z.to_euclidean_division_equations.

Definition is_quote (q : N) : Prop := q = 39 \/ q = 34.

(* characters that the scanner passes over one at a time *)
Definition inert (q c : N) : bool := negb (c =? q) && negb (c =? 10) && negb (c =? 92).

Lemma scan_short_inert q cs rest : forallb (inert q) cs = true -> scan_short q (cs ++ rest) = scan_short q rest.
Proof.
  induction cs as [|c cs IH]; [reflexivity|]. cbn [forallb app scan_short]. intro H.
  apply andb_true_iff in H as [Hc H]. unfold inert in Hc.
  apply andb_true_iff in Hc as [Hc H3]. apply andb_true_iff in Hc as [H1 H2].
  apply negb_true_iff in H1, H2, H3. rewrite H1, H2, H3. auto.
Qed.
Lemma scan_short_escape q x cs rest :
  q <> 92 -> forallb (inert q) cs = true -> scan_short q (92 :: x :: cs ++ rest) = scan_short q rest.
Proof.
  intros Hq H. cbn [scan_short]. destruct (N.eqb_spec 92 q); [congruence|]. cbn.
  apply scan_short_inert. exact H.
Qed.

Lemma hex_digit_inert q n : is_quote q -> n < 16 -> inert q (hex_digit n) = true.
Proof.
  intros [->| ->] Hn; unfold inert, hex_digit; destruct (N.ltb_spec n 10);
    repeat match goal with |- context [N.eqb ?a ?b] => destruct (N.eqb_spec a b); [exfalso; lia|] end; reflexivity.
Qed.
Lemma hex_fixed_inert q w v : is_quote q -> forallb (inert q) (hex_fixed w v) = true.
Proof.
  intro Hq. revert v; induction w as [|w IH]; intro v; [reflexivity|]. cbn [hex_fixed].
  rewrite forallb_app, IH. cbn [forallb]. rewrite hex_digit_inert; [reflexivity|exact Hq|]. apply N.mod_lt. lia.
Qed.

(* every per-character piece is skipped by the scanner as a whole, whatever follows *)
Lemma short_char_skipped safe q c rest : is_quote q -> scan_short q (short_char safe q c ++ rest) = scan_short q rest.
Proof.
  intros Hq. assert (Hq92 : q <> 92) by (destruct Hq; subst; discriminate).
  unfold short_char. destruct (c =? 10) eqn:E10; [apply (scan_short_escape q 110 [] rest Hq92); reflexivity|].
  unfold esc_common.
  destruct (c =? 92) eqn:E92; [apply (scan_short_escape q _ [] rest Hq92); reflexivity|].
  destruct (c =? 7) eqn:E7; [apply (scan_short_escape q _ [] rest Hq92); reflexivity|].
  destruct (c =? 8) eqn:E8; [apply (scan_short_escape q _ [] rest Hq92); reflexivity|].
  destruct (c =? 12) eqn:E12; [apply (scan_short_escape q _ [] rest Hq92); reflexivity|].
  destruct (c =? 13) eqn:E13; [apply (scan_short_escape q _ [] rest Hq92); reflexivity|].
  destruct (c =? 9) eqn:E9; [apply (scan_short_escape q _ [] rest Hq92); reflexivity|].
  destruct (c =? 11) eqn:E11; [apply (scan_short_escape q _ [] rest Hq92); reflexivity|].
  destruct (c =? 0) eqn:E0; [apply (scan_short_escape q 120 [48; 48] rest Hq92); destruct Hq; subst; reflexivity|].
  destruct (c =? q) eqn:Eq; [apply (scan_short_escape q q [] rest Hq92); reflexivity|].
  unfold plain_char.
  assert (Hin : inert q c = true) by (unfold inert; rewrite Eq, E10, E92; reflexivity).
  destruct safe; cbn [negb].
  - destruct (c <=? 127); [apply (scan_short_inert q [c] rest); cbn; now rewrite Hin|].
    destruct (c <=? 65535).
    + apply (scan_short_escape q 117 (hex_fixed 4 c) rest Hq92). apply hex_fixed_inert; exact Hq.
    + apply (scan_short_escape q 85 (hex_fixed 8 c) rest Hq92). apply hex_fixed_inert; exact Hq.
  - apply (scan_short_inert q [c] rest); cbn; now rewrite Hin.
Qed.

Lemma ministring_closed_short safe q s :
  is_quote q -> scan_short q (to_short safe q s ++ [q]) = Some [].
Proof.
  intro Hq. unfold to_short. induction s as [|c s IH]; cbn [flat_map app].
  - cbn [scan_short]. now rewrite N.eqb_refl.
  - rewrite <- app_assoc. rewrite short_char_skipped by exact Hq. exact IH.
Qed.

(* long strings: a character is inert when it is neither the quote character nor a backslash *)
Definition inertL (q c : N) : bool := negb (c =? q) && negb (c =? 92).
Lemma scan_long_inert q cs rest : forallb (inertL q) cs = true -> scan_long q (cs ++ rest) = scan_long q rest.
Proof.
  induction cs as [|c cs IH]; [reflexivity|]. cbn [forallb app scan_long]. intro H.
  apply andb_true_iff in H as [Hc H]. unfold inertL in Hc. apply andb_true_iff in Hc as [H1 H2].
  apply negb_true_iff in H1, H2. rewrite H1, H2. cbn [andb]. auto.
Qed.
Lemma scan_long_escape q x cs rest :
  forallb (inertL q) cs = true -> scan_long q (92 :: x :: cs ++ rest) = scan_long q rest.
Proof. intro H. cbn [scan_long]. cbn. apply scan_long_inert. exact H. Qed.
Lemma inert_inertL q c : inert q c = true -> inertL q c = true.
Proof. unfold inert, inertL. intro H. apply andb_true_iff in H as [H H3]. apply andb_true_iff in H as [H1 _]. now rewrite H1, H3. Qed.
Lemma forallb_impl {A} (p r : A -> bool) l : (forall x, p x = true -> r x = true) -> forallb p l = true -> forallb r l = true.
Proof. intro H. induction l as [|x l IH]; [reflexivity|]. cbn. intro E. apply andb_true_iff in E as [E1 E2]. now rewrite (H x E1), IH. Qed.

Lemma long_char_skipped safe q c rest : is_quote q -> scan_long q (long_char safe q c ++ rest) = scan_long q rest.
Proof.
  intros Hq. unfold long_char, esc_common.
  destruct (c =? 92) eqn:E92; [apply (scan_long_escape q _ [] rest); reflexivity|].
  destruct (c =? 7) eqn:E7; [apply (scan_long_escape q _ [] rest); reflexivity|].
  destruct (c =? 8) eqn:E8; [apply (scan_long_escape q _ [] rest); reflexivity|].
  destruct (c =? 12) eqn:E12; [apply (scan_long_escape q _ [] rest); reflexivity|].
  destruct (c =? 13) eqn:E13; [apply (scan_long_escape q _ [] rest); reflexivity|].
  destruct (c =? 9) eqn:E9; [apply (scan_long_escape q _ [] rest); reflexivity|].
  destruct (c =? 11) eqn:E11; [apply (scan_long_escape q _ [] rest); reflexivity|].
  destruct (c =? 0) eqn:E0; [apply (scan_long_escape q 120 [48; 48] rest); destruct Hq; subst; reflexivity|].
  destruct (c =? q) eqn:Eq; [apply (scan_long_escape q q [] rest); reflexivity|].
  unfold plain_char.
  assert (Hin : inertL q c = true) by (unfold inertL; rewrite Eq, E92; reflexivity).
  destruct safe; cbn [negb].
  - destruct (c <=? 127); [apply (scan_long_inert q [c] rest); cbn; now rewrite Hin|].
    destruct (c <=? 65535).
    + apply (scan_long_escape q 117 (hex_fixed 4 c) rest). eapply forallb_impl; [apply inert_inertL|]. apply hex_fixed_inert; exact Hq.
    + apply (scan_long_escape q 85 (hex_fixed 8 c) rest). eapply forallb_impl; [apply inert_inertL|]. apply hex_fixed_inert; exact Hq.
  - apply (scan_long_inert q [c] rest); cbn; now rewrite Hin.
Qed.

Lemma ministring_closed_long safe q s :
  is_quote q -> scan_long q (to_long safe q s ++ [q; q; q]) = Some [].
Proof.
  intro Hq. unfold to_long. induction s as [|c s IH]; cbn [flat_map app].
  - cbn [scan_long starts2 skipn]. assert (q =? 92 = false) by (destruct Hq; subst; reflexivity).
    rewrite H, !N.eqb_refl. reflexivity.
  - rewrite <- app_assoc. rewrite long_char_skipped by exact Hq. exact IH.
Qed.
