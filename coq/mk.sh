#!/bin/bash
# (re)generate the Makefile from the files present and build the given targets (default: all) with full .vo compilation
cd "$(dirname "$0")"
{ echo "-R . PM"; echo "-arg -w -arg -notation-overridden,-deprecated-hint-without-locality,-deprecated-instance-without-locality,-deprecated-syntactic-definition"; ls Model/*.v Gen/*.v Proofs/*.v Properties/*.v 2>/dev/null; } > _CoqProject
coq_makefile -f _CoqProject -o Makefile.gen >/dev/null 2>&1 || exit 2
exec make -f Makefile.gen -j"${JOBS:-16}" "$@"
