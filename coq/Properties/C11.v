(* C11 — output depends only on source, options and interpreter version. *)
From Coq Require Import String.
From PM Require Import Model.Base Model.Renamer Proofs.RenamerProofs Model.PipelineBase Gen.Pipeline Gen.StateSites.
Open Scope bool_scope.

(* hash-seed independence of the name assignment: the reservation scopes are Python sets; enumerating them in any
   other order gives the same names (for any name source that depends on the SET of taken names only) *)
Theorem C11_order_independent : forall pick should prefix_globals,
  (forall p l l', (forall x, In x l <-> In x l') -> pick p l = pick p l') ->
  (forall b b' c, b_id b = b_id b' -> should b c = should b' c) ->
  forall bs bs' rg, Forall2 same_upto_scope bs bs' ->
    assign pick should prefix_globals bs rg = assign pick should prefix_globals bs' rg.
Proof. exact assign_order_independent. Qed.
Print Assumptions C11_order_independent.

(* a call leaves the caller's preserve lists unchanged: every list argument is copied before anything is appended to it.
   Abstract machine for the argument handling of minify(): a caller-owned list object is shared (and mutated by every
   later extend) unless the normalisation step copies it. *)
#[local] Open Scope string_scope.
Inductive argval := ANone | AStr | ACallerList.      (* what the caller passed *)
Fixpoint caller_list_mutated (var : string) (arg : argval) (shared : bool) (body : list pstmt) : bool :=
  match body with
  | [] => false
  | PNormalise v copies :: rest =>
      if String.eqb v var then caller_list_mutated var arg (match arg with ACallerList => negb copies | _ => false end) rest
      else caller_list_mutated var arg shared rest
  | PExtendArg v _ :: rest => (String.eqb v var && shared) || caller_list_mutated var arg shared rest
  | PStage _ callee args :: rest =>
      (* allow_rename_globals extends the list it is given with the __all__ names *)
      (String.eqb callee "allow_rename_globals" && existsb (String.eqb var) args && shared) || caller_list_mutated var arg shared rest
  | _ :: rest => caller_list_mutated var arg shared rest
  end.
Theorem C11_args_unchanged : forall arg,
  caller_list_mutated "preserve_locals" arg (match arg with ACallerList => true | _ => false end) minify_body = false /\
  caller_list_mutated "preserve_globals" arg (match arg with ACallerList => true | _ => false end) minify_body = false.
Proof. intros []; vm_compute; split; reflexivity. Qed.
Print Assumptions C11_args_unchanged.

(* nothing in the package keeps state from one call to the next.  Gen/StateSites.v is regenerated on every run from every
   .py of the package (translator/statesites.py): `global` statements, memoising decorators, module-level or class-level
   containers / instances that some function mutates, mutable defaults that are mutated, stores into option objects (they
   belong to the caller), iteration directly over a set (hash-seed dependent order), calls of random / time / uuid / id / hash, changes of
   interpreter-wide state.
   The list must be exactly the reviewed one:
     compare_ast loops over set(l_ast._fields + r_ast._fields): every field is compared whatever the order and the loop
     produces nothing but "raise or not" (which mismatch is reported first is the only thing the order decides; minify()
     turns any of them into the same UnstableMinification), so the output bytes do not depend on it;
     random_generator draws random names, but nothing refers to it: a reference anywhere in the package would appear here as
     a `nondeterministic-use` entry (the name stream the renamer really uses is Gen/NameGen.v, compared by leg R). *)
Definition reviewed_state_sites : list (string * string * string * string) :=
  [("ast_compare.py", "compare_ast", "set-order", "set(l_ast._fields + r_ast._fields)");
   ("rename/name_generator.py", "random_generator", "nondeterministic", "random.choice")].
Theorem C11_no_state_outlives_a_call : state_sites = reviewed_state_sites.
Proof. reflexivity. Qed.
Print Assumptions C11_no_state_outlives_a_call.
