(* C05 — each option performs only its documented rewrite, only where it is valid.
   Statement skeletons (Model/Struct.v) mirror the suite transformers; the stage list and gates of minify() are re-read
   from the source on every run (Gen/Pipeline.v). *)
From Coq Require Import String.
From PM Require Import Model.Base Model.PipelineBase Gen.Pipeline Model.Struct Proofs.StructProofs Model.ControlFlow Proofs.ControlFlowProofs.
Open Scope bool_scope.

(* --- the four "filter the suite" transformers: the output equals the input once the documented rewrite is erased from
       both (cl er = erase every statement er accepts, at every depth, in every suite incl. except/match bodies) --- *)
Theorem C05_remove_pass : forall p, cl er_pass (module_suite drop_pass p) = cl er_pass p.
Proof. exact remove_pass_canon. Qed.
Print Assumptions C05_remove_pass.
Theorem C05_remove_literal_statements : forall p, cl drop_literal (module_suite drop_literal p) = cl drop_literal p.
Proof. exact remove_literals_canon. Qed.
Print Assumptions C05_remove_literal_statements.
Theorem C05_docstring_kept_when_doc_is_used : forall p, lit_transform true p = p.
Proof. reflexivity. Qed.
Print Assumptions C05_docstring_kept_when_doc_is_used.
Theorem C05_remove_asserts : forall p, cl er_assert (module_suite drop_assert p) = cl er_assert p.
Proof. exact remove_asserts_canon. Qed.
Print Assumptions C05_remove_asserts.
Theorem C05_remove_debug : forall p, cl er_debug (module_suite drop_debug p) = cl er_debug p.
Proof. exact remove_debug_canon. Qed.
Print Assumptions C05_remove_debug.
(* asserts and debug together leave exactly what `python -O` runs: an `if __debug__:` with an else branch is kept *)
Theorem C05_equals_python_O : forall p,
  cl er_optimise (module_suite drop_debug (module_suite drop_assert p)) = cl er_optimise p.
Proof. exact optimise_canon. Qed.
Print Assumptions C05_equals_python_O.
Theorem C05_debug_only_documented_forms : forall s, drop_debug s = documented_debug_if s.
Proof. exact drop_debug_documented. Qed.
Print Assumptions C05_debug_only_documented_forms.

(* generic statement for ANY suite-filtering transformer (drop) and ANY erasure predicate er containing it *)
Theorem C05_suite_filter_generic : forall drop er,
  (forall s, drop s = true -> er s = true) -> er zero_stmt = true -> (forall s, er (visit drop s) = er s) ->
  forall s, canon er (visit drop s) = canon er s.
Proof. exact visit_canon. Qed.
Print Assumptions C05_suite_filter_generic.

Theorem C05_suites_nonempty : forall drop l, suite drop l <> [].
Proof. exact suite_nonempty. Qed.
Print Assumptions C05_suites_nonempty.
Theorem C05_nothing_to_do_is_identity : forall drop s, no_target drop s -> visit drop s = s.
Proof. exact visit_identity. Qed.
Print Assumptions C05_nothing_to_do_is_identity.

(* imports are merged without reordering, never across a star import, another module or another statement:
   the sequence of (kind, module, level, name) atoms and other statements of every suite is unchanged *)
Theorem C05_combine_imports_order : forall l, atoms (combine_from None [] (combine_import [] l)) = atoms l.
Proof. exact combine_suite_atoms. Qed.
Print Assumptions C05_combine_imports_order.

Theorem C05_remove_object_only_object : forall k id bases, k = BClass id bases ->
  exists bases', strip_object k = BClass id bases' /\ (forall b, In b bases' <-> In b bases /\ fst b = false).
Proof. exact strip_object_only_object. Qed.
Print Assumptions C05_remove_object_only_object.

Theorem C05_return_none_partial : forall k,
  ret_visit (Simple k) = match k with KReturn RNoneConst => Simple (KReturn RBare) | _ => Simple k end.
Proof. exact ret_visit_simple. Qed.
Print Assumptions C05_return_none_partial.

(* RemoveExplicitReturnNone, semantically (Model/ControlFlow.v: atoms are events, branching is decided by an oracle, no
   exceptions): calling a function whose body was rewritten (`return None` -> `return` at every depth, the bare `return`
   at the very end dropped, `0` left in an otherwise empty body) produces the same events in the same order, returns the
   same value and takes the same branches as calling the original - for every body and every oracle; fuel is only the
   recursion bound of the interpreter *)
Theorem C05_return_none_preserves_calls : forall body f o r,
  (call f o body = Some r -> call (S f) o (ret_body body) = Some r) /\
  (call f o (ret_body body) = Some r -> call (S (S f)) o body = Some r).
Proof. intros. split; [apply ret_body_call_fwd | apply ret_body_call_bwd]. Qed.
Print Assumptions C05_return_none_preserves_calls.

(* --- each transformer is called under exactly its own switch (statement list of minify(), regenerated) --- *)
#[local] Open Scope string_scope.
Definition documented_switch : list (string * string) := [
  ("RemoveLiteralStatements", "remove_literal_statements"); ("CombineImports", "combine_imports");
  ("RemovePass", "remove_pass"); ("RemoveObject", "remove_object_base"); ("RemoveAsserts", "remove_asserts");
  ("RemoveDebug", "remove_debug"); ("RemoveExplicitReturnNone", "remove_explicit_return_none");
  ("FoldConstants", "constant_folding"); ("remove_no_arg_exception_call", "remove_builtin_exception_brackets");
  ("rename_literals", "hoist_literals"); ("remove_posargs", "convert_posargs_to_args")
].
Theorem C05_switch_off_means_not_called :
  Forall (fun cs => forall O tainted ann, O (snd cs) = false -> stage_runs minify_body O tainted ann (fst cs) = false) documented_switch.
Proof. unfold documented_switch. repeat (apply Forall_cons; [intros O tainted ann H; cbn in *; rewrite H; reflexivity|]). apply Forall_nil. Qed.
Print Assumptions C05_switch_off_means_not_called.
Theorem C05_switch_on_means_called :
  Forall (fun cs => forall O ann, O (snd cs) = true -> stage_runs minify_body O false ann (fst cs) = true) documented_switch.
Proof. unfold documented_switch. repeat (apply Forall_cons; [intros O ann H; cbn in *; rewrite H; reflexivity|]). apply Forall_nil. Qed.
Print Assumptions C05_switch_on_means_called.
Theorem C05_annotations_gate :
  forall O tainted ann, stage_runs minify_body O tainted ann "RemoveAnnotations" = ann.
Proof. intros. cbn. now rewrite orb_false_r. Qed.
Print Assumptions C05_annotations_gate.
Theorem C05_stage_order :
  stage_order minify_body =
  ["add_parent"; "add_namespace"; "RemoveLiteralStatements"; "CombineImports"; "RemoveAnnotations"; "RemovePass"; "RemoveObject";
   "RemoveAsserts"; "RemoveDebug"; "RemoveExplicitReturnNone"; "FoldConstants"; "bind_names"; "resolve_names";
   "remove_no_arg_exception_call"; "allow_rename_locals"; "allow_rename_globals"; "rename_literals"; "rename"; "remove_posargs"].
Proof. reflexivity. Qed.
Print Assumptions C05_stage_order.

(* non-vacuity *)
#[local] Close Scope string_scope.
Example C05_example :
  let f := Block (BFunc 1) [[Simple KPass; Block (BIf TDebugName) [[Simple (KOther 5)]] [[]] []]] [] [] in
  module_suite drop_pass [f] = [Block (BFunc 1) [[Block (BIf TDebugName) [[Simple (KOther 5)]] [[]] []]] [] []] /\
  module_suite drop_debug (module_suite drop_pass [f]) = [Block (BFunc 1) [[zero_stmt]] [] []].
Proof. vm_compute. split; reflexivity. Qed.
