(* C16 — shebang, source encoding and line endings.  The two regular expressions of _find_shebang and the position of
   the shebang epilogue in minify() are re-read from /repo on every run (Gen/Pipeline.v). *)
From Coq Require Import String.
From PM Require Import Model.CliBase Model.PipelineBase Gen.Pipeline Gen.Cli Model.Shebang Proofs.ShebangProofs Proofs.CliSpec Proofs.CliProofs.
Open Scope bool_scope.

(* for every text: matching the bytes pattern on the UTF-8 encoding gives the UTF-8 encoding of the text match *)
Theorem C16_bytes_text_agree : forall s,
  find_shebang_bytes (utf8 s) = option_map utf8 (find_shebang_text s).
Proof. exact c16_bytes_text_agree. Qed.
Print Assumptions C16_bytes_text_agree.

(* for every text: the line that is re-attached is exactly the first physical line (ends at the first \n or \r) *)
Theorem C16_first_line : forall s,
  starts_shebang s = true -> find_shebang_text s = Some (first_line s).
Proof. exact c16_first_line. Qed.
Print Assumptions C16_first_line.

Theorem C16_output : forall s preserve minified,
  attach_shebang preserve (find_shebang_text s) minified =
  if preserve && starts_shebang s then first_line s ++ [10%N] ++ minified else minified.
Proof. exact c16_output. Qed.
Print Assumptions C16_output.

Theorem C16_epilogue_position :
  exists pre, minify_body = pre ++ [PUnparse; PShebang (GIsTrue "preserve_shebang"); PReturn] /\
    forall st, In st pre -> match st with PShebang _ | PUnparse | PReturn => False | _ => True end.
Proof. exact c16_epilogue_position. Qed.
Print Assumptions C16_epilogue_position.

(* the only encoding the command line tool applies to the result is UTF-8 *)
Theorem C16_utf8_output : forall env src r b,
  size_rule env src r = DmOk b -> exists m, r = ApiOk m /\ b = utf8 m.
Proof. exact size_rule_ok. Qed.
Print Assumptions C16_utf8_output.

Example C16_cr_only : find_shebang_text (t "#!/bin/sh" ++ [13%N] ++ t "print(1)") = Some (t "#!/bin/sh").
Proof. vm_compute. reflexivity. Qed.
Example C16_crlf_multibyte :
  find_shebang_bytes (utf8 ([35;33;233;8364]%N ++ [13;10]%N ++ t "x")) = Some (utf8 [35;33;233;8364]%N).
Proof. vm_compute. reflexivity. Qed.
