(* C12 — minifying never runs code taken from the input. *)
From Coq Require Import String.
From PM Require Import Model.Base Model.MiniString Proofs.MiniStringProofs Gen.EvalSites Model.FStr Proofs.FStrProofs.
Open Scope bool_scope.

(* For EVERY string, in normal and safe mode, with either quote character: the text MiniString hands to eval(),
   quote ++ body ++ quote, is scanned by the reference string-literal scanner as exactly one literal with nothing
   left over: no character of the input can close the literal early, a trailing backslash is always escaped. *)
Theorem C12_ministring_closed_short : forall safe q s,
  is_quote q -> scan_short q (to_short safe q s ++ [q]) = Some [].
Proof. exact ministring_closed_short. Qed.
Print Assumptions C12_ministring_closed_short.

Theorem C12_ministring_closed_long : forall safe q s,
  is_quote q -> scan_long q (to_long safe q s ++ [q; q; q]) = Some [].
Proof. exact ministring_closed_long. Qed.
Print Assumptions C12_ministring_closed_long.

(* f_string.Str / f_string.Bytes on Python 3.12+ (a string or bytes constant nested in an f-string replacement field):
   for EVERY value and every starting quote, the text that `__str__` hands to eval() is a sequence of complete string /
   bytes literals (each closed according to the reference scanner) separated by single spaces, and nothing else - no
   character of the value can end up outside a literal; and it contains no raw line break or NUL.
   The model is tied to f_string.py by leg Q (the texts really passed to eval, the quote lists really used). *)
Theorem C12_fstring_str_text_is_literals : forall start s, In start full_quotes ->
  exists txt, str_candidate start s = Some txt /\ lits_text txt.
Proof. exact str_candidate_closed. Qed.
Print Assumptions C12_fstring_str_text_is_literals.
Theorem C12_fstring_bytes_text_is_literals : forall start s, In start full_quotes ->
  exists txt, bytes_candidate start s = Some txt /\ lits_text txt.
Proof. exact bytes_candidate_closed. Qed.
Print Assumptions C12_fstring_bytes_text_is_literals.
Theorem C12_fstring_escapes_have_no_raw_break : forall c,
  forallb no_raw (esc_str c) = true /\ forallb no_raw (esc_bytes c) = true.
Proof. intro c. split; [apply esc_str_no_raw | apply esc_bytes_no_raw]. Qed.
Print Assumptions C12_fstring_escapes_have_no_raw_break.

(* the complete list of evaluation / import / file / process call sites in the package, re-read on every run,
   is exactly the reviewed list: five eval sites (MiniString x2, f_string.Str, f_string.Bytes, safe_eval), the unused
   MiniBytes, one literal_eval('...') of a constant, the CLI's open() calls, and attribute dispatch on AST class/field names *)
#[local] Open Scope string_scope.
Definition reviewed_sites : list (string * string * string) := [
  ("__main__.py", "main", "open"); ("__main__.py", "main", "open"); ("__main__.py", "main", "open");
  ("__main__.py", "main", "open"); ("__main__.py", "main", "open"); ("__main__.py", "main", "open");
  ("ast_compare.py", "compare_ast", "getattr(dynamic)"); ("ast_compare.py", "compare_ast", "getattr(dynamic)");
  ("ast_compare.py", "compare_ast", "getattr(dynamic)"); ("ast_compare.py", "compare_ast", "getattr(dynamic)");
  ("ast_compare.py", "compare_ast", "getattr(dynamic)");
  ("ast_compat.py", "Ellipsis.__new__", "literal_eval");
  ("expression_printer.py", "ExpressionPrinter.visit", "getattr(dynamic)");
  ("f_string.py", "Bytes.__str__", "eval");
  ("f_string.py", "Str.__str__", "eval");
  ("ministring.py", "MiniBytes.__str__", "eval");
  ("ministring.py", "MiniString.__str__", "eval");
  ("ministring.py", "MiniString.__str__", "eval");
  ("rename/rename_literals.py", "replace", "setattr(dynamic)");
  ("transforms/constant_folding.py", "safe_eval", "eval");
  ("transforms/suite_transformer.py", "NodeVisitor.visit", "getattr(dynamic)");
  ("transforms/suite_transformer.py", "NodeVisitor.visit_Constant", "getattr(dynamic)");
  ("transforms/suite_transformer.py", "SuiteTransformer.generic_visit", "setattr(dynamic)")
].
Theorem C12_eval_sites_are_the_reviewed_ones : eval_sites = reviewed_sites.
Proof. reflexivity. Qed.
Print Assumptions C12_eval_sites_are_the_reviewed_ones.

(* only number and True/False/None constants can reach the folding eval, which runs with fresh empty namespaces *)
Theorem C12_fold_operands_are_constants :
  fold_left_operand_kinds = ["Num"; "NameConstant"] /\ fold_right_operand_kinds = ["Num"; "NameConstant"] /\
  fold_guards_precede_evaluation = true /\ safe_eval_uses_fresh_empty_namespaces = true.
Proof. repeat split; reflexivity. Qed.
Print Assumptions C12_fold_operands_are_constants.

(* non-vacuity / illustration: a string built to break out of the quotes stays one literal *)
#[local] Close Scope string_scope.
Example C12_attack_stays_closed :
  let s := t "'+__import__('os').system('id')+'\" in
  scan_short 39 (to_short false 39 s ++ [39%N])%list = Some [] /\ to_short false 39 (t "a'\") = t "a\'\\".
Proof. vm_compute. split; reflexivity. Qed.
