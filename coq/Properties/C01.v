(* C01 — the minified module behaves exactly like the original (safe options).
   PROVED here, on MiniPy (Model/MiniPy.v: module-level code with integers, opaque strings, variables, arithmetic and
   comparisons, assignment, del, print, pass, expression statements, if/else, while; NameError/TypeError as terminating
   exceptions; outcome = printed events, ending, final namespace): each rewrite of the safe pipeline that exists in this
   core preserves the outcome at the same fuel.  Functions, classes, closures, generators, with/try, imports are NOT in
   the core: for them only the execution-differential oracle applies (DESIGN 5.1). *)
From PM Require Import Model.Base Model.MiniPy Proofs.MiniPyProofs.
From PM Require Model.ControlFlow Proofs.ControlFlowProofs.
Open Scope bool_scope.

(* RemovePass *)
Theorem C01_remove_pass_sound : forall fuel p, run fuel (remove_pass p) = run fuel p.
Proof. exact remove_pass_sound. Qed.
Print Assumptions C01_remove_pass_sound.

(* FoldConstants (integer arithmetic): value or error of every expression in every namespace *)
Theorem C01_fold_sound : forall e st, eval (fold_expr e) st = eval e st.
Proof. exact fold_expr_sound. Qed.
Print Assumptions C01_fold_sound.

(* renaming with an injective map (what C03 guarantees): same events, same ending, the final namespace renamed *)
Theorem C01_rename_sound : forall r, (forall a b, r a = r b -> a = b) ->
  forall fuel p, run fuel (map (ren_stmt r) p) = ren_res r (run fuel p).
Proof. exact rename_sound. Qed.
Print Assumptions C01_rename_sound.

(* hoisting a string literal into a name that does not occur in the module: same events, same ending, the final
   namespace is the original one plus the alias *)
Theorem C01_hoist_sound : forall A s fuel p, forallb (fresh_stmt A) p = true -> orel A s (run fuel p) (run fuel (hoist A s p)).
Proof. exact hoist_sound. Qed.
Print Assumptions C01_hoist_sound.

(* RemoveExplicitReturnNone, on the control-flow core (Model/ControlFlow.v: function bodies of statement skeletons -
   opaque simple statements, return / return None / return <value>, if/else, loops, try/else/finally, nested definitions -
   with every branch decision drawn from an arbitrary oracle; exceptions are not modelled there): calling the rewritten body gives the same trace of effects, the same returned value and
   the same remaining oracle as calling the original, for every body, oracle and fuel (fuel is only the recursion bound) *)
Theorem C01_return_none_sound : forall body f o r,
  (ControlFlow.call f o body = Some r -> ControlFlow.call (S f) o (ControlFlow.ret_body body) = Some r) /\
  (ControlFlow.call f o (ControlFlow.ret_body body) = Some r -> ControlFlow.call (S (S f)) o body = Some r).
Proof. intros. split; [apply ControlFlowProofs.ret_body_call_fwd | apply ControlFlowProofs.ret_body_call_bwd]. Qed.
Print Assumptions C01_return_none_sound.

(* non-vacuity: a loop that prints, a hoisted literal, a renaming *)
Definition ex_prog : list mstmt :=
  [SAssign 1 (MInt 0); SWhile (MBin OLt (MVar 1) (MInt 3)) [SPrint (MBin OAdd (MVar 1) (MBin OMul (MInt 2) (MInt 5))); SPass; SAssign 1 (MBin OAdd (MVar 1) (MInt 1))];
   SPrint (MStr 7); SIf (MBin OEq (MStr 7) (MStr 7)) [SPass] []; SPrint (MVar 9)]%N%Z.
Example C01_example :
  option_map events (run 10 ex_prog) = Some [VInt 10; VInt 11; VInt 12; VStr 7]%Z%N /\
  option_map ended (run 10 ex_prog) = Some (Raised NameError) /\
  option_map events (run 10 (hoist 50%N 7%N (remove_pass ex_prog))) = Some [VInt 10; VInt 11; VInt 12; VStr 7]%Z%N /\
  forallb (fresh_stmt 50%N) ex_prog = true.
Proof. vm_compute. repeat split. Qed.
