(* C07 — constant folding never changes a value, its type, or an error.
   Model/Fold.v mirrors FoldConstants.visit_BinOp over an arbitrary printer `pr`, interpreter `ev` (None = raises),
   re-parse check `reparse_ok` and `repr_fails`; the hypotheses below are explicit premises (sampled against CPython
   by the correspondence legs), never axioms. *)
From PM Require Import Model.Base Model.Fold Proofs.FoldProofs.
Open Scope bool_scope.

Section C07.
  Variable pr : ex -> text.
  Variable ev : text -> option val.
  Variable reparse_ok : ex -> bool.
  Variable repr_fails : val -> bool.
  (* a candidate Num that re-parses to itself is ONE unsigned literal token: it evaluates to a value with no sign bit *)
  Hypothesis HL : forall w x, reparse_ok (Lit w) = true -> ev (pr (Lit w)) = Some x -> nonneg x = true.
  (* '-' in front of such a token evaluates to the negation of what the token evaluates to *)
  Hypothesis HE : forall w, reparse_ok (Neg (Lit w)) = true ->
      reparse_ok (Lit w) = true /\ forall x, ev (pr (Lit w)) = Some x -> ev (pr (Neg (Lit w))) = Some (negv x).
  Hypothesis HEv : forall w y, reparse_ok (Neg (Lit w)) = true -> ev (pr (Neg (Lit w))) = Some y -> exists x, ev (pr (Lit w)) = Some x.
  (* a complex Num that re-parses to itself is a plain imaginary literal *)
  Hypothesis HRc : forall w, ty w = TComplex -> reparse_ok (Lit w) = true -> nonneg w = true.
  (* evaluation is compositional *)
  Hypothesis Cbin : forall l l' o r r', ev (pr l) = ev (pr l') -> ev (pr r) = ev (pr r') -> ev (pr (Bin l o r)) = ev (pr (Bin l' o r')).
  Hypothesis Cneg : forall a a', ev (pr a) = ev (pr a') -> ev (pr (Neg a)) = ev (pr (Neg a')).
  Hypothesis Cctx : forall c args args', Forall2 (fun a b => ev (pr a) = ev (pr b)) args args' -> ev (pr (Ctx c args)) = ev (pr (Ctx c args')).

  (* the value (type, value, sign of zero, infinities) or the raising of every expression is unchanged, at any depth and in
     any context; `=` on `option val` is identity: VFloat (FNum true 0) <> VFloat (FNum false 0), VInt 1 <> VBool true <> VFloat .. *)
  Theorem C07_fold_preserves_eval : forall e,
    ev (pr (fold pr ev reparse_ok repr_fails e)) = ev (pr e).
  Proof. exact (fold_preserves_eval pr ev reparse_ok repr_fails HL HE HEv HRc Cbin Cneg Cctx). Qed.

  Theorem C07_one_step : forall l o r,
    ev (pr (try_fold pr ev reparse_ok repr_fails l o r)) = ev (pr (Bin l o r)).
  Proof. exact (try_fold_sound pr ev reparse_ok repr_fails HL HE HEv HRc). Qed.
End C07.
Print Assumptions C07_fold_preserves_eval.
Print Assumptions C07_one_step.

(* unconditional facts about the decision procedure (any oracles whatsoever) *)
Theorem C07_no_nan_literal : forall pr ev reparse_ok repr_fails e,
  no_nan e -> no_nan (fold pr ev reparse_ok repr_fails e).
Proof. exact fold_no_nan. Qed.
Print Assumptions C07_no_nan_literal.

Theorem C07_shorter_or_untouched : forall pr ev reparse_ok repr_fails l o r,
  try_fold pr ev reparse_ok repr_fails l o r = Bin l o r \/
  length (pr (try_fold pr ev reparse_ok repr_fails l o r)) < length (pr (Bin l o r)).
Proof. exact try_fold_shorter. Qed.
Print Assumptions C07_shorter_or_untouched.

Theorem C07_div_pow_never_folded : forall pr ev reparse_ok repr_fails l r,
  try_fold pr ev reparse_ok repr_fails l Div r = Bin l Div r /\ try_fold pr ev reparse_ok repr_fails l Pow r = Bin l Pow r.
Proof. exact try_fold_div_pow. Qed.
Print Assumptions C07_div_pow_never_folded.

Theorem C07_only_constant_operands : forall pr ev reparse_ok repr_fails l o r,
  try_fold pr ev reparse_ok repr_fails l o r <> Bin l o r -> is_const l = true /\ is_const r = true.
Proof. exact try_fold_operands. Qed.
Print Assumptions C07_only_constant_operands.

(* non-vacuity: with a table oracle for `0.5 - 1.5` (value -1.0) the model does fold, to USub(Num 1.0) *)
Definition half := VFloat (FNum false 4602678819172646912).
Definition one_half := VFloat (FNum false 4609434218613702656).
Definition one := VFloat (FNum false 4607182418800017408).
Definition ex_pr (e : ex) : text :=
  match e with Bin _ _ _ => [46;53;45;49;46;53] | Neg _ => [45;49;46] | Lit _ => [49;46] | _ => [] end%N.
Definition ex_ev (s : text) : option val :=
  if text_eqb s [46;53;45;49;46;53]%N then Some (negv one) else if text_eqb s [45;49;46]%N then Some (negv one)
  else if text_eqb s [49;46]%N then Some one else None.
Example C07_folds_somewhere :
  fold ex_pr ex_ev (fun _ => true) (fun _ => false) (Ctx 0 [Bin (Lit half) Sub (Lit one_half)]) = Ctx 0 [Neg (Lit one)].
Proof. vm_compute. reflexivity. Qed.
(* a value that only differs in the sign of zero is rejected: candidate +0.0 for an original -0.0 cannot arise, and
   strict identity distinguishes them *)
Example C07_signed_zero_distinct : VFloat (FNum true 0) <> VFloat (FNum false 0) /\ VInt 1 <> VBool true /\ py_eq (VFloat (FNum true 0)) (VFloat (FNum false 0)) = true.
Proof. repeat split; discriminate. Qed.
