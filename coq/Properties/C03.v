(* C03 — renaming preserves which binding every name refers to.
   PROVED here: the name assignment (NameAssigner, Model/Renamer.v) over ANY table of bindings, for an ARBITRARY cost
   model `should` and an ARBITRARY name source `pick` that only has to return a name outside the set it is given.
   PROVED as well: the lookup of resolve_names.get_binding (clause list regenerated from the source), run on the
   per-namespace data the binder produces, finds the namespace CPython's symtable pass assigns the name to - for every
   chain of enclosing namespaces - except for the designed merge of names both bound and loaded in a class body.
   NOT proved (checked per program by leg A and the resolver-based oracle, see DESIGN 0.2): that mapper / bind_names put
   every occurrence in the right namespace and every binding operation in the right per-namespace set. *)
From Coq Require Import String.
From PM Require Import Model.Base Model.Renamer Proofs.RenamerProofs Model.RenamerRun Gen.NameGen Model.Resolve Proofs.ResolveProofs.
From PM Require Import Model.ScopeBase Gen.ResolveNames Model.Scope Proofs.ScopeProofs.
Open Scope bool_scope.

(* two different bindings that are visible in a common namespace (their reservation scopes intersect) end up with the
   same name only if both kept their original name and had reserved it from the start *)
Theorem C03_assignment_separates : forall pick should prefix_globals,
  (forall p l, ~ In (pick p l) l) ->
  forall bs rg b1 b2 n s,
    Forall wf_binding bs -> NoDup (map b_id bs) ->
    In b1 bs -> In b2 bs -> b_id b1 <> b_id b2 ->
    In (b_id b1, Some n) (assign pick should prefix_globals bs rg) -> In (b_id b2, Some n) (assign pick should prefix_globals bs rg) ->
    In s (b_scope b1) -> In s (b_scope b2) -> pinned b1 n /\ pinned b2 n.
Proof. exact assign_separates. Qed.
Print Assumptions C03_assignment_separates.

(* a binding that changes its name gets a name that is assigned in no namespace of its reservation scope *)
Theorem C03_new_name_is_fresh : forall pick should prefix_globals,
  (forall p l, ~ In (pick p l) l) ->
  forall b a n, decide pick should prefix_globals b a = Some n -> b_name b <> Some n -> ~ In n (names_in a (b_scope b)).
Proof. exact decide_changed_is_fresh. Qed.
Print Assumptions C03_new_name_is_fresh.

(* no binding visible at module level takes a preserved-global name that is not its own *)
Theorem C03_reserved_globals_avoided : forall pick should prefix_globals,
  (forall p l, ~ In (pick p l) l) ->
  forall bs rg b n, Forall wf_binding bs -> NoDup (map b_id bs) -> In b bs -> In 0%N (b_scope b) -> In n rg ->
    In (b_id b, Some n) (assign pick should prefix_globals bs rg) -> pinned b n.
Proof. exact assign_avoids_reserved_globals. Qed.
Print Assumptions C03_reserved_globals_avoided.

(* RESOLUTION IS PRESERVED (abstract namespace trees: a name is looked up in the namespace of the reference, then in
   its parent, and so on - a superset of the scopes CPython visits).  If the finished table is separated (which the
   assignment guarantees, next theorem), every namespace holds at most one binding per original name, every binding's
   own namespace is in its reservation scope, every namespace between a reference and the binding's namespace is in
   the reservation scope, and the ORIGINAL spelling resolved to the binding from the reference's namespace, then the
   NEW spelling resolves to the same binding: no capture by a renamed or pinned binding on the way, no merging.
   The premises about the table (chain covered by the scope, owner in scope) are checked on every real table by leg R. *)
Theorem C03_resolution_preserved : forall par bs,
  separated bs -> unique_names bs -> unique_ids bs -> owner_in_scope bs ->
  forall fuel ns b n0 n l,
    In b bs -> r_orig b = Some n0 -> r_final b = Some n ->
    chain fuel par ns (r_owner b) = Some l -> (forall m, In m l -> In m (r_scope b)) ->
    resolve fuel par bs r_orig ns n0 = Some (r_id b) ->
    resolve fuel par bs r_final ns n = Some (r_id b).
Proof. exact resolution_preserved. Qed.
Print Assumptions C03_resolution_preserved.

(* the same, with the coverage premise discharged: the reservation scope renamer.reservation_scope builds (the owner and
   every namespace walked from each reference site up to the owner; `rscope`, compared with the real sets by leg R)
   contains the whole walk, so every reference site of every binding keeps resolving to it under the new spelling *)
Theorem C03_resolution_preserved_by_reservation_scope : forall par bs,
  separated bs -> unique_names bs -> unique_ids bs ->
  forall fuel (sites : rb -> list N),
    (forall b, In b bs -> forall m, In m (rscope fuel par (r_owner b) (sites b)) -> In m (r_scope b)) ->
    forall ns b n0 n,
      In b bs -> In ns (sites b) -> r_orig b = Some n0 -> r_final b = Some n ->
      chain fuel par ns (r_owner b) <> None ->
      resolve fuel par bs r_orig ns n0 = Some (r_id b) ->
      resolve fuel par bs r_final ns n = Some (r_id b).
Proof. exact resolution_preserved_by_reservation. Qed.
Print Assumptions C03_resolution_preserved_by_reservation_scope.

Theorem C03_assignment_gives_separation : forall pick should prefix_globals,
  (forall p l, ~ In (pick p l) l) ->
  forall owner bs rg, Forall wf_binding bs -> NoDup (map b_id bs) ->
    separated (table owner (assign pick should prefix_globals bs rg) bs).
Proof. exact assigned_table_separated. Qed.
Print Assumptions C03_assignment_gives_separation.

(* the generated names (all of length 1 and 2; the stream is re-read from name_generator.py and the interpreter's
   keyword / builtin tables on every run) are identifiers and are neither keywords nor builtins *)
Definition ident_start (c : N) : bool := ((65 <=? c) && (c <=? 90) || (97 <=? c) && (c <=? 122))%N.
Definition ident_char (c : N) : bool := (ident_start c || (48 <=? c) && (c <=? 57) || (c =? 95))%N.
Definition valid_new_name (n : text) : bool :=
  match n with c :: rest => ident_start c && forallb ident_char rest | [] => false end && negb (mem_text n reserved_words).
Theorem C03_generated_names_valid : forallb valid_new_name name_stream_prefix = true.
Proof. vm_compute. reflexivity. Qed.
Print Assumptions C03_generated_names_valid.
Theorem C03_generated_names_distinct : NoDup name_stream_prefix.
Proof.
  assert (H : (fix nd (l : list text) : bool := match l with [] => true | x :: l' => negb (mem_text x l') && nd l' end) name_stream_prefix = true) by (vm_compute; reflexivity).
  revert H. generalize name_stream_prefix. induction l as [|x l IH]; intro H; constructor.
  - apply andb_true_iff in H as [H _]. apply negb_true_iff in H. intro Hin. apply mem_text_In in Hin. congruence.
  - apply IH. now apply andb_true_iff in H as [_ H].
Qed.
Print Assumptions C03_generated_names_distinct.

(* ---- the analysis: get_binding finds the owner CPython's symtable pass computes ---- *)
(* for every chain of enclosing blocks (module outermost), every name: the minifier's bottom-up lookup over its own
   per-namespace data (the `view` of each block) returns the depth of the namespace that the top-down symtable pass
   (analyze_block / analyze_name) classifies the name into, unless the name is both bound and loaded in a class body *)
Theorem C03_lookup_refines_symtable : forall outer f x,
  wf_chain outer f = true -> merged_in_class f x = false ->
  min_owner x (chain_view outer f) = ref_owner outer f x.
Proof. exact lookup_refines_symtable. Qed.
Print Assumptions C03_lookup_refines_symtable.

(* the designed exception: such a name is attributed to the binding the code AROUND the class sees, while CPython makes
   it local to the class (the binder pins the merged binding: checked by leg R and the interface oracle of C04) *)
Theorem C03_class_body_merge : forall outer f x,
  wf_chain outer f = true -> merged_in_class f x = true ->
  min_owner x (chain_view outer f) = bound_below outer 0 none_bound x /\ ref_owner outer f x = length outer.
Proof. exact class_body_merge. Qed.
Print Assumptions C03_class_body_merge.

(* a reference never resolves to a namespace nested deeper than the one it is written in *)
Theorem C03_owner_encloses_reference : forall outer f x, wf_chain outer f = true -> ref_owner outer f x <= length outer.
Proof. exact owner_le_depth. Qed.
Print Assumptions C03_owner_encloses_reference.

(* non-vacuity: a table with a parameter pinned to `x`, a local and a comprehension variable sharing namespace 1 *)
Definition ex_bs : list binding := [
  {| b_id := 0; b_kind := KName; b_name := Some (t "f"); b_scope := [0%N]; b_allow := false; b_reserved := Some (t "f"); b_module := true; b_mentions := 1 |};
  {| b_id := 1; b_kind := KName; b_name := Some (t "x"); b_scope := [1%N; 2%N]; b_allow := true; b_reserved := Some (t "x"); b_module := false; b_mentions := 3 |};
  {| b_id := 2; b_kind := KName; b_name := Some (t "total"); b_scope := [1%N]; b_allow := true; b_reserved := None; b_module := false; b_mentions := 4 |};
  {| b_id := 3; b_kind := KName; b_name := Some (t "item"); b_scope := [2%N]; b_allow := true; b_reserved := None; b_module := false; b_mentions := 2 |} ]%N.
Example C03_example :
  forallb wf_bindingb ex_bs = true /\
  run_real [] false ex_bs [] = [(2, Some (t "total")); (1, Some (t "x")); (3, Some (t "item")); (0, Some (t "f"))]%N /\
  run_real [(1, [true]); (2, [true]); (3, [true])]%N false ex_bs [] = [(2, Some (t "A")); (1, Some (t "B")); (3, Some (t "A")); (0, Some (t "f"))]%N.
Proof. vm_compute. repeat split. Qed.
