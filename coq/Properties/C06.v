(* C06 — hoisted literals are bound once, before use, to an identical value. *)
From PM Require Import Model.Base Model.Hoist Proofs.HoistProofs Model.Renamer Proofs.RenamerProofs.
Open Scope bool_scope.

(* util.insert: the assignment goes after the maximal prefix of docstring-position strings and __future__ imports, before
   every other statement; that prefix and the rest of the body are unchanged *)
Theorem C06_first : forall new l,
  exists pre post, insert new l = pre ++ new :: post /\ pre ++ post = l /\ forallb is_prefix_stmt pre = true /\
    match post with [] => True | x :: _ => is_prefix_stmt x = false end.
Proof. exact insert_position. Qed.
Print Assumptions C06_first.

(* place_bindings: the function/module namespace chosen for the assignment lies on the namespace path of EVERY use *)
Theorem C06_placement : forall paths q, In q paths -> is_prefix (place paths) q = true.
Proof. exact place_encloses. Qed.
Print Assumptions C06_placement.
Theorem C06_placement_exists : forall paths,
  paths <> [] -> Forall (fun p => exists t, p = 0%N :: t) paths -> exists t, place paths = 0%N :: t.
Proof. exact place_nonempty. Qed.
Print Assumptions C06_placement_exists.

(* HoistedValue: two literals share an alias only if they have the same type AND the same value *)
Theorem C06_value_key : forall a b, hv_eq a b = true <-> a = b.
Proof. exact hv_eq_spec. Qed.
Print Assumptions C06_value_key.

(* the alias name is separated from every other binding visible where it is used (a HoistedBinding is never pinned:
   it has no name of its own), hence assigned exactly once and never captured *)
Theorem C06_alias_name_unique : forall pick should prefix_globals,
  (forall p l, ~ In (pick p l) l) ->
  forall bs rg h b n s,
    Forall wf_binding bs -> NoDup (map b_id bs) -> In h bs -> In b bs -> b_id h <> b_id b -> b_kind h = KHoisted ->
    In (b_id h, Some n) (assign pick should prefix_globals bs rg) -> In s (b_scope h) -> In s (b_scope b) ->
    ~ In (b_id b, Some n) (assign pick should prefix_globals bs rg).
Proof.
  intros pick should pg Hp bs rg h b n s Hwf Hnd Hh Hb Hne Hk Rh Sh Sb Rb.
  destruct (assign_separates pick should pg Hp bs rg h b n s Hwf Hnd Hh Hb Hne Rh Rb Sh Sb) as [[Hn _] _].
  rewrite Forall_forall in Hwf. destruct (Hwf h Hh) as [_ Hw]. unfold is_name_binding in Hw. rewrite Hk in Hw.
  rewrite (Hw eq_refl) in Hn. discriminate.
Qed.
Print Assumptions C06_alias_name_unique.

Example C06_example :
  insert (IOther 9) [IDocStr 1; IFuture; IOther 2; IDocStr 3] = [IDocStr 1; IFuture; IOther 9; IOther 2; IDocStr 3] /\
  place [[0;3;5]; [0;3;6]; [0;3]]%N = [0;3]%N /\ hv_eq (TStr, [97]%N) (TBytes, [97]%N) = false.
Proof. vm_compute. repeat split. Qed.
