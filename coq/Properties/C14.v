(* C14 — the command line tool never emits more bytes than it was given. *)
From Coq Require Import String.
From PM Require Import Model.CliBase Gen.Cli Proofs.CliSpec Proofs.CliProofs.
Open Scope bool_scope.

(* every byte string the tool writes to stdout, to --output or back in place, on all routes *)
Theorem C14_never_larger : forall api fs env stdin a e b,
  truthy env = false ->
  In e (fst (cli api fs env stdin a)) -> emitted_bytes e = Some b ->
  exists src fn,
    ((src = stdin /\ fn = t "stdin" /\ a_path a = [t "-"]) \/
     (In (WPath fn) (source_modules fs a) /\ fs_read fs fn = Some src)) /\
    length b <= length src /\
    ((exists m, api src fn (opts_of a) = ApiOk m /\ b = utf8 m /\ length (utf8 m) <= length src) \/
     (exists m, api src fn (opts_of a) = ApiOk m /\ length src < length (utf8 m) /\ b = src)).
Proof. exact c14_never_larger. Qed.
Print Assumptions C14_never_larger.

Theorem C14_in_place_growing_untouched : forall api fs env a p src es st q b,
  a_in_place a = true -> fs_read fs p = Some src -> do_minify api env src p a = DmNotBeneficial ->
  file_step api fs env a p = (es, st) -> ~ In (EWrite q b) es.
Proof. exact c14_in_place_growing_untouched. Qed.
Print Assumptions C14_in_place_growing_untouched.

Theorem C14_override_only : forall api src fn a env,
  (truthy env = false -> do_minify api env src fn a = do_minify api None src fn a) /\
  (truthy env = true -> forall m, api src fn (opts_of a) = ApiOk m -> do_minify api env src fn a = DmOk (utf8 m)).
Proof. exact c14_override_only. Qed.
Print Assumptions C14_override_only.

(* the compared quantities are byte lengths: a 1-code-point, 2-byte result against a 1-byte source is "larger" *)
Example C14_bytes_not_characters :
  size_rule None [97%N] (ApiOk [233%N]) = DmNotBeneficial /\ env_var_consulted = t "PYMINIFY_FORCE_BEST_EFFORT".
Proof. vm_compute. split; reflexivity. Qed.
