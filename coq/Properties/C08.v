(* C08 — every compilable module is minified without error into a compilable module.
   Coq part: (1) nothing precedes ast.parse in minify(), so a source that does not parse surfaces the interpreter's
   SyntaxError; (2) the self-check cannot fail for the operator core (C02 round trip); (3) suites are never left empty
   by the suite transformers (C05); (4) generated names are valid identifiers, never keywords or builtins, and two
   bindings visible together never share a name unless pinned (C03).  The universally quantified statement
   `compiles S -> compiles (minify S O)` is NOT proved: it is decided by the compile oracle. *)
From Coq Require Import String.
From PM Require Import Model.Base Model.PipelineBase Gen.Pipeline Model.SyntaxBase Gen.PrecTable Model.Syntax Proofs.SyntaxProofs
  Model.Struct Proofs.StructProofs Model.Renamer Proofs.RenamerProofs Model.RenamerRun Gen.NameGen.
Open Scope bool_scope.

Theorem C08_parse_comes_first :
  exists rest, minify_body = PFilename :: PParse :: rest.
Proof. eexists. reflexivity. Qed.
Print Assumptions C08_parse_comes_first.

Theorem C08_self_check_passes_on_operator_core : forall e,
  exists n, forall fuel, fuel >= n -> pexpr fuel 0 (pr e) = Some (e, []).
Proof. exact roundtrip. Qed.
Print Assumptions C08_self_check_passes_on_operator_core.

Theorem C08_suites_never_empty : forall drop l, suite drop l <> [].
Proof. exact suite_nonempty. Qed.
Print Assumptions C08_suites_never_empty.

Theorem C08_no_two_visible_bindings_share_a_new_name : forall pick should prefix_globals,
  (forall p l, ~ List.In (pick p l) l) ->
  forall bs rg b1 b2 n s,
    Forall wf_binding bs -> NoDup (map b_id bs) -> List.In b1 bs -> List.In b2 bs -> b_id b1 <> b_id b2 ->
    List.In (b_id b1, Some n) (assign pick should prefix_globals bs rg) -> List.In (b_id b2, Some n) (assign pick should prefix_globals bs rg) ->
    List.In s (b_scope b1) -> List.In s (b_scope b2) -> pinned b1 n /\ pinned b2 n.
Proof. exact assign_separates. Qed.
Print Assumptions C08_no_two_visible_bindings_share_a_new_name.
