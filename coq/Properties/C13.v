(* C13 — the command line tool writes exactly what the API would return.
   Theorems only: each is closed by `exact <lemma>`; statements are about Gen/Cli.v, regenerated from
   /repo/src/python_minifier/__main__.py on every run, and the documentation-derived spec Proofs/CliSpec.v. *)
From Coq Require Import String.
From PM Require Import Model.CliBase Gen.Cli Proofs.CliSpec Proofs.CliProofs.
Open Scope bool_scope.

(* all 2^20 flag subsets F, all preserve-list spellings, any api, any source *)
Theorem C13_kwargs : forall api env src fn F path out pl pg,
  do_minify api env src fn (args_of F path out pl pg) = size_rule env src (api src fn (documented F pl pg)).
Proof. exact do_minify_spec. Qed.
Print Assumptions C13_kwargs.

Theorem C13_own_option_only : forall F f fld pl pg,
  ~ In fld (owned f) -> get fld (documented (toggle f F) pl pg) = get fld (documented F pl pg).
Proof. exact c13_own_option_only. Qed.
Print Assumptions C13_own_option_only.

Theorem C13_lists_untouched : forall F f pl pg,
  o_preserve_locals (documented (toggle f F) pl pg) = o_preserve_locals (documented F pl pg) /\
  o_preserve_globals (documented (toggle f F) pl pg) = o_preserve_globals (documented F pl pg).
Proof. exact c13_lists_untouched. Qed.
Print Assumptions C13_lists_untouched.

Theorem C13_every_option_forwarded : forall n, In n api_option_parameters <-> In n forwarded_keywords.
Proof. exact c13_every_option_forwarded. Qed.
Print Assumptions C13_every_option_forwarded.

Theorem C13_preserve_split : forall names,
  names <> [] -> Forall plain names -> documented_names (Some [join_commas names]) = names.
Proof. exact c13_preserve_split. Qed.
Print Assumptions C13_preserve_split.

Theorem C13_preserve_repeated : forall l1 l2,
  documented_names (Some (l1 ++ l2)) = documented_names (Some l1) ++ documented_names (Some l2).
Proof. exact documented_names_app. Qed.
Print Assumptions C13_preserve_repeated.

Theorem C13_invalid_rejected : forall api fs env stdin a,
  invalid fs a = true -> exists c, cli api fs env stdin a = ([], Exit c) /\ c <> 0%Z.
Proof. exact c13_invalid_rejected. Qed.
Print Assumptions C13_invalid_rejected.

Theorem C13_bytes_file : forall api fs env stdin a p src b,
  validate fs a = None -> a_path a = [p] -> text_eqb p (t "-") = false ->
  a_in_place a = false -> truthy (a_output a) = false ->
  fs_read fs p = Some src -> chosen_bytes env src (api src p (opts_of a)) = Some b ->
  cli api fs env stdin a = ([ERead p; EOutB b], Done).
Proof. exact c13_bytes_file. Qed.
Print Assumptions C13_bytes_file.

Theorem C13_bytes_stdin : forall api fs env stdin a b,
  validate fs a = None -> a_path a = [t "-"] -> truthy (a_output a) = false ->
  chosen_bytes env stdin (api stdin (t "stdin") (opts_of a)) = Some b ->
  cli api fs env stdin a = ([EOutB b], Done).
Proof. exact c13_bytes_stdin. Qed.
Print Assumptions C13_bytes_stdin.

(* non-vacuity: a concrete accepted command line, and concrete plain names *)
Definition ex_fs : fsys := {| fs_isdir := fun _ => false; fs_walk := fun _ => []; fs_read := fun _ => Some (t "x=1") |}.
Definition ex_args : args := args_of (fun f => flag_eqb f F_rename_globals) [t "a.py"] None (Some [t "x,y"]) None.
Example C13_premises_satisfiable :
  validate ex_fs ex_args = None /\ a_path ex_args = [t "a.py"] /\ text_eqb (t "a.py") (t "-") = false /\
  a_in_place ex_args = false /\ truthy (a_output ex_args) = false /\
  o_preserve_locals (opts_of ex_args) = [t "x"; t "y"] /\ o_rename_globals (opts_of ex_args) = true.
Proof. vm_compute. repeat split. Qed.
Example C13_plain_example : plain (t "foo") /\ join_commas [t "foo"; t "bar"] = t "foo,bar".
Proof. split; [|reflexivity]. unfold plain. repeat split; try discriminate.
  - vm_compute. intuition discriminate.
  - intros c H. vm_compute in H. injection H as <-. reflexivity.
  - intros c H. vm_compute in H. injection H as <-. reflexivity. Qed.
