(* C10 — names the user asks to preserve are preserved. *)
From Coq Require Import String.
From PM Require Import Model.Base Model.Renamer Proofs.RenamerProofs Model.PipelineBase Gen.Pipeline.
Open Scope bool_scope.

Theorem C10_locals : forall pick should prefix_globals rl pl bs rg b n m,
  NoDup (map b_id bs) -> In b bs -> b_module b = false -> b_name b = Some n -> In n pl ->
  In (b_id b, m) (assign pick should prefix_globals (map (allow_locals rl pl) bs) rg) -> m = Some n.
Proof.
  intros pick should pg rl pl bs rg b n m Hnd Hb Hm Hn Hin R.
  assert (Hid : forall x, b_id (allow_locals rl pl x) = b_id x /\ b_name (allow_locals rl pl x) = b_name x).
  { intro x. unfold allow_locals. destruct (b_module x); [split; reflexivity|]. destruct (negb rl || _); split; reflexivity. }
  rewrite <- Hn, <- (proj2 (Hid b)).
  eapply (assign_not_allowed pick should pg (map (allow_locals rl pl) bs) rg (allow_locals rl pl b)).
  - rewrite map_map. erewrite map_ext; [exact Hnd|]. intro x. apply Hid.
  - now apply in_map.
  - eapply allow_locals_preserved; eauto.
  - rewrite (proj1 (Hid b)). exact R.
Qed.
Print Assumptions C10_locals.

Theorem C10_globals : forall pick should prefix_globals rgl pg bs rg b n m,
  NoDup (map b_id bs) -> In b bs -> b_module b = true -> b_name b = Some n -> In n pg ->
  In (b_id b, m) (assign pick should prefix_globals (map (allow_globals rgl pg) bs) rg) -> m = Some n.
Proof.
  intros pick should pgl rgl pg bs rg b n m Hnd Hb Hm Hn Hin R.
  assert (Hid : forall x, b_id (allow_globals rgl pg x) = b_id x /\ b_name (allow_globals rgl pg x) = b_name x).
  { intro x. unfold allow_globals. destruct (b_module x); [|split; reflexivity]. destruct (negb rgl || _); split; reflexivity. }
  rewrite <- Hn, <- (proj2 (Hid b)).
  eapply (assign_not_allowed pick should pgl (map (allow_globals rgl pg) bs) rg (allow_globals rgl pg b)).
  - rewrite map_map. erewrite map_ext; [exact Hnd|]. intro x. apply Hid.
  - now apply in_map.
  - eapply allow_globals_preserved; eauto.
  - rewrite (proj1 (Hid b)). exact R.
Qed.
Print Assumptions C10_globals.

(* no OTHER binding visible at module level takes a preserved global name *)
Theorem C10_preserved_global_not_taken : forall pick should prefix_globals,
  (forall p l, ~ In (pick p l) l) ->
  forall bs rg b n, Forall wf_binding bs -> NoDup (map b_id bs) -> In b bs -> In 0%N (b_scope b) -> In n rg ->
    In (b_id b, Some n) (assign pick should prefix_globals bs rg) -> pinned b n.
Proof. exact assign_avoids_reserved_globals. Qed.
Print Assumptions C10_preserved_global_not_taken.

(* asking to preserve a name does not change how any binding with another name is treated *)
Theorem C10_noninterference : forall rl pl rg pg b,
  name_in b pl = false -> name_in b pg = false ->
  allow_globals rg pg (allow_locals rl pl b) = allow_globals rg [] (allow_locals rl [] b).
Proof.
  intros rl pl rg pg b Hl Hg. rewrite (allow_locals_other rl pl b Hl). apply allow_globals_other.
  unfold name_in, allow_locals. destruct (b_module b); [exact Hg|]. destruct (negb rl || _); exact Hg.
Qed.
Print Assumptions C10_noninterference.

(* argument handling in minify(), re-read from the source: both lists are normalised (None -> [], bare string -> [string])
   before use, forwarded to the right stage, the preserved globals are also handed to rename(); awslambda forwards the
   entrypoint as preserve_globals *)
#[local] Open Scope string_scope.
Definition normalised (v : string) (body : list pstmt) : bool :=
  existsb (fun s => match s with PNormalise v' _ => String.eqb v v' | _ => false end) body.
Theorem C10_argument_wiring :
  normalised "preserve_locals" minify_body = true /\ normalised "preserve_globals" minify_body = true /\
  In (PStage GTrue "allow_rename_locals" ["rename_locals"; "preserve_locals"]) minify_body /\
  In (PStage GTrue "allow_rename_globals" ["rename_globals"; "preserve_globals"]) minify_body /\
  In (PStage GTrue "rename" ["prefix_globals=not rename_globals"; "preserved_globals=preserve_globals"]) minify_body /\
  In ("preserve_globals", "[entrypoint]") awslambda_keywords /\ In ("rename_globals", "rename_globals") awslambda_keywords.
Proof. vm_compute. repeat split; tauto. Qed.
Print Assumptions C10_argument_wiring.
