(* C09 — dynamic name access freezes every name in the module. *)
From Coq Require Import String.
From PM Require Import Model.Base Model.Renamer Proofs.RenamerProofs Model.PipelineBase Gen.Pipeline Model.ScopeBase Gen.ResolveNames.
Open Scope bool_scope.
#[local] Open Scope string_scope.

(* statement list of minify(), re-read on every run: with module.tainted no stage that introduces or changes names runs,
   whatever the options; rename_locals and rename_globals are forced to False BEFORE they are consumed *)
Theorem C09_tainted_gates : forall O ann,
  stage_runs minify_body O true ann "rename_literals" = false /\
  stage_runs minify_body O true ann "remove_no_arg_exception_call" = false.
Proof. intros. split; cbn; rewrite ?andb_false_r; reflexivity. Qed.
Print Assumptions C09_tainted_gates.

(* what sets module.tainted, re-read from the source on every run: the unshadowed use of exec / eval / locals / globals / vars
   (resolve_names.get_binding: any reference that reaches the module under such a name, also when the module binds the name itself), a star import and an import of timeit (NameBinder.visit_alias); and the
   ONLY other assignment to a `.tainted` attribute anywhere in rename/ and __init__.py is the initialisation to False *)
Theorem C09_taint_sources_are_the_reviewed_ones :
  taint_builtins = ["exec"; "eval"; "locals"; "globals"; "vars"] /\ taint_modules = ["timeit"] /\ star_import_taints = true /\
  taint_regardless_of_module_binding = true /\
  tainted_writes = [("rename/bind_names.py", "False"); ("rename/bind_names.py", "True"); ("rename/bind_names.py", "True");
                    ("rename/resolve_names.py", "True"); ("rename/resolve_names.py", "True"); ("rename/resolve_names.py", "True")].
Proof. repeat split; reflexivity. Qed.
Print Assumptions C09_taint_sources_are_the_reviewed_ones.

Fixpoint index_of (p : pstmt -> bool) (l : list pstmt) : option nat :=
  match l with [] => None | x :: l' => if p x then Some 0 else option_map S (index_of p l') end.
Definition is_force (s : pstmt) : bool := match s with PForceFalse GTainted ["rename_globals"; "rename_locals"] => true | _ => false end.
Definition is_stage (c : string) (s : pstmt) : bool := match s with PStage _ c' _ => String.eqb c c' | _ => false end.
Definition before (a b : option nat) : bool := match a, b with Some x, Some y => Nat.ltb x y | _, _ => false end.
Theorem C09_flags_forced_before_use :
  before (index_of (is_stage "resolve_names") minify_body) (index_of is_force minify_body) = true /\
  before (index_of is_force minify_body) (index_of (is_stage "allow_rename_locals") minify_body) = true /\
  before (index_of is_force minify_body) (index_of (is_stage "allow_rename_globals") minify_body) = true /\
  before (index_of is_force minify_body) (index_of (is_stage "rename") minify_body) = true /\
  In (PStage GTrue "allow_rename_locals" ["rename_locals"; "preserve_locals"]) minify_body /\
  In (PStage GTrue "allow_rename_globals" ["rename_globals"; "preserve_globals"]) minify_body.
Proof. vm_compute. repeat split; tauto. Qed.
Print Assumptions C09_flags_forced_before_use.

#[local] Close Scope string_scope.
(* with both flags False every NameBinding / BuiltinBinding of the table is marked not renameable ... *)
Theorem C09_everything_pinned : forall pl pg b,
  b_allow (allow_globals false pg (allow_locals false pl b)) = false.
Proof.
  intros pl pg b. unfold allow_globals, allow_locals. destruct (b_module b) eqn:Hm; rewrite ?Hm; cbn; [reflexivity|]. now rewrite Hm.
Qed.
Print Assumptions C09_everything_pinned.
(* ... and a table in which nothing is renameable comes out of the name assignment unchanged *)
Theorem C09_frozen : forall pick should prefix_globals bs rg,
  NoDup (map b_id bs) -> (forall b, In b bs -> b_allow b = false) ->
  forall b n, In b bs -> In (b_id b, n) (assign pick should prefix_globals bs rg) -> n = b_name b.
Proof. intros pick should pg bs rg Hnd Hall b n Hb R. eapply assign_not_allowed; eauto. Qed.
Print Assumptions C09_frozen.
