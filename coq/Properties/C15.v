(* C15 — in-place minification touches only Python files and never corrupts one (effect model of main). *)
From Coq Require Import String.
From PM Require Import Model.CliBase Gen.Cli Proofs.CliSpec Proofs.CliProofs.
Open Scope bool_scope.

Theorem C15_targets : forall api fs env stdin a p b,
  In (EWrite p b) (fst (cli api fs env stdin a)) ->
  (a_in_place a = true /\ In (WPath p) (source_modules fs a)) \/
  (truthy (a_output a) = true /\ p = opt_get (a_output a)).
Proof. exact c15_targets. Qed.
Print Assumptions C15_targets.

Theorem C15_selected_files : forall fs a p,
  In (WPath p) (source_modules fs a) ->
  (In p (a_path a) /\ fs_isdir fs p = false) \/
  (exists d root files f, In d (a_path a) /\ fs_isdir fs d = true /\ In (inl (root, files)) (fs_walk fs d) /\
       In f files /\ (endswith f (t ".py") || endswith f (t ".pyw")) = true /\ p = path_join root f).
Proof. exact source_modules_selected. Qed.
Print Assumptions C15_selected_files.

Theorem C15_content_in_place : forall api fs env stdin a p b,
  a_in_place a = true -> In (EWrite p b) (fst (cli api fs env stdin a)) ->
  validate fs a = None /\
  exists src m, fs_read fs p = Some src /\ api src p (opts_of a) = ApiOk m /\ b = utf8 m.
Proof. exact c15_content_in_place. Qed.
Print Assumptions C15_content_in_place.

Theorem C15_main_is_run_items : forall api fs env stdin a,
  cli api fs env stdin a =
  match validate fs a with Some c => ([], Exit c) | None => main_spec api fs env stdin a end.
Proof. exact cli_spec. Qed.
Print Assumptions C15_main_is_run_items.

Theorem C15_failure_prefix : forall api fs env a l1 p l2 es st,
  snd (run_items api fs env a l1) = Done ->
  file_step api fs env a p = (es, st) -> st <> Done ->
  run_items api fs env a (l1 ++ WPath p :: l2) = (fst (run_items api fs env a l1) ++ es, st) /\
  (forall e, In e es -> is_write e = false).
Proof. exact c15_failure_prefix. Qed.
Print Assumptions C15_failure_prefix.

Theorem C15_walk_error_prefix : forall api fs env a l1 l2,
  snd (run_items api fs env a l1) = Done ->
  run_items api fs env a (l1 ++ WErr :: l2) = (fst (run_items api fs env a l1) ++ [], Raised OSError).
Proof. exact c15_walk_error_prefix. Qed.
Print Assumptions C15_walk_error_prefix.

Theorem C15_order : forall api fs env a p es st,
  file_step api fs env a p = (es, st) ->
  es = announce a p \/
  exists src, fs_read fs p = Some src /\
    (es = announce a p ++ [ERead p] \/
     exists b, es = announce a p ++ [ERead p] ++ deliver a p b /\
        (do_minify api env src p a = DmOk b \/ (do_minify api env src p a = DmNotBeneficial /\ b = src))).
Proof. exact c15_order. Qed.
Print Assumptions C15_order.

(* non-vacuity: a tree with a directory holding a .py, a .txt and an unreadable .pyw; --in-place *)
Definition ex_fs : fsys := {|
  fs_isdir := fun p => text_eqb p (t "d");
  fs_walk := fun p => if text_eqb p (t "d") then [inl (t "d", [t "a.py"; t "n.txt"; t "b.pyw"; t "c.py"])] else [];
  fs_read := fun p => if text_eqb p (t "d/a.py") then Some (t "x  =  1") else if text_eqb p (t "d/c.py") then Some (t "y  =  2") else None |}.
Definition ex_api : api_t := fun src _ _ => ApiOk (t "x=1").
Definition ex_args : args := args_of (fun f => flag_eqb f F_in_place) [t "d"] None None None.
Example C15_failure_example :
  cli ex_api ex_fs None [] ex_args =
  ([EOutT (t "d/a.py" ++ [10%N]); ERead (t "d/a.py"); EWrite (t "d/a.py") (t "x=1"); EOutT (t "d/b.pyw" ++ [10%N])], Raised OSError).
Proof. vm_compute. reflexivity. Qed.
