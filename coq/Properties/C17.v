(* C17 — turning a size optimisation on never makes the output longer (on a pinned corpus of real code).
   The property itself is a statement about a FINITE pinned corpus and is decided by measurement (harness/props/c17.py).
   Proved here are the local facts about the cost model it rests on. *)
From PM Require Import Model.Base Gen.TokenRules Model.Cost Proofs.CostProofs Model.Fold Proofs.FoldProofs.
Open Scope nat_scope.

(* renaming: identifier tokens stay identifier tokens, so no space appears or disappears and the rendered length changes
   by exactly the change of the lexeme lengths (any previous token class, the spacing table regenerated from the source) *)
Theorem C17_rename_len_delta : forall prev a b, same_kinds a b -> rlen prev b + total a = rlen prev a + total b.
Proof. exact rename_len_delta. Qed.
Print Assumptions C17_rename_len_delta.
Theorem C17_rename_never_longer : forall prev a b, same_kinds a b -> total b <= total a -> rlen prev b <= rlen prev a.
Proof. exact rename_len_exact. Qed.
Print Assumptions C17_rename_never_longer.
Theorem C17_should_rename_is_the_length_test : forall refs old_len new_len old_m new_m add,
  should_rename_name refs old_len new_len old_m new_m add = true <-> old_m * old_len + new_m * new_len + add <= refs * old_len.
Proof. exact should_rename_name_sound. Qed.
Print Assumptions C17_should_rename_is_the_length_test.
(* the per-reference accounting of Binding.additional_byte_cost / old_mention_count / new_mention_count (Model/Cost.v,
   compared with the real methods on real binding tables by leg K) is EXACT on the lexeme level: should_rename approves a
   rename exactly when the identifiers, the ` as ` of every import that gains one, and the inserted `new=old` + newline
   together are not longer than the identifiers they replace *)
Theorem C17_cost_accounting_exact : forall refs old_len new_len, simple_refs refs = true ->
  (should_rename_refs refs old_len new_len = true <-> text_after refs old_len new_len <= text_before refs old_len).
Proof. exact should_rename_refs_exact. Qed.
Print Assumptions C17_cost_accounting_exact.
(* folding: a node is replaced only by a strictly shorter text (any printer / interpreter) *)
Theorem C17_fold_strictly_shorter : forall pr ev reparse_ok repr_fails l o r,
  try_fold pr ev reparse_ok repr_fails l o r = Bin l o r \/
  length (pr (try_fold pr ev reparse_ok repr_fails l o r)) < length (pr (Bin l o r)).
Proof. exact try_fold_shorter. Qed.
Print Assumptions C17_fold_strictly_shorter.
(* hoisting: the unconditional analogue is FALSE of the faithful model; the witness is kept (it is not a violation of C17
   as stated: the property quantifies over the pinned corpus) *)
Theorem C17_hoist_cost_model_refuted :
  rlen CNewLine ret_lit = 8 /\ rlen CNewLine ret_name = 8 /\ total ret_name + 1 = total ret_lit.
Proof. exact hoist_cost_model_ignores_spacing. Qed.
Print Assumptions C17_hoist_cost_model_refuted.
