(* C02 — printed source re-parses to exactly the same syntax tree.
   Proved in Coq for the OPERATOR CORE (names, integer literals, the 13 binary and 4 unary operators, any nesting):
   the token sequence produced by the printer model (its parenthesisation decisions read from the precedence table that
   is regenerated from expression_printer.py on every run) is parsed by a reference parser written from the Python
   grammar back into exactly the tree that was printed; and for integer literals.  Everything else (comparison chains,
   boolean operators, calls, subscripts, displays, comprehensions, lambda, conditional expressions, f-strings, statements,
   float formatting, token spacing) is decided by the strict round-trip oracle only: see DESIGN 5.2. *)
From Coq Require Import String.
From PM Require Import Model.Base Model.SyntaxBase Gen.PrecTable Model.Syntax Proofs.SyntaxProofs Model.IntLit Proofs.IntLitProofs Model.MiniString Proofs.MiniStringProofs Model.StrDecode Proofs.StrDecodeProofs Model.FStr Model.FStrValue Proofs.FStrValueProofs Model.PipelineBase Gen.Pipeline Gen.TokenRules.
Open Scope bool_scope.
Open Scope nat_scope.

Theorem C02_roundtrip_operator_core : forall e,
  exists n, forall fuel, fuel >= n -> pexpr fuel 0 (pr e) = Some (e, []).
Proof. exact roundtrip. Qed.
Print Assumptions C02_roundtrip_operator_core.

(* printing an operand in any context: the parser, started at the context's level on the printed operand followed by
   whatever the loop would see next, behaves as if it had been handed the operand tree *)
Theorem C02_operand_in_context : forall e, exists n, forall f minp rest x,
   bp_ok e minp -> follow_ok e rest -> ploop f e minp rest = Some x -> pexpr (n + f) minp (pr e ++ rest) = Some x.
Proof. exact key. Qed.
Print Assumptions C02_operand_in_context.

Theorem C02_int_literal_roundtrip : forall v, int_of_literal (print_int v) = Some v.
Proof. exact int_literal_roundtrip. Qed.
Print Assumptions C02_int_literal_roundtrip.

(* token spacing (table regenerated from token_printer.py): a word-like token (identifier, keyword, number, prefixed or
   alphabetic-prefix literal) that follows an identifier or keyword, and a word that follows a number, always get a space *)
Theorem C02_word_tokens_are_separated :
  forallb (fun prev => forallb (fun e => space_needed prev e) [EIdentifier; EKeyword; ESoftKeyword; EString true; EBytes; EFString; EInteger; EFloat; EImag])
          [CIdentifier; CKeyword; CSoftKeyword] = true /\
  forallb (fun e => space_needed CNumberLiteral e) [EIdentifier; EKeyword; ESoftKeyword] = true.
Proof. vm_compute. split; reflexivity. Qed.
Print Assumptions C02_word_tokens_are_separated.

(* with every transform switched off no tree-changing stage of minify() runs (statement list regenerated from the source);
   rename() still runs but every binding has been marked not renameable (C09_everything_pinned) *)
#[local] Open Scope string_scope.
Theorem C02_all_off_runs_no_transform : forall tainted,
  forallb (fun c => negb (stage_runs minify_body (fun _ => false) tainted false c))
    ["RemoveLiteralStatements"; "CombineImports"; "RemoveAnnotations"; "RemovePass"; "RemoveObject"; "RemoveAsserts"; "RemoveDebug";
     "RemoveExplicitReturnNone"; "FoldConstants"; "remove_no_arg_exception_call"; "rename_literals"; "remove_posargs"] = true.
Proof. intros []; vm_compute; reflexivity. Qed.
Print Assumptions C02_all_off_runs_no_transform.

#[local] Close Scope string_scope.
(* non-vacuity: -(a ** -b) ** c * (d + e), not (a | b ^ c) *)
Example C02_example :
  pr (EBin (EBin (EUn USub (EBin (EName 1) Pow (EUn USub (EName 2)))) Pow (EName 3)) Mult (EBin (EName 4) SyntaxBase.Add (EName 5)))
  = [TLP; TOp Sub; TName 1; TOp Pow; TOp Sub; TName 2; TRP; TOp Pow; TName 3; TOp Mult; TLP; TName 4; TOp SyntaxBase.Add; TName 5; TRP]%N /\
  pexpr 40 0 (pr (EUn Not (EBin (EName 1) BitOr (EBin (EName 2) BitXor (EName 3)))))%N = Some (EUn Not (EBin (EName 1) BitOr (EBin (EName 2) BitXor (EName 3))), [])%N.
Proof. vm_compute. split; reflexivity. Qed.

(* string text written by the minifier itself (ordinary str / bytes constants are printed by CPython's own repr(), which is
   trusted; MiniString is what f_string.py uses for the literal parts of f-strings, before it doubles the braces): what
   MiniString writes between the quotes (Model/MiniString.v, compared with ministring.py by leg D and
   by the leg of C12), followed by the closing quote(s) and ANY further text, is read back by the reference decoder
   (Model/StrDecode.v: the escape rules of the Python lexical analysis as a state machine, compared with CPython by leg D) as
   exactly the original string, leaving exactly the text that followed - for every string of code points, both quote
   characters, normal and safe (ASCII-only) mode, short and triple-quoted form *)
Theorem C02_string_literal_roundtrip_short : forall safe q s rest, is_quote q -> Forall code_point s ->
  decode_short q (to_short safe q s ++ q :: rest) = Some (s, rest).
Proof. exact to_short_decodes. Qed.
Print Assumptions C02_string_literal_roundtrip_short.
Theorem C02_string_literal_roundtrip_long : forall safe q s rest, is_quote q -> Forall code_point s ->
  decode_long q (to_long safe q s ++ q :: q :: q :: rest) = Some (s, rest).
Proof. exact to_long_decodes. Qed.
Print Assumptions C02_string_literal_roundtrip_long.
(* non-vacuity: quote, backslash, newline, NUL, CR, a Latin-1 letter, a CJK character and an emoji, in safe mode *)
Example C02_string_example :
  let s := [39; 92; 10; 0; 13; 233; 20013; 128512; 34]%N in
  Forall code_point s /\ decode_short 39%N (to_short true 39%N s ++ [39; 43]%N) = Some (s, [43]%N)
  /\ to_short true 39%N s = [92;39; 92;92; 92;110; 92;120;48;48; 92;114; 92;117;48;48;101;57; 92;117;52;101;50;100; 92;85;48;48;48;49;102;54;48;48; 34]%N.
Proof. cbv zeta. split; [repeat constructor|]. split; vm_compute; reflexivity. Qed.

(* string constants NESTED IN AN F-STRING replacement field (Python 3.12+): the text f_string.Str evaluates and writes
   (Model/FStr.v: the value cut into literals, the quote switched whenever the next character is the current quote
   character; compared with the real class by leg Q) consists of literals whose decoded values, concatenated as the
   interpreter concatenates adjacent literals, are exactly the original string - for every string of code points and
   each of the four starting quotes *)
Theorem C02_fstring_nested_str_value : forall start s, In start full_quotes -> Forall code_point s ->
  exists txt, str_candidate start s = Some txt /\ lits_value txt s.
Proof. exact str_candidate_value. Qed.
Print Assumptions C02_fstring_nested_str_value.
(* ... and for a bytes constant nested in an f-string field (f_string.Bytes): b-prefixed literals whose decoded bytes
   (Model/StrDecode.v decb: the bytes-literal rules, compared with CPython by leg D) concatenate to the original bytes *)
Theorem C02_fstring_nested_bytes_value : forall start s, In start full_quotes -> Forall byte_val s ->
  exists txt, bytes_candidate start s = Some txt /\ lits_value_bytes txt s.
Proof. exact bytes_candidate_value. Qed.
Print Assumptions C02_fstring_nested_bytes_value.
