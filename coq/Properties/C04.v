(* C04 — externally visible names are never changed (renamer core; the classification of bindings as not renameable is
   the analysis's and is decided by the interface oracle). *)
From Coq Require Import String.
From PM Require Import Model.Base Model.Renamer Proofs.RenamerProofs Model.RenamerRun Gen.NameGen Model.PipelineBase Gen.Pipeline.
Open Scope bool_scope.

(* a binding the analysis marked as not renameable keeps its spelling, whatever the cost model and the name source *)
Theorem C04_pinned_bindings_keep_their_name : forall pick should prefix_globals bs rg b n,
  NoDup (map b_id bs) -> In b bs -> b_allow b = false -> In (b_id b, n) (assign pick should prefix_globals bs rg) -> n = b_name b.
Proof. exact assign_not_allowed. Qed.
Print Assumptions C04_pinned_bindings_keep_their_name.

(* without rename_globals every module-level binding is marked not renameable ... *)
Theorem C04_module_bindings_pinned_unless_rename_globals : forall pg b,
  b_module b = true -> b_allow (allow_globals false pg b) = false /\ b_name (allow_globals false pg b) = b_name b.
Proof. intros pg b Hm. unfold allow_globals. rewrite Hm. cbn. split; reflexivity. Qed.
Print Assumptions C04_module_bindings_pinned_unless_rename_globals.

(* ... and any name the minifier adds at module level (builtin aliases, hoisted literals) starts with an underscore:
   rename() is called with prefix_globals = not rename_globals, and the name source prefixes '_' for module bindings *)
Theorem C04_rename_called_with_prefix_globals :
  In (PStage GTrue "rename" ["prefix_globals=not rename_globals"%string; "preserved_globals=preserve_globals"%string]) minify_body.
Proof. vm_compute. tauto. Qed.
Print Assumptions C04_rename_called_with_prefix_globals.
Theorem C04_added_module_names_start_with_underscore : forall forbidden,
  pick_stream true forbidden = [] \/ exists rest, pick_stream true forbidden = 95%N :: rest.
Proof.
  intro forbidden. unfold pick_stream.
  assert (H : forall l, match filter (fun n => negb (mem_text n forbidden)) (map (fun n => 95%N :: n) l) with [] => True | n :: _ => exists r, n = 95%N :: r end).
  { induction l as [|x l IH]; cbn [map filter]; [exact I|]. destruct (negb (mem_text (95%N :: x) forbidden)); [eauto|exact IH]. }
  specialize (H name_stream_prefix).
  destruct (filter _ _); [now left|right; exact H].
Qed.
Print Assumptions C04_added_module_names_start_with_underscore.
Theorem C04_module_binding_gets_prefixed_pick : forall pick should b a n,
  b_module b = true -> decide pick should true b a = Some n -> b_name b <> Some n ->
  n = pick true (names_in a (b_scope b)).
Proof.
  intros pick should b a n Hm Hd Hne. unfold decide in Hd. rewrite Hm in Hd. cbn [andb] in Hd.
  destruct (b_allow b); [|congruence]. destruct (should b _); [now injection Hd|].
  destruct (is_name_binding b); [|congruence]. destruct (b_name b) as [o|]; [|now injection Hd].
  destruct (opt_text_eqb _ _); [congruence|]. destruct (available _ _ _); [congruence|]. now injection Hd.
Qed.
Print Assumptions C04_module_binding_gets_prefixed_pick.
