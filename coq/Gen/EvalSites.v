(* GENERATED on every run by /verif/translator/evalsites.py from every .py under /repo/src/python_minifier. Do not edit. *)
From Coq Require Import String List.
Import ListNotations.
#[local] Open Scope string_scope.
(* (file, enclosing function, callee) *)
Definition eval_sites : list (string * string * string) := [
  ("__main__.py", "main", "open");
  ("__main__.py", "main", "open");
  ("__main__.py", "main", "open");
  ("__main__.py", "main", "open");
  ("__main__.py", "main", "open");
  ("__main__.py", "main", "open");
  ("ast_compare.py", "compare_ast", "getattr(dynamic)");
  ("ast_compare.py", "compare_ast", "getattr(dynamic)");
  ("ast_compare.py", "compare_ast", "getattr(dynamic)");
  ("ast_compare.py", "compare_ast", "getattr(dynamic)");
  ("ast_compare.py", "compare_ast", "getattr(dynamic)");
  ("ast_compat.py", "Ellipsis.__new__", "literal_eval");
  ("expression_printer.py", "ExpressionPrinter.visit", "getattr(dynamic)");
  ("f_string.py", "Bytes.__str__", "eval");
  ("f_string.py", "Str.__str__", "eval");
  ("ministring.py", "MiniBytes.__str__", "eval");
  ("ministring.py", "MiniString.__str__", "eval");
  ("ministring.py", "MiniString.__str__", "eval");
  ("rename/rename_literals.py", "replace", "setattr(dynamic)");
  ("transforms/constant_folding.py", "safe_eval", "eval");
  ("transforms/suite_transformer.py", "NodeVisitor.visit", "getattr(dynamic)");
  ("transforms/suite_transformer.py", "NodeVisitor.visit_Constant", "getattr(dynamic)");
  ("transforms/suite_transformer.py", "SuiteTransformer.generic_visit", "setattr(dynamic)")
].
Definition fold_left_operand_kinds : list string := ["Num"; "NameConstant"].
Definition fold_right_operand_kinds : list string := ["Num"; "NameConstant"].
Definition fold_guards_precede_evaluation : bool := true.
Definition safe_eval_uses_fresh_empty_namespaces : bool := true.
