(* GENERATED on every run by /verif/translator/pipeline.py from /repo/src/python_minifier/__init__.py. Do not edit. *)
From Coq Require Import String.
From PM Require Import Model.Base Model.PipelineBase.
#[local] Open Scope string_scope.

Definition minify_parameters : list string := ["source"; "filename"; "remove_annotations"; "remove_pass"; "remove_literal_statements"; "combine_imports"; "hoist_literals"; "rename_locals"; "preserve_locals"; "rename_globals"; "preserve_globals"; "remove_object_base"; "convert_posargs_to_args"; "preserve_shebang"; "remove_asserts"; "remove_debug"; "remove_explicit_return_none"; "remove_builtin_exception_brackets"; "constant_folding"].
Definition minify_body : list pstmt := [
  PFilename   (* line 115 *);
  PParse   (* line 118 *);
  PStage GTrue "add_parent" []   (* line 120 *);
  PStage GTrue "add_namespace" []   (* line 121 *);
  PStage (GOpt "remove_literal_statements") "RemoveLiteralStatements" []   (* line 123 *);
  PStage (GOpt "combine_imports") "CombineImports" []   (* line 126 *);
  PAnnNormalise   (* line 129 *);
  PStage GAnnAny "RemoveAnnotations" ["remove_annotations_options"]   (* line 141 *);
  PStage (GOpt "remove_pass") "RemovePass" []   (* line 144 *);
  PStage (GOpt "remove_object_base") "RemoveObject" []   (* line 147 *);
  PStage (GOpt "remove_asserts") "RemoveAsserts" []   (* line 150 *);
  PStage (GOpt "remove_debug") "RemoveDebug" []   (* line 153 *);
  PStage (GOpt "remove_explicit_return_none") "RemoveExplicitReturnNone" []   (* line 156 *);
  PStage (GOpt "constant_folding") "FoldConstants" []   (* line 159 *);
  PStage GTrue "bind_names" []   (* line 162 *);
  PStage GTrue "resolve_names" []   (* line 163 *);
  PStage (GAnd (GOpt "remove_builtin_exception_brackets") (GNot GTainted)) "remove_no_arg_exception_call" []   (* line 165 *);
  PForceFalse GTainted ["rename_globals"; "rename_locals"]   (* line 168 *);
  PNormalise "preserve_locals" true   (* line 172 *);
  PNormalise "preserve_globals" true   (* line 178 *);
  PExtendArg "preserve_locals" "module.preserved"   (* line 185 *);
  PExtendArg "preserve_globals" "module.preserved"   (* line 186 *);
  PStage GTrue "allow_rename_locals" ["rename_locals"; "preserve_locals"]   (* line 188 *);
  PStage GTrue "allow_rename_globals" ["rename_globals"; "preserve_globals"]   (* line 189 *);
  PStage (GAnd (GOpt "hoist_literals") (GNot GTainted)) "rename_literals" []   (* line 191 *);
  PStage GTrue "rename" ["prefix_globals=not rename_globals"; "preserved_globals=preserve_globals"]   (* line 194 *);
  PStage (GOpt "convert_posargs_to_args") "remove_posargs" []   (* line 196 *);
  PUnparse   (* line 199 *);
  PShebang (GIsTrue "preserve_shebang")   (* line 201 *);
  PReturn   (* line 206 *)
].
Definition shebang_regex_text : regex := [((RLit 35%N), false); ((RLit 33%N), false); ((RNotIn [13%N; 10%N]), true)].
Definition shebang_regex_bytes : regex := [((RLit 35%N), false); ((RLit 33%N), false); ((RNotIn [13%N; 10%N]), true)].
Definition awslambda_positional : list string := ["source"; "filename"].
Definition awslambda_keywords : list (string * string) := [("remove_literal_statements", "True"); ("rename_globals", "rename_globals"); ("preserve_globals", "[entrypoint]")].
Definition awslambda_source : string := "rename_globals = True ; if entrypoint is None: ;     rename_globals = False ; return minify(source, filename, remove_literal_statements=True, rename_globals=rename_globals, preserve_globals=[entrypoint])".
