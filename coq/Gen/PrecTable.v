(* GENERATED on every run by /verif/translator/prectable.py from expression_printer.py. Do not edit.
   All precedences are multiplied by 2 (so that 3.5 is the natural number 7). *)
From PM Require Import Model.Base Model.SyntaxBase.
Definition prec_binop (o : binop) : nat := match o with Add => 24 | Sub => 24 | Mult => 26 | MatMult => 26 | Div => 26 | Mod => 26 | Pow => 30 | LShift => 22 | RShift => 22 | BitOr => 16 | BitXor => 18 | BitAnd => 20 | FloorDiv => 26 end.
Definition prec_unop (o : unop) : nat := match o with UAdd => 28 | USub => 28 | Invert => 28 | Not => 12 end.
Definition prec_boolop (o : boolop) : nat := match o with And => 10 | Or => 8 end.
Definition prec_cmpop (o : cmpop) : nat := match o with Eq => 14 | NotEq => 14 | Lt => 14 | LtE => 14 | Gt => 14 | GtE => 14 | Is => 14 | IsNot => 14 | In => 14 | NotIn => 14 end.
Definition prec_Lambda : nat := 4.
Definition prec_IfExp : nat := 6.
Definition prec_comprehension : nat := 7.
Definition prec_Await : nat := 32.
Definition prec_Subscript : nat := 34.
Definition prec_Call : nat := 34.
Definition prec_Attribute : nat := 34.
Definition prec_Tuple : nat := 36.
Definition prec_Set : nat := 36.
Definition prec_List : nat := 36.
Definition prec_Dict : nat := 36.
Definition prec_ListComp : nat := 36.
Definition prec_SetComp : nat := 36.
Definition prec_DictComp : nat := 36.
Definition prec_GeneratorExp : nat := 36.
(* `isinstance(op_node, ast.Pow) and right_precedence == 14` in _rhs *)
Definition pow_rhs_special : nat := 28.
