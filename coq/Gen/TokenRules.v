(* GENERATED on every run by /verif/translator/tokenrules.py from token_printer.py. Do not edit. *)
From PM Require Import Model.Base.
Inductive tclass := CNoToken | CIdentifier | CKeyword | CSoftKeyword | CNumberLiteral | CNonNumberLiteral | CDelimiter | COperator | CNewLine | CEndStatement.
Inductive emit := EIdentifier | EKeyword | ESoftKeyword | EString (starts_alpha : bool) | EBytes | EFString | EInteger | EFloat | EImag | EDelimiter | EOperator.
Definition tclass_eqb (a b : tclass) : bool := match a, b with CNoToken, CNoToken | CIdentifier, CIdentifier | CKeyword, CKeyword | CSoftKeyword, CSoftKeyword | CNumberLiteral, CNumberLiteral | CNonNumberLiteral, CNonNumberLiteral | CDelimiter, CDelimiter | COperator, COperator | CNewLine, CNewLine | CEndStatement, CEndStatement => true | _, _ => false end.
(* previous-token classes after which the method inserts a space *)
Definition space_after_classes (e : emit) : list tclass :=
  match e with
  | EIdentifier => [CIdentifier; CKeyword; CSoftKeyword; CNumberLiteral]
  | EKeyword | ESoftKeyword => [CIdentifier; CKeyword; CSoftKeyword; CNumberLiteral]
  | EString true => [CIdentifier; CKeyword; CSoftKeyword] | EString false => []
  | EBytes => [CIdentifier; CKeyword; CSoftKeyword]      (* repr of bytes always starts with the letter b *)
  | EFString => [CIdentifier; CKeyword; CSoftKeyword]
  | EInteger => [CIdentifier; CKeyword; CSoftKeyword] | EFloat => [CIdentifier; CKeyword; CSoftKeyword] | EImag => [CIdentifier; CKeyword; CSoftKeyword]
  | EDelimiter => [] | EOperator => []
  end.
Definition class_after (e : emit) : tclass :=
  match e with EIdentifier => CIdentifier | EKeyword => CKeyword | ESoftKeyword => CSoftKeyword | EString _ | EBytes | EFString => CNonNumberLiteral
  | EInteger | EFloat | EImag => CNumberLiteral | EDelimiter => CDelimiter | EOperator => COperator end.
Definition space_needed (prev : tclass) (e : emit) : bool := existsb (tclass_eqb prev) (space_after_classes e).
