(* GENERATED on every run by /verif/translator/statesites.py from every .py under /repo/src/python_minifier. Do not edit. *)
From Coq Require Import String List.
Import ListNotations.
#[local] Open Scope string_scope.
(* (file, enclosing function, kind, what) : state that outlives one call of minify() *)
Definition state_sites : list (string * string * string * string) := [
  ("ast_compare.py", "compare_ast", "set-order", "set(l_ast._fields + r_ast._fields)");
  ("rename/name_generator.py", "random_generator", "nondeterministic", "random.choice")
].
