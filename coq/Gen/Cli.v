(* GENERATED on every run by /verif/translator/cli.py from /repo/src/python_minifier/__main__.py,
   __init__.py (minify signature) and transforms/remove_annotations_options.py.  Do not edit. *)
From Coq Require Import String.
From PM Require Import Model.CliBase.
Open Scope bool_scope.

(* ---- argparse table (parse_args) ---- *)
Inductive flag :=
| F_in_place    (* --in-place -i, action=store_true, dest=in_place, line 136 *)
| F_no_combine_imports    (* --no-combine-imports, action=store_false, dest=combine_imports, line 145 *)
| F_no_remove_pass    (* --no-remove-pass, action=store_false, dest=remove_pass, line 151 *)
| F_remove_literal_statements    (* --remove-literal-statements, action=store_true, dest=remove_literal_statements, line 158 *)
| F_no_hoist_literals    (* --no-hoist-literals, action=store_false, dest=hoist_literals, line 164 *)
| F_no_rename_locals    (* --no-rename-locals, action=store_false, dest=rename_locals, line 170 *)
| F_rename_globals    (* --rename-globals, action=store_true, dest=rename_globals, line 184 *)
| F_no_remove_object_base    (* --no-remove-object-base, action=store_false, dest=remove_object_base, line 198 *)
| F_no_convert_posargs_to_args    (* --no-convert-posargs-to-args, action=store_false, dest=convert_posargs_to_args, line 204 *)
| F_no_preserve_shebang    (* --no-preserve-shebang, action=store_false, dest=preserve_shebang, line 210 *)
| F_remove_asserts    (* --remove-asserts, action=store_true, dest=remove_asserts, line 216 *)
| F_remove_debug    (* --remove-debug, action=store_true, dest=remove_debug, line 222 *)
| F_no_remove_explicit_return_none    (* --no-remove-explicit-return-none, action=store_false, dest=remove_explicit_return_none, line 228 *)
| F_no_remove_builtin_exception_brackets    (* --no-remove-builtin-exception-brackets, action=store_false, dest=remove_exception_brackets, line 234 *)
| F_no_constant_folding    (* --no-constant-folding, action=store_false, dest=constant_folding, line 240 *)
| F_no_remove_annotations    (* --no-remove-annotations, action=store_false, dest=remove_annotations, line 248 *)
| F_no_remove_variable_annotations    (* --no-remove-variable-annotations, action=store_false, dest=remove_variable_annotations, line 254 *)
| F_no_remove_return_annotations    (* --no-remove-return-annotations, action=store_false, dest=remove_return_annotations, line 260 *)
| F_no_remove_argument_annotations    (* --no-remove-argument-annotations, action=store_false, dest=remove_argument_annotations, line 266 *)
| F_remove_class_attribute_annotations    (* --remove-class-attribute-annotations, action=store_true, dest=remove_class_attribute_annotations, line 272 *)
.
Definition all_flags : list flag := [F_in_place; F_no_combine_imports; F_no_remove_pass; F_remove_literal_statements; F_no_hoist_literals; F_no_rename_locals; F_rename_globals; F_no_remove_object_base; F_no_convert_posargs_to_args; F_no_preserve_shebang; F_remove_asserts; F_remove_debug; F_no_remove_explicit_return_none; F_no_remove_builtin_exception_brackets; F_no_constant_folding; F_no_remove_annotations; F_no_remove_variable_annotations; F_no_remove_return_annotations; F_no_remove_argument_annotations; F_remove_class_attribute_annotations].
Definition flag_spelling (f : flag) : text := match f with
  | F_in_place => (t "--in-place")
  | F_no_combine_imports => (t "--no-combine-imports")
  | F_no_remove_pass => (t "--no-remove-pass")
  | F_remove_literal_statements => (t "--remove-literal-statements")
  | F_no_hoist_literals => (t "--no-hoist-literals")
  | F_no_rename_locals => (t "--no-rename-locals")
  | F_rename_globals => (t "--rename-globals")
  | F_no_remove_object_base => (t "--no-remove-object-base")
  | F_no_convert_posargs_to_args => (t "--no-convert-posargs-to-args")
  | F_no_preserve_shebang => (t "--no-preserve-shebang")
  | F_remove_asserts => (t "--remove-asserts")
  | F_remove_debug => (t "--remove-debug")
  | F_no_remove_explicit_return_none => (t "--no-remove-explicit-return-none")
  | F_no_remove_builtin_exception_brackets => (t "--no-remove-builtin-exception-brackets")
  | F_no_constant_folding => (t "--no-constant-folding")
  | F_no_remove_annotations => (t "--no-remove-annotations")
  | F_no_remove_variable_annotations => (t "--no-remove-variable-annotations")
  | F_no_remove_return_annotations => (t "--no-remove-return-annotations")
  | F_no_remove_argument_annotations => (t "--no-remove-argument-annotations")
  | F_remove_class_attribute_annotations => (t "--remove-class-attribute-annotations")
  end.
Record args := {
  a_path : list text;
  a_output : option text;
  a_in_place : bool;
  a_combine_imports : bool;
  a_remove_pass : bool;
  a_remove_literal_statements : bool;
  a_hoist_literals : bool;
  a_rename_locals : bool;
  a_preserve_locals : option (list text);
  a_rename_globals : bool;
  a_preserve_globals : option (list text);
  a_remove_object_base : bool;
  a_convert_posargs_to_args : bool;
  a_preserve_shebang : bool;
  a_remove_asserts : bool;
  a_remove_debug : bool;
  a_remove_explicit_return_none : bool;
  a_remove_exception_brackets : bool;
  a_constant_folding : bool;
  a_remove_annotations : bool;
  a_remove_variable_annotations : bool;
  a_remove_return_annotations : bool;
  a_remove_argument_annotations : bool;
  a_remove_class_attribute_annotations : bool
}.
(* argparse semantics: store_true -> the flag was given; store_false -> it was not; store/append -> as given *)
Definition args_of (F : flag -> bool) (path : list text) (output : option text) (preserve_locals preserve_globals : option (list text)) : args := {|
  a_path := path;
  a_output := output;
  a_in_place := F F_in_place;
  a_combine_imports := negb (F F_no_combine_imports);
  a_remove_pass := negb (F F_no_remove_pass);
  a_remove_literal_statements := F F_remove_literal_statements;
  a_hoist_literals := negb (F F_no_hoist_literals);
  a_rename_locals := negb (F F_no_rename_locals);
  a_preserve_locals := preserve_locals;
  a_rename_globals := F F_rename_globals;
  a_preserve_globals := preserve_globals;
  a_remove_object_base := negb (F F_no_remove_object_base);
  a_convert_posargs_to_args := negb (F F_no_convert_posargs_to_args);
  a_preserve_shebang := negb (F F_no_preserve_shebang);
  a_remove_asserts := F F_remove_asserts;
  a_remove_debug := F F_remove_debug;
  a_remove_explicit_return_none := negb (F F_no_remove_explicit_return_none);
  a_remove_exception_brackets := negb (F F_no_remove_builtin_exception_brackets);
  a_constant_folding := negb (F F_no_constant_folding);
  a_remove_annotations := negb (F F_no_remove_annotations);
  a_remove_variable_annotations := negb (F F_no_remove_variable_annotations);
  a_remove_return_annotations := negb (F F_no_remove_return_annotations);
  a_remove_argument_annotations := negb (F F_no_remove_argument_annotations);
  a_remove_class_attribute_annotations := F F_remove_class_attribute_annotations
|}.

(* ---- validation after parser.parse_args(): first matching rule exits with its code ---- *)
Definition validate (fs : fsys) (a : args) : option Z :=
  if ((mem_text (t "-") (a_path a)) && (negb (Nat.eqb (length (a_path a)) 1))) then Some 1%Z else   (* line 284 *)
  if ((mem_text (t "-") (a_path a)) && (a_in_place a)) then Some 1%Z else   (* line 287 *)
  if ((Nat.ltb 1 (length (a_path a))) && (negb (a_in_place a))) then Some 1%Z else   (* line 290 *)
  if ((Nat.eqb (length (a_path a)) 1) && (fs_isdir fs (nth 0 (a_path a) [])) && (negb (a_in_place a))) then Some 1%Z else   (* line 293 *)
  if ((a_remove_class_attribute_annotations a) && (negb (a_remove_annotations a))) then Some 1%Z else   (* line 297 *)
  None.
Definition n_validation_rules : nat := 5.
(* mutually exclusive groups declared with add_mutually_exclusive_group (argparse exits with code 2) *)
Definition mutex_groups : list (list text) := [[(t "--output"); (t "--in-place")]].

(* ---- RemoveAnnotationsOptions.__init__ and minify() signatures ---- *)
Record annopts := { ro_remove_variable_annotations : bool; ro_remove_return_annotations : bool; ro_remove_argument_annotations : bool; ro_remove_class_attribute_annotations : bool }.
Definition annopts_default : annopts := {| ro_remove_variable_annotations := true; ro_remove_return_annotations := true; ro_remove_argument_annotations := true; ro_remove_class_attribute_annotations := false |}.
Record options := {
  o_remove_annotations : annopts;
  o_remove_pass : bool;
  o_remove_literal_statements : bool;
  o_combine_imports : bool;
  o_hoist_literals : bool;
  o_rename_locals : bool;
  o_preserve_locals : list text;
  o_rename_globals : bool;
  o_preserve_globals : list text;
  o_remove_object_base : bool;
  o_convert_posargs_to_args : bool;
  o_preserve_shebang : bool;
  o_remove_asserts : bool;
  o_remove_debug : bool;
  o_remove_explicit_return_none : bool;
  o_remove_builtin_exception_brackets : bool;
  o_constant_folding : bool
}.
Definition options_default : options := {|
  o_remove_annotations := annopts_default;
  o_remove_pass := true;
  o_remove_literal_statements := false;
  o_combine_imports := true;
  o_hoist_literals := true;
  o_rename_locals := true;
  o_preserve_locals := [];
  o_rename_globals := false;
  o_preserve_globals := [];
  o_remove_object_base := true;
  o_convert_posargs_to_args := true;
  o_preserve_shebang := true;
  o_remove_asserts := false;
  o_remove_debug := false;
  o_remove_explicit_return_none := true;
  o_remove_builtin_exception_brackets := true;
  o_constant_folding := true
|}.
Definition api_t := bytes -> text -> options -> api_result.
Definition list_text_eqb (a b : list text) : bool := Nat.eqb (length a) (length b) && forallb (fun xy => text_eqb (fst xy) (snd xy)) (combine a b).
Definition annopts_eqb (x y : annopts) : bool := Bool.eqb (ro_remove_variable_annotations x) (ro_remove_variable_annotations y) && Bool.eqb (ro_remove_return_annotations x) (ro_remove_return_annotations y) && Bool.eqb (ro_remove_argument_annotations x) (ro_remove_argument_annotations y) && Bool.eqb (ro_remove_class_attribute_annotations x) (ro_remove_class_attribute_annotations y).
Definition options_eqb (x y : options) : bool := annopts_eqb (o_remove_annotations x) (o_remove_annotations y) && Bool.eqb (o_remove_pass x) (o_remove_pass y) && Bool.eqb (o_remove_literal_statements x) (o_remove_literal_statements y) && Bool.eqb (o_combine_imports x) (o_combine_imports y) && Bool.eqb (o_hoist_literals x) (o_hoist_literals y) && Bool.eqb (o_rename_locals x) (o_rename_locals y) && list_text_eqb (o_preserve_locals x) (o_preserve_locals y) && Bool.eqb (o_rename_globals x) (o_rename_globals y) && list_text_eqb (o_preserve_globals x) (o_preserve_globals y) && Bool.eqb (o_remove_object_base x) (o_remove_object_base y) && Bool.eqb (o_convert_posargs_to_args x) (o_convert_posargs_to_args y) && Bool.eqb (o_preserve_shebang x) (o_preserve_shebang y) && Bool.eqb (o_remove_asserts x) (o_remove_asserts y) && Bool.eqb (o_remove_debug x) (o_remove_debug y) && Bool.eqb (o_remove_explicit_return_none x) (o_remove_explicit_return_none y) && Bool.eqb (o_remove_builtin_exception_brackets x) (o_remove_builtin_exception_brackets y) && Bool.eqb (o_constant_folding x) (o_constant_folding y).

(* ---- do_minify ---- *)
Definition do_minify (api : api_t) (env_force : option text) (source : bytes) (filename : text) (a : args) : dm_result :=
  let preserve_globals := [] in
  let preserve_globals := if (truthy (a_preserve_globals a)) then
      let preserve_globals := fold_left (fun preserve_globals arg =>
          let names := (map (fun name => (strip name)) (filter (fun name => (truthy name)) (split_on 44%N arg))) in
          let preserve_globals := preserve_globals ++ names in
          preserve_globals) (opt_get (a_preserve_globals a)) preserve_globals in
      preserve_globals
    else preserve_globals in
  let preserve_locals := [] in
  let preserve_locals := if (truthy (a_preserve_locals a)) then
      let preserve_locals := fold_left (fun preserve_locals arg =>
          let names := (map (fun name => (strip name)) (filter (fun name => (truthy name)) (split_on 44%N arg))) in
          let preserve_locals := preserve_locals ++ names in
          preserve_locals) (opt_get (a_preserve_locals a)) preserve_locals in
      preserve_locals
    else preserve_locals in
  let remove_annotations := if (is_False (a_remove_annotations a)) then {| ro_remove_variable_annotations := false; ro_remove_return_annotations := false; ro_remove_argument_annotations := false; ro_remove_class_attribute_annotations := false |} else {| ro_remove_variable_annotations := (a_remove_variable_annotations a); ro_remove_return_annotations := (a_remove_return_annotations a); ro_remove_argument_annotations := (a_remove_argument_annotations a); ro_remove_class_attribute_annotations := (a_remove_class_attribute_annotations a) |} in
  match api source filename {| o_remove_annotations := remove_annotations; o_remove_pass := (a_remove_pass a); o_remove_literal_statements := (a_remove_literal_statements a); o_combine_imports := (a_combine_imports a); o_hoist_literals := (a_hoist_literals a); o_rename_locals := (a_rename_locals a); o_preserve_locals := preserve_locals; o_rename_globals := (a_rename_globals a); o_preserve_globals := preserve_globals; o_remove_object_base := (a_remove_object_base a); o_convert_posargs_to_args := (a_convert_posargs_to_args a); o_preserve_shebang := (a_preserve_shebang a); o_remove_asserts := (a_remove_asserts a); o_remove_debug := (a_remove_debug a); o_remove_explicit_return_none := (a_remove_explicit_return_none a); o_remove_builtin_exception_brackets := (a_remove_exception_brackets a); o_constant_folding := (a_constant_folding a) |} with
  | ApiRaise e => DmRaise (ApiError e)
  | ApiOk minified_result =>
    let minified_bytes := (utf8 minified_result) in
    if (truthy env_force) then
      DmOk minified_bytes
    else
      if (Nat.ltb (length source) (length minified_bytes)) then
        DmNotBeneficial
      else
        DmOk minified_bytes
  end.
Definition env_var_consulted : text := (t "PYMINIFY_FORCE_BEST_EFFORT").
Definition forwarded_keywords : list text := [(t "remove_annotations"); (t "remove_pass"); (t "remove_literal_statements"); (t "combine_imports"); (t "hoist_literals"); (t "rename_locals"); (t "preserve_locals"); (t "rename_globals"); (t "preserve_globals"); (t "remove_object_base"); (t "convert_posargs_to_args"); (t "preserve_shebang"); (t "remove_asserts"); (t "remove_debug"); (t "remove_explicit_return_none"); (t "remove_builtin_exception_brackets"); (t "constant_folding")].
Definition api_option_parameters : list text := [(t "remove_annotations"); (t "remove_pass"); (t "remove_literal_statements"); (t "combine_imports"); (t "hoist_literals"); (t "rename_locals"); (t "preserve_locals"); (t "rename_globals"); (t "preserve_globals"); (t "remove_object_base"); (t "convert_posargs_to_args"); (t "preserve_shebang"); (t "remove_asserts"); (t "remove_debug"); (t "remove_explicit_return_none"); (t "remove_builtin_exception_brackets"); (t "constant_folding")].

(* ---- source_modules (a generator: items are produced lazily, an os.walk error surfaces where it occurs) ---- *)
Definition walk_dir (fs : fsys) (path_arg : text) : list walk_item :=
  flat_map (fun d => match d with
    | inl (root, files) => map (fun file => WPath (path_join root file)) (filter (fun file => (existsb (endswith file) [(t ".py"); (t ".pyw")])) files)
    | inr _ => [WErr] end) (fs_walk fs path_arg).
Definition source_modules (fs : fsys) (a : args) : list walk_item :=
  flat_map (fun path_arg => if (fs_isdir fs path_arg) then walk_dir fs path_arg else [WPath path_arg]) (a_path a).

(* ---- main: continuation-passing translation; the value is the trace of effects and the final status ---- *)
Definition main (api : api_t) (fs : fsys) (env_force : option text) (stdin : bytes) (a : args) : trace :=
  if ((Nat.eqb (length (a_path a)) 1) && (text_eqb (nth 0 (a_path a) []) (t "-"))) then
    match do_minify api env_force stdin (t "stdin") a with
    | DmRaise e => ([], Raised e)
    | DmNotBeneficial =>
      if (truthy (a_output a)) then
        emit (EWrite (opt_get (a_output a)) stdin) (
          ([], Done))
      else
        emit (EOutB stdin) (
          ([], Done))
    | DmOk minified =>
      if (truthy (a_output a)) then
        emit (EWrite (opt_get (a_output a)) minified) (
          ([], Done))
      else
        emit (EOutB minified) (
          ([], Done))
    end
  else
    (fix main_loop (items : list walk_item) : trace :=
       match items with
       | [] =>
          ([], Done)
       | WErr :: _ => ([], Raised OSError)
       | WPath path :: rest_items =>
          if ((truthy (a_output a)) || (a_in_place a)) then
            emit (EOutT (path ++ [10%N])) (
              match fs_read fs path with
              | None => ([], Raised OSError)
              | Some source => emit (ERead path) (
                match do_minify api env_force source path a with
                | DmRaise e => ([], Raised e)
                | DmNotBeneficial =>
                  if (a_in_place a) then
                    (main_loop rest_items)
                  else
                    if (truthy (a_output a)) then
                      emit (EWrite (opt_get (a_output a)) source) (
                        (main_loop rest_items))
                    else
                      emit (EOutB source) (
                        (main_loop rest_items))
                | DmOk minified =>
                  if (a_in_place a) then
                    emit (EWrite path minified) (
                      (main_loop rest_items))
                  else
                    if (truthy (a_output a)) then
                      emit (EWrite (opt_get (a_output a)) minified) (
                        (main_loop rest_items))
                    else
                      emit (EOutB minified) (
                        (main_loop rest_items))
                end)
              end)
          else
            match fs_read fs path with
            | None => ([], Raised OSError)
            | Some source => emit (ERead path) (
              match do_minify api env_force source path a with
              | DmRaise e => ([], Raised e)
              | DmNotBeneficial =>
                if (a_in_place a) then
                  (main_loop rest_items)
                else
                  if (truthy (a_output a)) then
                    emit (EWrite (opt_get (a_output a)) source) (
                      (main_loop rest_items))
                  else
                    emit (EOutB source) (
                      (main_loop rest_items))
              | DmOk minified =>
                if (a_in_place a) then
                  emit (EWrite path minified) (
                    (main_loop rest_items))
                else
                  if (truthy (a_output a)) then
                    emit (EWrite (opt_get (a_output a)) minified) (
                      (main_loop rest_items))
                  else
                    emit (EOutB minified) (
                      (main_loop rest_items))
              end)
            end
       end) (source_modules fs a).
(* `args = parse_args()` is the first statement of main: validation (sys.exit) precedes everything else *)
Definition cli (api : api_t) (fs : fsys) (env_force : option text) (stdin : bytes) (a : args) : trace :=
  match validate fs a with Some code => ([], Exit code) | None => main api fs env_force stdin a end.
