(* GENERATED on every run by /verif/translator/resolve.py from rename/resolve_names.py (get_binding), rename/util.py
   (get_nonlocal_namespace, get_global_namespace) and rename/bind_names.py (NameBinder.get_binding). Do not edit. *)
From PM Require Import Model.Base Model.ScopeBase.
(* the clauses of resolve_names.get_binding, in source order *)
Definition get_binding_clauses : list clause := [CGlobalDecl; CNonlocalDecl; COwn; CUp].
(* get_nonlocal_namespace passes over every enclosing class namespace *)
Definition nonlocal_namespace_skips_classes : bool := true.
(* NameBinder.get_binding binds a name declared global in the module namespace, otherwise finds or creates it in the namespace given *)
Definition binder_global_to_module : bool := true.
