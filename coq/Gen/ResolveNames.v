(* GENERATED on every run by /verif/translator/resolve.py from rename/resolve_names.py (get_binding), rename/util.py
   (get_nonlocal_namespace, get_global_namespace) and rename/bind_names.py (NameBinder.get_binding). Do not edit. *)
From PM Require Import Model.Base Model.ScopeBase.
(* the clauses of resolve_names.get_binding, in source order *)
Definition get_binding_clauses : list clause := [CGlobalDecl; CNonlocalDecl; COwn; CUp].
(* get_nonlocal_namespace passes over every enclosing class namespace *)
Definition nonlocal_namespace_skips_classes : bool := true.
(* NameBinder.get_binding binds a name declared global in the module namespace, otherwise finds or creates it in the namespace given *)
Definition binder_global_to_module : bool := true.
From Coq Require Import String.
#[local] Open Scope string_scope.
(* C09: the builtins whose (unshadowed) use sets module.tainted, the imported modules that do, star imports, and EVERY assignment to a `.tainted` attribute in rename/ and __init__.py *)
Definition taint_builtins : list string := ["exec"; "eval"; "locals"; "globals"; "vars"].
Definition taint_modules : list string := ["timeit"].
Definition star_import_taints : bool := true.
(* get_binding taints the module for ANY reference that reaches the module under one of these names, also when the module binds the name itself *)
Definition taint_regardless_of_module_binding : bool := true.
Definition tainted_writes : list (string * string) := [("rename/bind_names.py", "False"); ("rename/bind_names.py", "True"); ("rename/bind_names.py", "True"); ("rename/resolve_names.py", "True"); ("rename/resolve_names.py", "True"); ("rename/resolve_names.py", "True")].
