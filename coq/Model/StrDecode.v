(* C02 / C16: a reference DECODER for Python string literals (SPECIFICATION, from the Python lexical analysis, section
   "String and Bytes literals": escape sequences of non-raw str literals), as a state machine over the characters that
   follow the opening quote(s).  Result: the decoded string and what follows the closing quote(s); None: unterminated, a
   raw newline in a short literal, a malformed \x \u \U escape, or an escape this specification does not cover (octal,
   \N{name}, backslash-newline, unrecognised escapes): the round-trip theorem shows MiniString never produces those.
   Compared with CPython's own evaluation of literals by leg D (harness/props/c02.py). *)
From PM Require Import Model.Base Model.MiniString.
Open Scope bool_scope.
Open Scope N_scope.

Definition simple_escape (e : N) : option N :=
  if e =? 92 then Some 92 else if e =? 39 then Some 39 else if e =? 34 then Some 34
  else if e =? 97 then Some 7 else if e =? 98 then Some 8 else if e =? 102 then Some 12
  else if e =? 110 then Some 10 else if e =? 114 then Some 13 else if e =? 116 then Some 9
  else if e =? 118 then Some 11 else None.
Definition unhex (c : N) : option N :=
  if (48 <=? c) && (c <=? 57) then Some (c - 48)
  else if (97 <=? c) && (c <=? 102) then Some (c - 87)
  else if (65 <=? c) && (c <=? 70) then Some (c - 55) else None.

Inductive dstate := DNorm | DEsc | DHex (n : nat) (acc : N).
Definition cons_res (c : N) (r : option (text * text)) : option (text * text) :=
  match r with Some (d, rest) => Some (c :: d, rest) | None => None end.

(* long = triple-quoted: closes on three quote characters, raw newlines allowed *)
Fixpoint dec (long : bool) (q : N) (st : dstate) (s : text) : option (text * text) :=
  match s with
  | [] => None
  | c :: s' =>
      match st with
      | DNorm =>
          if c =? 92 then dec long q DEsc s'
          else if (c =? 13) || (c =? 0) then None      (* a raw CR is rewritten by the tokenizer's newline translation, a raw NUL is rejected: not covered *)
          else if long then (if (c =? q) && starts2 q s' then Some ([], skipn 2 s') else cons_res c (dec long q DNorm s'))
          else if c =? q then Some ([], s')
          else if c =? 10 then None
          else cons_res c (dec long q DNorm s')
      | DEsc =>
          match simple_escape c with
          | Some v => cons_res v (dec long q DNorm s')
          | None => if c =? 120 then dec long q (DHex 2 0) s'
                    else if c =? 117 then dec long q (DHex 4 0) s'
                    else if c =? 85 then dec long q (DHex 8 0) s'
                    else None
          end
      | DHex n acc =>
          match unhex c with
          | None => None
          | Some d =>
              match n with
              | O => None
              | S O => if acc * 16 + d <? 1114112 then cons_res (acc * 16 + d) (dec long q DNorm s') else None
              | S n' => dec long q (DHex n' (acc * 16 + d)) s'
              end
          end
      end
  end.

(* the literal MiniString writes: quote, escaped body, quote (to_short) / three quotes, body, three quotes (to_long) *)
Definition decode_short (q : N) (body_and_rest : text) := dec false q DNorm body_and_rest.
Definition decode_long (q : N) (body_and_rest : text) := dec true q DNorm body_and_rest.

(* ---- bytes literals: only ASCII characters may appear raw, \x and the one-letter escapes are the covered escapes
   (\u and \U are not escapes in a bytes literal; octal is not covered) ---- *)
Fixpoint decb (long : bool) (q : N) (st : dstate) (s : text) : option (text * text) :=
  match s with
  | [] => None
  | c :: s' =>
      match st with
      | DNorm =>
          if c =? 92 then decb long q DEsc s'
          else if (c =? 13) || (c =? 0) || (128 <=? c) then None
          else if long then (if (c =? q) && starts2 q s' then Some ([], skipn 2 s') else cons_res c (decb long q DNorm s'))
          else if c =? q then Some ([], s')
          else if c =? 10 then None
          else cons_res c (decb long q DNorm s')
      | DEsc =>
          match simple_escape c with
          | Some v => cons_res v (decb long q DNorm s')
          | None => if c =? 120 then decb long q (DHex 2 0) s' else None
          end
      | DHex n acc =>
          match unhex c with
          | None => None
          | Some d =>
              match n with
              | O => None
              | S O => cons_res (acc * 16 + d) (decb long q DNorm s')
              | S n' => decb long q (DHex n' (acc * 16 + d)) s'
              end
          end
      end
  end.
