(* C17: the byte length of rendered token sequences (TokenPrinter: a space is inserted depending only on the CLASS of the
   previous token and the kind of the emitted one, Gen/TokenRules.v) and the cost model of rename/binding.py *)
From PM Require Import Model.Base Gen.TokenRules.
Open Scope nat_scope.

Record ptok := { p_emit : emit; p_len : nat }.        (* what is emitted and how long its lexeme is *)
Fixpoint rlen (prev : tclass) (ts : list ptok) : nat :=
  match ts with
  | [] => 0
  | x :: r => (if space_needed prev (p_emit x) then 1 else 0) + p_len x + rlen (class_after (p_emit x)) r
  end.
Definition total (ts : list ptok) : nat := fold_right (fun x a => p_len x + a) 0 ts.
Definition spaces (prev : tclass) (ts : list ptok) : nat := rlen prev ts - total ts.

(* NameBinding.should_rename *)
Definition should_rename_name (refs old_len new_len old_mentions new_mentions additional : nat) : bool :=
  Nat.leb (old_mentions * old_len + new_mentions * new_len + additional) (refs * old_len).
(* HoistedBinding.should_rename: the "old name" is the literal's repr *)
Definition should_rename_hoisted (refs lit_len new_len : nat) : bool :=
  Nat.leb (1 * lit_len + (refs + 1) * new_len + 2) (refs * lit_len).
