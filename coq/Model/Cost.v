(* C17: the byte length of rendered token sequences (TokenPrinter: a space is inserted depending only on the CLASS of the
   previous token and the kind of the emitted one, Gen/TokenRules.v) and the cost model of rename/binding.py *)
From PM Require Import Model.Base Gen.TokenRules.
Open Scope nat_scope.

Record ptok := { p_emit : emit; p_len : nat }.        (* what is emitted and how long its lexeme is *)
Fixpoint rlen (prev : tclass) (ts : list ptok) : nat :=
  match ts with
  | [] => 0
  | x :: r => (if space_needed prev (p_emit x) then 1 else 0) + p_len x + rlen (class_after (p_emit x)) r
  end.
Definition total (ts : list ptok) : nat := fold_right (fun x a => p_len x + a) 0 ts.
Definition spaces (prev : tclass) (ts : list ptok) : nat := rlen prev ts - total ts.

(* NameBinding.should_rename *)
Definition should_rename_name (refs old_len new_len old_mentions new_mentions additional : nat) : bool :=
  Nat.leb (old_mentions * old_len + new_mentions * new_len + additional) (refs * old_len).
(* HoistedBinding.should_rename: the "old name" is the literal's repr *)
Definition should_rename_hoisted (refs lit_len new_len : nat) : bool :=
  Nat.leb (1 * lit_len + (refs + 1) * new_len + 2) (refs * lit_len).

(* ---- the per-reference accounting of rename/binding.py (Binding.additional_byte_cost / old_mention_count /
   new_mention_count): what each kind of reference node contributes ---- *)
Inductive refkind :=
| RName            (* ast.Name with Load/Store/Del context *)
| RDef             (* FunctionDef / AsyncFunctionDef / ClassDef *)
| RExcept          (* ExceptHandler *)
| RDecl (n : nat)  (* Global / Nonlocal statement that lists the name n times *)
| RAliasPlain      (* import alias without `as` *)
| RAliasAs         (* import alias with `as` *)
| RArgInPlace      (* ast.arg that may be renamed in the signature *)
| RArgRebind       (* ast.arg that keeps its name in the signature and is re-bound in the body *)
| RStar (n : nat)  (* python 2 `arguments` node naming the binding n times as vararg/kwarg *)
| RMatch           (* MatchAs / MatchStar / MatchMapping capture *)
| RTypeParam.      (* TypeVar / TypeVarTuple / ParamSpec *)

Definition is_rebind (k : refkind) : bool := match k with RArgRebind => true | _ => false end.
Definition is_arg (k : refkind) : bool := match k with RArgRebind | RArgInPlace => true | _ => false end.
Definition is_plain_alias (k : refkind) : bool := match k with RAliasPlain => true | _ => false end.
Definition count (p : refkind -> bool) (refs : list refkind) : nat := length (filter p refs).
Definition flag (p : refkind -> bool) (refs : list refkind) : nat := if existsb p refs then 1 else 0.

Definition additional_byte_cost (refs : list refkind) : nat := 4 * count is_plain_alias refs + 2 * flag is_rebind refs.
Definition old_mention_count (refs : list refkind) : nat := count is_plain_alias refs + count is_rebind refs + flag is_rebind refs.
Definition new_mentions_of (k : refkind) : nat :=
  match k with
  | RName | RDef | RExcept | RAliasPlain | RAliasAs | RMatch | RTypeParam => 1
  | RDecl n | RStar n => n
  | RArgInPlace | RArgRebind => 0
  end.
Definition new_mention_count (refs : list refkind) : nat := fold_right (fun k a => new_mentions_of k + a) 0 refs + flag is_arg refs.
Definition should_rename_refs (refs : list refkind) (old_len new_len : nat) : bool :=
  should_rename_name (length refs) old_len new_len (old_mention_count refs) (new_mention_count refs) (additional_byte_cost refs).

(* what the rename really writes, lexeme by lexeme (NameBinding.rename): characters of identifiers, ` as `, and the
   inserted `new=old` + newline.  A binding has at most one argument reference. *)
Definition chars_before (old_len : nat) (k : refkind) : nat :=
  match k with RDecl n | RStar n => n * old_len | _ => old_len end.
Definition chars_after (old_len new_len : nat) (k : refkind) : nat :=
  match k with
  | RName | RDef | RExcept | RAliasAs | RMatch | RTypeParam | RArgInPlace => new_len
  | RDecl n | RStar n => n * new_len
  | RAliasPlain => old_len + 4 + new_len                 (* import old as new *)
  | RArgRebind => old_len + (new_len + 1 + old_len + 1)  (* the parameter keeps its name; new=old\n is inserted *)
  end.
Definition text_before (refs : list refkind) (old_len : nat) : nat := fold_right (fun k a => chars_before old_len k + a) 0 refs.
Definition text_after (refs : list refkind) (old_len new_len : nat) : nat := fold_right (fun k a => chars_after old_len new_len k + a) 0 refs.
(* the accounting is exact when every declaration lists the name once and there is at most one argument reference *)
Definition simple_ref (k : refkind) : bool := match k with RDecl n | RStar n => Nat.eqb n 1 | _ => true end.
Definition simple_refs (refs : list refkind) : bool := forallb simple_ref refs && Nat.leb (count is_arg refs) 1.
