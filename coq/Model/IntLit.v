(* integer literals as TokenPrinter.integer prints them: hex(v) if strictly shorter than repr(v), else repr(v) *)
From Coq Require Import String Ascii NArith DecimalString HexadecimalString DecimalN HexadecimalN.
Open Scope string_scope.

Definition dec_text (v : N) : string := DecimalString.NilZero.string_of_uint (N.to_uint v).
Definition hex_text (v : N) : string := "0x" ++ HexadecimalString.NilZero.string_of_uint (N.to_hex_uint v).
Definition print_int (v : N) : string :=
  if Nat.ltb (String.length (hex_text v)) (String.length (dec_text v)) then hex_text v else dec_text v.

(* reference reading of an integer literal (decimal, or 0x-prefixed hexadecimal) *)
Definition int_of_literal (s : string) : option N :=
  match s with
  | String "0"%char (String "x"%char rest) => option_map N.of_hex_uint (HexadecimalString.NilZero.uint_of_string rest)
  | _ => option_map N.of_uint (DecimalString.NilZero.uint_of_string s)
  end.
