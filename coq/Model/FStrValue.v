(* C02 / C12: SPECIFICATION of the VALUE of a text that consists of string (bytes) literals and single spaces (what
   f_string.Str / f_string.Bytes hand to eval() and write into the replacement field): implicit concatenation of the values
   the reference decoder (Model/StrDecode.v) reads from each literal.  `pre` is [] for str, "b" for bytes; D the decoder. *)
From PM Require Import Model.Base Model.MiniString Model.StrDecode Model.FStr.
Open Scope bool_scope.
Open Scope N_scope.

Inductive lits_value_gen (pre : text) (D : bool -> N -> dstate -> text -> option (text * text)) : text -> text -> Prop :=
| LV_nil : lits_value_gen pre D [] []
| LV_space r v : lits_value_gen pre D r v -> lits_value_gen pre D (32 :: r) v
| LV_short q r d rest v : is_q q -> starts2 q r = false -> D false q DNorm r = Some (d, rest) -> lits_value_gen pre D rest v ->
    lits_value_gen pre D (pre ++ q :: r) (d ++ v)
| LV_long q r d rest v : is_q q -> D true q DNorm r = Some (d, rest) -> lits_value_gen pre D rest v ->
    lits_value_gen pre D (pre ++ q :: q :: q :: r) (d ++ v).
Definition lits_value := lits_value_gen [] dec.
Definition lits_value_bytes := lits_value_gen [98] decb.
