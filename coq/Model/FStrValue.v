(* C02 / C12: SPECIFICATION of the VALUE of a text that consists of string literals and single spaces (what f_string.Str
   hands to eval() and writes into the replacement field): implicit concatenation of the strings the reference decoder
   (Model/StrDecode.v) reads from each literal. *)
From PM Require Import Model.Base Model.MiniString Model.StrDecode Model.FStr.
Open Scope bool_scope.
Open Scope N_scope.

Inductive lits_value : text -> text -> Prop :=
| LV_nil : lits_value [] []
| LV_space r v : lits_value r v -> lits_value (32 :: r) v
| LV_short q r d rest v : is_q q -> starts2 q r = false -> dec false q DNorm r = Some (d, rest) -> lits_value rest v ->
    lits_value (q :: r) (d ++ v)
| LV_long q r d rest v : is_q q -> dec true q DNorm r = Some (d, rest) -> lits_value rest v ->
    lits_value (q :: q :: q :: r) (d ++ v).
