(* Vocabulary of the generated Gen/Pipeline.v: gates, statements of minify(), a small regex language. *)
From Coq Require Import String.
From PM Require Export Model.Base.
Open Scope bool_scope.

Inductive gate :=
| GTrue
| GOpt (o : string)          (* truthiness of an option parameter *)
| GIsTrue (o : string)       (* `o is True` *)
| GAnnAny                    (* bool(remove_annotations_options): any of the four kinds *)
| GTainted                   (* module.tainted *)
| GNot (g : gate)
| GAnd (a b : gate).

Inductive pstmt :=
| PFilename
| PParse
| PStage (g : gate) (callee : string) (args : list string)
| PAnnNormalise
| PForceFalse (g : gate) (vars : list string)
| PNormalise (var : string) (copies_list : bool)
| PExtendArg (var : string) (what : string)
| PUnparse
| PShebang (g : gate)
| PReturn.

(* ---- regexes as used by _find_shebang (re.match: anchored at the start, greedy star, no backtracking needed
        into an atom but implemented with backtracking for generality) ---- *)
Inductive ratom := RDot | RLit (c : N) | RIn (cs : list N) | RNotIn (cs : list N).
Definition regex := list (ratom * bool).    (* (atom, starred?) *)
Definition atom_matches (a : ratom) (c : N) : bool :=
  match a with
  | RDot => negb (N.eqb c 10)                (* `.` without DOTALL: anything but \n *)
  | RLit d => N.eqb c d
  | RIn cs => existsb (N.eqb c) cs
  | RNotIn cs => negb (existsb (N.eqb c) cs)
  end.
(* greedy match of a starred atom followed by the rest: longest run first, backtrack on failure *)
Fixpoint rmatch (fuel : nat) (r : regex) (s : text) : option text :=   (* the matched prefix *)
  match fuel with
  | O => None
  | S fuel' =>
    match r with
    | [] => Some []
    | (a, false) :: r' =>
        match s with
        | c :: s' => if atom_matches a c then option_map (cons c) (rmatch fuel' r' s') else None
        | [] => None
        end
    | (a, true) :: r' =>
        match s with
        | c :: s' =>
            if atom_matches a c then
              match rmatch fuel' r s' with
              | Some m => Some (c :: m)
              | None => rmatch fuel' r' s
              end
            else rmatch fuel' r' s
        | [] => rmatch fuel' r' s
        end
    end
  end.
Definition re_match (r : regex) (s : text) : option text := rmatch (2 * (length s + length r) + 2) r s.

(* ---- reading the statement list of minify(): which stage runs under which options ---- *)
Fixpoint eval_gate (O : string -> bool) (tainted ann_any : bool) (g : gate) : bool :=
  match g with
  | GTrue => true
  | GOpt o => O o
  | GIsTrue o => O o
  | GAnnAny => ann_any
  | GTainted => tainted
  | GNot g' => negb (eval_gate O tainted ann_any g')
  | GAnd a b => eval_gate O tainted ann_any a && eval_gate O tainted ann_any b
  end.
Fixpoint gates_of (callee : string) (body : list pstmt) : list gate :=
  match body with
  | [] => []
  | PStage g c _ :: rest => if String.eqb c callee then g :: gates_of callee rest else gates_of callee rest
  | _ :: rest => gates_of callee rest
  end.
(* a stage runs when one of its occurrences has a true gate *)
Definition stage_runs (body : list pstmt) (O : string -> bool) (tainted ann_any : bool) (callee : string) : bool :=
  existsb (eval_gate O tainted ann_any) (gates_of callee body).
Fixpoint stage_order (body : list pstmt) : list string :=
  match body with [] => [] | PStage _ c _ :: rest => c :: stage_order rest | _ :: rest => stage_order rest end.
