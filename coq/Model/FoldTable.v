(* Decidable equality on the folding model's values/expressions and table-backed oracles: used only by the
   correspondence leg (the model evaluated by vm_compute against the real FoldConstants). *)
From PM Require Import Model.Base Model.Fold.
Open Scope bool_scope.

Definition fl_eqb (a b : fl) : bool :=
  match a, b with FNan, FNan => true | FNum s m, FNum s' m' => Bool.eqb s s' && N.eqb m m' | _, _ => false end.
Definition val_eqb (a b : val) : bool :=
  match a, b with
  | VInt x, VInt y => Z.eqb x y | VBool x, VBool y => Bool.eqb x y | VFloat x, VFloat y => fl_eqb x y
  | VComplex r i, VComplex r' i' => fl_eqb r r' && fl_eqb i i' | VNone, VNone => true | VOther x, VOther y => N.eqb x y
  | _, _ => false
  end.
Definition op_eqb (a b : op) : bool :=
  match a, b with
  | Add, Add | Sub, Sub | Mult, Mult | MatMult, MatMult | Div, Div | Mod, Mod | Pow, Pow | LShift, LShift | RShift, RShift
  | BitOr, BitOr | BitXor, BitXor | BitAnd, BitAnd | FloorDiv, FloorDiv => true
  | _, _ => false
  end.
Fixpoint ex_eqb (a b : ex) : bool :=
  match a, b with
  | Lit v, Lit w => val_eqb v w
  | Neg x, Neg y => ex_eqb x y
  | Bin l o r, Bin l' o' r' => ex_eqb l l' && op_eqb o o' && ex_eqb r r'
  | Ctx c xs, Ctx c' ys =>
      N.eqb c c' && (fix all (xs ys : list ex) : bool :=
                       match xs, ys with [] , [] => true | x :: xs', y :: ys' => ex_eqb x y && all xs' ys' | _, _ => false end) xs ys
  | Leaf n, Leaf m => N.eqb n m
  | _, _ => false
  end.
Definition opt_val_eqb (a b : option val) : bool :=
  match a, b with Some x, Some y => val_eqb x y | None, None => true | _, _ => false end.

Fixpoint lookup_ex {A} (d : A) (tbl : list (ex * A)) (e : ex) : A :=
  match tbl with [] => d | (k, v) :: tbl' => if ex_eqb k e then v else lookup_ex d tbl' e end.
Fixpoint lookup_text {A} (d : A) (tbl : list (text * A)) (s : text) : A :=
  match tbl with [] => d | (k, v) :: tbl' => if text_eqb k s then v else lookup_text d tbl' s end.

Definition fold_tbl (prt : list (ex * text)) (evt : list (text * option val)) (rpt : list (ex * bool)) (e : ex) : ex :=
  fold (lookup_ex [0%N] prt) (lookup_text None evt) (lookup_ex false rpt) (fun _ => false) e.
