(* Executable instance of the renamer model for the correspondence leg: the real name stream (Gen/NameGen.v) and a
   table-backed cost oracle (should_rename depends on the candidate only through its length). *)
From PM Require Import Model.Base Model.Renamer Gen.NameGen.
Open Scope bool_scope.

Definition pick_stream (prefix : bool) (forbidden : list text) : text :=
  let cand := map (fun n => if prefix then 95%N :: n else n) name_stream_prefix in
  match filter (fun n => negb (mem_text n forbidden)) cand with
  | n :: _ => n
  | [] => []          (* more than ~3000 names needed: outside the compared range *)
  end.
(* should_by_length: per binding id, should_rename for candidate lengths 1, 2, 3, 4 *)
Definition should_tbl (tbl : list (N * list bool)) (b : binding) (c : text) : bool :=
  match find (fun e => N.eqb (fst e) (b_id b)) tbl with
  | Some (_, l) => nth (length c - 1) l false
  | None => false
  end.
Definition finals_eqb (a b : list (N * option text)) : bool :=
  Nat.eqb (length a) (length b) &&
  forallb (fun x => existsb (fun y => N.eqb (fst x) (fst y) && opt_text_eqb (snd x) (snd y)) b) a.
Definition run_real (tbl : list (N * list bool)) (prefix_globals : bool) (bs : list binding) (rg : list text) : list (N * option text) :=
  assign pick_stream (should_tbl tbl) prefix_globals bs rg.
