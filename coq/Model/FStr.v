(* C12: f_string.Str and f_string.Bytes on Python 3.12+ (pep701 = True): the text handed to eval() for a string / bytes
   constant nested in an f-string replacement field.  `_literals` cuts the value into pieces, each written between one of
   the allowed quotes, switching quote when the next character is the current quote character; `__str__` joins the pieces
   (with a space where two quote characters would meet) and evaluates the result.  *)
From PM Require Import Model.Base Model.MiniString.
Open Scope bool_scope.
Open Scope N_scope.

Record quote := { qc : N; qlong : bool }.
Definition qtext (q : quote) : text := if qlong q then [qc q; qc q; qc q] else [qc q].
(* OuterFString / FString under pep701: ['"', "'", '"""', "'''"], never shortened *)
Definition full_quotes : list quote :=
  [ {| qc := 34; qlong := false |}; {| qc := 39; qlong := false |}; {| qc := 34; qlong := true |}; {| qc := 39; qlong := true |} ].

(* _can_quote (pep701): a current quote exists and the character is not its first character *)
Definition can_quote (cq : option quote) (c : N) : bool := match cq with None => false | Some q => negb (c =? qc q) end.
(* _get_quote (pep701): the first allowed quote that differs from the character AS A STRING (a 3-character quote always does) *)
Definition differs (q : quote) (c : N) : bool := qlong q || negb (c =? qc q).
Definition get_quote (aq : list quote) (c : N) : option quote := find (fun q => differs q c) aq.

(* what one character contributes inside a literal *)
Definition surrogate (c : N) : bool := (55296 <=? c) && (c <=? 57343).
Definition esc_str (c : N) : text :=
  if c =? 10 then [92; 110] else if c =? 13 then [92; 114] else if c =? 92 then [92; 92]
  else if c =? 0 then [92; 120; 48; 48] else if surrogate c then [92; 117] ++ hex_fixed 4 c else [c].
Definition esc_bytes (b : N) : text :=
  if b =? 92 then [92; 92] else if b =? 10 then [92; 110] else if b =? 13 then [92; 114]
  else if (b =? 0) || (128 <=? b) then [92; 120] ++ hex_fixed 2 b else [b].

Section Literals.
  Variable pre : text.             (* [] for str, "b" for bytes *)
  Variable esc : N -> text.
  Variable aq : list quote.

  Definition flush (cq : option quote) (lit : option text) : list text :=
    match lit, cq with Some l, Some q => [l ++ qtext q] | _, _ => [] end.
  (* _literals; None = ValueError("Couldn't find a quote") *)
  Fixpoint lits (cq : option quote) (lit : option text) (s : text) : option (list text) :=
    match s with
    | [] => Some (flush cq lit)
    | c :: s' =>
        if can_quote cq c then
          match cq with
          | Some q => lits cq (Some ((match lit with Some l => l | None => pre ++ qtext q end) ++ esc c)) s'
          | None => None
          end
        else
          match get_quote aq c with
          | None => None
          | Some q => option_map (app (flush cq lit)) (lits (Some q) (Some (pre ++ qtext q ++ esc c)) s')
          end
    end.
End Literals.

(* `if s and s[-1] == literal[0]: s += ' '` *)
Fixpoint joinr (ls : list text) : text :=
  match ls with
  | [] => []
  | l :: r => l ++ match r with [] => [] | l2 :: _ => if N.eqb (last l 0) (hd 0 l2) then [32] else [] end ++ joinr r
  end.
(* one candidate of __str__: the text that is evaluated *)
Definition candidate (pre : text) (esc : N -> text) (aq : list quote) (start : quote) (s : text) : option text :=
  option_map joinr (lits pre esc aq (Some start) None s).
Definition str_candidate := candidate [] esc_str full_quotes.
Definition bytes_candidate := candidate [98] esc_bytes full_quotes.

(* SPECIFICATION: a text that consists of complete string / bytes literals (recognised by the reference scanner of
   Model/MiniString.v), separated by single spaces, and nothing else *)
Definition is_q (q : N) : Prop := q = 39 \/ q = 34.
Inductive lits_text : text -> Prop :=
| LT_nil : lits_text []
| LT_space r : lits_text r -> lits_text (32 :: r)
| LT_short pre q r rest : is_q q -> (pre = [] \/ pre = [98]) -> starts2 q r = false -> scan_short q r = Some rest -> lits_text rest -> lits_text (pre ++ q :: r)
| LT_long pre q r rest : is_q q -> (pre = [] \/ pre = [98]) -> scan_long q r = Some rest -> lits_text rest -> lits_text (pre ++ q :: q :: q :: r).
