(* What an outside observer sees of a trace of the CLI model: stdout bytes, files whose content changed, exit code.
   Used only by the correspondence leg (model vs the real tool); no property theorem depends on it. *)
From PM Require Import Model.CliBase.
Open Scope bool_scope.

Definition stdout_of (es : list eff) : bytes :=
  flat_map (fun e => match e with EOutB b => b | EOutT s => utf8 s | _ => [] end) es.

Fixpoint assoc_set (p : text) (b : bytes) (m : list (text * bytes)) : list (text * bytes) :=
  match m with
  | [] => [(p, b)]
  | (q, c) :: m' => if text_eqb p q then (q, b) :: m' else (q, c) :: assoc_set p b m'
  end.
Definition writes_of (es : list eff) : list (text * bytes) :=
  fold_left (fun m e => match e with EWrite p b => assoc_set p b m | _ => m end) es [].
Definition changed (fs : fsys) (m : list (text * bytes)) : list (text * bytes) :=
  filter (fun pb => match fs_read fs (fst pb) with Some old => negb (text_eqb old (snd pb)) | None => true end) m.
Definition exit_of (s : status) : Z := match s with Done => 0 | Exit c => c | Raised _ => 1 end.
Definition observe (fs : fsys) (tr : trace) : bytes * list (text * bytes) * Z :=
  (stdout_of (fst tr), changed fs (writes_of (fst tr)), exit_of (snd tr)).

Definition pair_eqb (x y : text * bytes) : bool := text_eqb (fst x) (fst y) && text_eqb (snd x) (snd y).
Definition subset (a b : list (text * bytes)) : bool := forallb (fun x => existsb (pair_eqb x) b) a.
Definition obs_eqb (x y : bytes * list (text * bytes) * Z) : bool :=
  match x, y with
  | (o1, w1, c1), (o2, w2, c2) => text_eqb o1 o2 && subset w1 w2 && subset w2 w1 && Z.eqb c1 c2
  end.
