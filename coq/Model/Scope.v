(* L-scope, name lookup.  Two executable descriptions of "which namespace owns the binding a name refers to", both over the
   chain of namespaces that encloses the reference:

   * `look` is the minifier's resolve_names.get_binding: a bottom-up walk that starts in the namespace of the reference and
     climbs with get_nonlocal_namespace (which passes over class namespaces).  Its clause list is REGENERATED from the source
     (Gen/ResolveNames.v), and it reads the minifier's own per-namespace data: `bindings`, `global_names`, `nonlocal_names`.
   * `ref_owner` is CPython's symtable pass (Python/symtable.c: analyze_block / analyze_name) restricted to the information
     "who owns the name": a TOP-DOWN pass that carries the set `bound` of names local to an enclosing function scope
     (here: a map from the name to the depth of the owner; 0 = not in the set), removes a name from it where it is declared
     global, leaves it unchanged through class blocks, and classifies every name of a block as
     global-explicit / nonlocal / local / free / global-implicit exactly in analyze_name's order.

   `view` says how the minifier's per-namespace data derive from the symtable-level facts of the same block (what is bound,
   declared global, declared nonlocal, loaded): bindings are not created for names declared global (they go to the module) or
   listed in nonlocal_names; mapper.add_parent lists every name LOADED in a class body in that class's nonlocal_names.
   An owner is the depth of the namespace in the chain (0 = the module). *)
From PM Require Import Model.Base Model.ScopeBase Gen.ResolveNames.
Open Scope bool_scope.

Definition is_module (k : kind) : bool := match k with KModule => true | _ => false end.
Definition is_class (k : kind) : bool := match k with KClass => true | _ => false end.

(* ---- the minifier ---- *)
Record mframe := { m_kind : kind; m_bindings : list text; m_globals : list text; m_nonlocals : list text }.

Fixpoint run_clauses (cs : list clause) (f : mframe) (x : text) (d up : nat) : nat :=
  match cs with
  | [] => 0
  | CGlobalDecl :: cs' => if mem_text x (m_globals f) && negb (is_module (m_kind f)) then 0 else run_clauses cs' f x d up
  | CNonlocalDecl :: cs' => if mem_text x (m_nonlocals f) && negb (is_module (m_kind f)) then up else run_clauses cs' f x d up
  | COwn :: cs' => if mem_text x (m_bindings f) then d else run_clauses cs' f x d up
  | CUp :: _ => if negb (is_module (m_kind f)) then up else 0
  end.

(* fs: the namespace of the reference first, the module last.  sk: we arrived by get_nonlocal_namespace (classes are passed over) *)
Fixpoint look (sk : bool) (x : text) (fs : list mframe) : nat :=
  match fs with
  | [] => 0
  | f :: rest =>
      if sk && is_class (m_kind f) && nonlocal_namespace_skips_classes then look true x rest
      else run_clauses get_binding_clauses f x (length rest) (look true x rest)
  end.
Definition min_owner (x : text) (fs : list mframe) : nat := look false x fs.

(* ---- CPython ---- *)
Record sframe := { s_kind : kind; s_bound : list text; s_gdecl : list text; s_ndecl : list text; s_loads : list text }.

(* analyze_name for block f at depth d, given the incoming `bound` map B *)
Definition classify (B : text -> nat) (f : sframe) (d : nat) (x : text) : nat :=
  if is_module (s_kind f) then 0
  else if mem_text x (s_gdecl f) then 0          (* DEF_GLOBAL: GLOBAL_EXPLICIT, and discarded from bound *)
  else if mem_text x (s_ndecl f) then B x        (* DEF_NONLOCAL: FREE *)
  else if mem_text x (s_bound f) then d          (* DEF_BOUND: LOCAL *)
  else B x.                                      (* in bound: FREE; otherwise GLOBAL_IMPLICIT (B x = 0) *)
(* what the children of the blocks fs (outermost first, the first at depth d) receive: a function block passes on
   its own view (newbound = local + bound), a class block passes on what it received *)
Fixpoint bound_below (fs : list sframe) (d : nat) (B : text -> nat) : text -> nat :=
  match fs with
  | [] => B
  | f :: rest => bound_below rest (S d) (if is_class (s_kind f) then B else classify B f d)
  end.
Definition none_bound : text -> nat := fun _ => 0.
Definition ref_owner (outer : list sframe) (f : sframe) (x : text) : nat :=
  classify (bound_below outer 0 none_bound) f (length outer) x.

(* ---- the minifier's per-namespace data, from the block's symtable-level facts ---- *)
Definition v_nonlocals (f : sframe) : list text := s_ndecl f ++ (if is_class (s_kind f) then s_loads f else []).
Definition view (f : sframe) : mframe :=
  {| m_kind := s_kind f;
     m_bindings := filter (fun x => negb (mem_text x (s_gdecl f)) && negb (mem_text x (v_nonlocals f))) (s_bound f);
     m_globals := s_gdecl f;
     m_nonlocals := v_nonlocals f |}.
Definition chain_view (outer : list sframe) (f : sframe) : list mframe := view f :: rev (map view outer).

(* the one place where the two differ by design: a name both bound and loaded in a class body (and not declared) *)
Definition merged_in_class (f : sframe) (x : text) : bool :=
  is_class (s_kind f) && mem_text x (s_loads f) && mem_text x (s_bound f) && negb (mem_text x (s_gdecl f)) && negb (mem_text x (s_ndecl f)).
(* well-formed chain: the module is the outermost block and only that *)
Definition wf_chain (outer : list sframe) (f : sframe) : bool :=
  match outer ++ [f] with
  | [] => false
  | m :: rest => is_module (s_kind m) && forallb (fun g => negb (is_module (s_kind g))) rest
  end.

(* ---- executable comparisons used by the correspondence legs ---- *)
Definition subset (a b : list text) : bool := forallb (fun x => mem_text x b) a.
Definition same_set (a b : list text) : bool := subset a b && subset b a.
Definition kind_eqb (a b : kind) : bool :=
  match a, b with KModule, KModule | KFunction, KFunction | KClass, KClass => true | _, _ => false end.
(* a real namespace agrees with the view of the reference block (module bindings are created on demand: not compared) *)
Definition frame_agrees (real : mframe) (f : sframe) : bool :=
  kind_eqb (m_kind real) (s_kind f) &&
  (is_module (s_kind f) || (same_set (m_bindings real) (m_bindings (view f)) && same_set (m_globals real) (m_globals (view f))
                           && same_set (m_nonlocals real) (m_nonlocals (view f)))).
