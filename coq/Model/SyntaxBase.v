(* operator vocabularies shared by Gen/PrecTable.v and Model/Syntax.v *)
Inductive binop := Add | Sub | Mult | MatMult | Div | Mod | Pow | LShift | RShift | BitOr | BitXor | BitAnd | FloorDiv.
Inductive unop := UAdd | USub | Invert | Not.
Inductive boolop := And | Or.
Inductive cmpop := Eq | NotEq | Lt | LtE | Gt | GtE | Is | IsNot | In | NotIn.
