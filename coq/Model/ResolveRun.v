(* executable check of the premises and of the conclusion of the resolution theorem on a concrete table (correspondence leg) *)
From PM Require Import Model.Base Model.Renamer Model.Resolve.
Open Scope bool_scope.
Definition oN_eqb (a b : option N) : bool := match a, b with Some x, Some y => N.eqb x y | None, None => true | _, _ => false end.
Definition resolution_check (par : parents) (bs : list rb) (refs : list (N * N)) : bool :=
  forallb (fun r =>
    match find (fun b => N.eqb (r_id b) (fst r)) bs with
    | None => false
    | Some b =>
        covered 80 par (snd r) b &&
        existsb (N.eqb (r_owner b)) (r_scope b) &&
        match r_orig b, r_final b with
        | Some n0, Some n => if oN_eqb (resolve 80 par bs r_orig (snd r) n0) (Some (r_id b)) then oN_eqb (resolve 80 par bs r_final (snd r) n) (Some (r_id b)) else true
        | _, _ => true
        end
    end) refs.

(* the reservation scope of the real table is the set renamer.reservation_scope is modelled to build (Model/Resolve.v, rscope) *)
Definition subsetN (a b : list N) : bool := forallb (fun x => existsb (N.eqb x) b) a.
Definition rscope_check (par : parents) (bs : list rb) (refs : list (N * N)) : bool :=
  forallb (fun b =>
    let sites := map snd (filter (fun r => N.eqb (fst r) (r_id b)) refs) in
    let m := rscope 80 par (r_owner b) sites in
    subsetN m (r_scope b) && subsetN (r_scope b) m) bs.
