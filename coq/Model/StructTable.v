(* decidable equality on skeletons: used only by the correspondence leg *)
From PM Require Import Model.Base Model.Struct.
Open Scope bool_scope.

Definition list_eqb {A} (f : A -> A -> bool) : list A -> list A -> bool :=
  fix go (a b : list A) : bool :=
    match a, b with [], [] => true | x :: a', y :: b' => f x y && go a' b' | _, _ => false end.
Definition cmpop_eqb (a b : cmpop) : bool := match a, b with OIs, OIs | OIsNot, OIsNot | OEq, OEq | OOtherCmp, OOtherCmp => true | _, _ => false end.
Definition cconst_eqb (a b : cconst) : bool := match a, b with CTrue, CTrue | CFalse, CFalse | COtherConst, COtherConst => true | _, _ => false end.
Definition test_eqb (a b : test) : bool :=
  match a, b with
  | TDebugName, TDebugName => true
  | TCmp l o c, TCmp l' o' c' => Bool.eqb l l' && cmpop_eqb o o' && cconst_eqb c c'
  | TOther x, TOther y => N.eqb x y
  | _, _ => false
  end.
Definition ret_eqb (a b : retkind) : bool :=
  match a, b with RBare, RBare | RNoneConst, RNoneConst => true | ROther x, ROther y => N.eqb x y | _, _ => false end.
Definition simple_eqb (a b : simple) : bool :=
  match a, b with
  | KPass, KPass => true
  | KLit x, KLit y | KAssert x, KAssert y | KOther x, KOther y => N.eqb x y
  | KReturn x, KReturn y => ret_eqb x y
  | KImport x, KImport y => list_eqb N.eqb x y
  | KImportFrom m l n s, KImportFrom m' l' n' s' => N.eqb m m' && N.eqb l l' && list_eqb N.eqb n n' && Bool.eqb s s'
  | _, _ => false
  end.
Definition kind_eqb (a b : blockkind) : bool :=
  match a, b with
  | BIf t, BIf t' => test_eqb t t'
  | BLoop x, BLoop y | BWith x, BWith y | BFunc x, BFunc y | BUnhooked x, BUnhooked y => N.eqb x y
  | BTry, BTry => true
  | BClass x bs, BClass y bs' => N.eqb x y && list_eqb (fun p q => Bool.eqb (fst p) (fst q) && N.eqb (snd p) (snd q)) bs bs'
  | _, _ => false
  end.
Fixpoint stmt_eqb (a b : stmt) : bool :=
  match a, b with
  | Simple k, Simple k' => simple_eqb k k'
  | Block k m o u, Block k' m' o' u' =>
      kind_eqb k k' && list_eqb (list_eqb stmt_eqb) m m' && list_eqb (list_eqb stmt_eqb) o o' && list_eqb (list_eqb stmt_eqb) u u'
  | _, _ => false
  end.
Definition stmts_eqb (a b : list stmt) : bool := list_eqb stmt_eqb a b.
