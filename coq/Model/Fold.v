(* C07: mirror of transforms/constant_folding.py FoldConstants.visit_BinOp as a function over an arbitrary
   interpreter/printer oracle (Section variables; they survive as explicit premises of every theorem). *)
From PM Require Import Model.Base.
Open Scope bool_scope.

(* a float is NaN or sign + magnitude (the IEEE-754 bit pattern of |x|: 0 is zero, 0x7FF0000000000000 is infinity) *)
Inductive fl := FNan | FNum (neg : bool) (mag : N).
Definition INF : N := 9218868437227405312%N.
Inductive val := VInt (z : Z) | VBool (b : bool) | VFloat (f : fl) | VComplex (re im : fl) | VNone | VOther (n : N).
Inductive tag := TInt | TBool | TFloat | TComplex | TNone | TOther.
Definition ty (v : val) : tag :=
  match v with VInt _ => TInt | VBool _ => TBool | VFloat _ => TFloat | VComplex _ _ => TComplex | VNone => TNone | VOther _ => TOther end.
Definition tag_eqb (a b : tag) : bool :=
  match a, b with TInt, TInt | TBool, TBool | TFloat, TFloat | TComplex, TComplex | TNone, TNone | TOther, TOther => true | _, _ => false end.

(* Python's == on two values of the SAME type *)
Definition fl_eq (a b : fl) : bool :=
  match a, b with
  | FNum s m, FNum s' m' => N.eqb m m' && (Bool.eqb s s' || N.eqb m 0)
  | _, _ => false
  end.
Definition py_eq (a b : val) : bool :=
  match a, b with
  | VInt x, VInt y => Z.eqb x y
  | VBool x, VBool y => Bool.eqb x y
  | VFloat x, VFloat y => fl_eq x y
  | VComplex r i, VComplex r' i' => fl_eq r r' && fl_eq i i'
  | VNone, VNone => true
  | VOther x, VOther y => N.eqb x y
  | _, _ => false
  end.
Definition float_nan (v : val) : bool := match v with VFloat FNan => true | _ => false end.
Definition fl_nonfinite (f : fl) : bool := match f with FNan => true | FNum _ m => N.eqb m INF end.
Definition complex_nonfinite (v : val) : bool := match v with VComplex r i => fl_nonfinite r || fl_nonfinite i | _ => false end.

(* equal_value_and_type(a, b) *)
Definition eqvt (a b : val) : bool :=
  tag_eqb (ty a) (ty b) && negb (float_nan a && negb (float_nan b)) && py_eq a b.

(* unary minus *)
Definition fl_neg (f : fl) : fl := match f with FNan => FNan | FNum s m => FNum (negb s) m end.
Definition negv (v : val) : val :=
  match v with
  | VInt z => VInt (- z)
  | VBool b => VInt (if b then -1 else 0)
  | VFloat f => VFloat (fl_neg f)
  | VComplex r i => VComplex (fl_neg r) (fl_neg i)
  | _ => v
  end.
(* repr(v).startswith('-'): a complex prints as '-<x>j' only when its real part is +0.0 and its imaginary part is negative *)
Definition fl_signbit (f : fl) : bool := match f with FNum s _ => s | FNan => false end.
Definition repr_neg (v : val) : bool :=
  match v with
  | VInt z => Z.ltb z 0
  | VFloat f => fl_signbit f
  | VComplex (FNum false 0) i => fl_signbit i
  | _ => false
  end.
(* no sign bit set anywhere *)
Definition nonneg (v : val) : bool :=
  match v with
  | VInt z => Z.leb 0 z
  | VFloat f => negb (fl_signbit f)
  | VComplex r i => negb (fl_signbit r) && negb (fl_signbit i)
  | _ => true
  end.

Inductive op := Add | Sub | Mult | MatMult | Div | Mod | Pow | LShift | RShift | BitOr | BitXor | BitAnd | FloorDiv.
Inductive ex :=
| Lit (v : val)                       (* ast.Num / ast.NameConstant *)
| Neg (e : ex)                        (* UnaryOp(USub) *)
| Bin (l : ex) (o : op) (r : ex)
| Ctx (c : N) (args : list ex)        (* any other node with expression children *)
| Leaf (n : N).                       (* names, strings, ... *)

Definition is_const (e : ex) : bool :=     (* is_constant_node(e, (ast.Num, ast.NameConstant)) *)
  match e with
  | Lit v => match ty v with TInt | TBool | TFloat | TComplex | TNone => true | TOther => false end
  | _ => false
  end.

Section Folding.
  Variable pr : ex -> text.               (* ExpressionPrinter()(node) *)
  Variable ev : text -> option val.       (* safe_eval; None: an exception was raised *)
  Variable reparse_ok : ex -> bool.       (* the printed candidate parses back to the candidate node (compare_ast) *)
  Variable repr_fails : val -> bool.      (* repr(value) raises (int string conversion limit) *)

  Definition candidate (v : val) : option ex :=
    match v with
    | VBool _ => Some (Lit v)
    | VInt _ | VFloat _ | VComplex _ _ =>
        if repr_fails v then None
        else Some (if repr_neg v then Neg (Lit (negv v)) else Lit v)
    | _ => None
    end.

  Definition try_fold (l : ex) (o : op) (r : ex) : ex :=
    let node := Bin l o r in
    if negb (is_const l) then node else
    if negb (is_const r) then node else
    match o with Div | Pow => node | _ =>
    match ev (pr node) with
    | None => node
    | Some v =>
        if float_nan v then node else
        if complex_nonfinite v then node else
        match candidate v with
        | None => node
        | Some new =>
            match ev (pr new) with
            | None => node
            | Some f =>
                if Nat.leb (length (pr node)) (length (pr new)) then node else
                if negb (reparse_ok new) then node else
                if negb (eqvt f v) then node else new
            end
        end
    end end.

  Fixpoint fold (e : ex) : ex :=
    match e with
    | Bin l o r => try_fold (fold l) o (fold r)
    | Neg a => Neg (fold a)
    | Ctx c args => Ctx c (map fold args)
    | _ => e
    end.
End Folding.
