(* C05 / C01: a control-flow semantics of statement skeletons (Model/Struct.v), enough to say what `return None -> return`
   and "drop the bare return at the end of a function" preserve.  Branching is decided by an ORACLE (a stream of booleans
   consumed in execution order: which way an `if` goes, whether a loop iterates again, which case of an unhooked compound
   statement runs); atoms are opaque events; exceptions are not modelled (except-handlers never run, `else` and `finally`
   always do).  A function definition executes nothing; calling a function is `call`. *)
From PM Require Import Model.Base Model.Struct.
Open Scope bool_scope.

Inductive outcome := Normal | Ret (v : option N).       (* Ret None: the value None *)
Definition result := (list N * outcome * list bool)%type.

Definition simple_step (k : simple) : list N * outcome :=
  match k with
  | KPass | KLit _ => ([], Normal)
  | KAssert id | KOther id => ([id], Normal)
  | KReturn RBare | KReturn RNoneConst => ([], Ret None)
  | KReturn (ROther id) => ([id], Ret (Some id))
  | KImport names => (names, Normal)
  | KImportFrom m _ names _ => (m :: names, Normal)
  end.
Definition first_suite (x : list (list stmt)) : list stmt := match x with l :: _ => l | [] => [] end.
Definition second_suite (x : list (list stmt)) : list stmt := match x with _ :: l :: _ => l | _ => [] end.

Fixpoint run (f : nat) (o : list bool) (l : list stmt) {struct f} : option result :=
  match f with
  | O => None
  | S f' =>
      match l with
      | [] => Some ([], Normal, o)
      | s :: l' =>
          match step f' o s with
          | Some (t, Normal, o') => match run f' o' l' with Some (t', c, o'') => Some (t ++ t', c, o'') | None => None end
          | r => r
          end
      end
  end
with step (f : nat) (o : list bool) (s : stmt) {struct f} : option result :=
  match f with
  | O => None
  | S f' =>
      match s with
      | Simple k => Some (fst (simple_step k), snd (simple_step k), o)
      | Block k mand opt unh =>
          match k with
          | BIf _ => match o with b :: o' => run f' o' (if b then first_suite mand else first_suite opt) | [] => None end
          | BLoop _ =>
              match o with
              | true :: o' =>                       (* one more iteration, then the loop statement again *)
                  match run f' o' (first_suite mand) with
                  | Some (t, Normal, o'') => match step f' o'' s with Some (t', c, o3) => Some (t ++ t', c, o3) | None => None end
                  | r => r
                  end
              | false :: o' => run f' o' (first_suite opt)        (* exhausted: the else suite *)
              | [] => None
              end
          | BWith _ | BClass _ _ => run f' o (first_suite mand)
          | BTry =>
              (* body; orelse when the body completes; finally in every case, a return in it wins *)
              let fin := fun (t : list N) (c : outcome) (o1 : list bool) =>
                match run f' o1 (second_suite opt) with
                | Some (t', Normal, o2) => Some (t ++ t', c, o2)
                | Some (t', Ret w, o2) => Some (t ++ t', Ret w, o2)
                | None => None
                end in
              match run f' o (first_suite mand) with
              | Some (t, Normal, o1) =>
                  match run f' o1 (first_suite opt) with
                  | Some (t', c, o2) => fin (t ++ t') c o2
                  | None => None
                  end
              | Some (t, Ret v, o1) => fin t (Ret v) o1
              | None => None
              end
          | BFunc id => Some ([id], Normal, o)          (* the definition; the body runs when called *)
          | BUnhooked _ =>
              (* match / try* ...: one of the suites runs, chosen by the oracle *)
              match o with
              | b :: o' => run f' o' (if b then first_suite (mand ++ opt ++ unh) else second_suite (mand ++ opt ++ unh))
              | [] => None
              end
          end
      end
  end.

(* calling a function whose body is `body`: the events, the returned value (None also when control falls off the end) *)
Definition call (f : nat) (o : list bool) (body : list stmt) : option (list N * option N * list bool) :=
  match run f o body with
  | Some (t, Normal, o') => Some (t, None, o')
  | Some (t, Ret v, o') => Some (t, v, o')
  | None => None
  end.

(* what RemoveExplicitReturnNone makes of a function body *)
Definition ret_body (body : list stmt) : list stmt :=
  match strip_last_bare_return (map ret_visit body) with [] => [zero_stmt] | b => b end.
