(* C05: statement skeletons and the suite transformers of python_minifier/transforms.
   A skeleton keeps exactly what the structural transforms look at; everything else is an opaque identifier. *)
From PM Require Import Model.Base.
Open Scope bool_scope.

Inductive cmpop := OIs | OIsNot | OEq | OOtherCmp.
Inductive cconst := CTrue | CFalse | COtherConst.
Inductive test :=
| TDebugName                                             (* if __debug__: *)
| TCmp (left_is_debug : bool) (o : cmpop) (c : cconst)   (* a single comparison: <left> <op> <constant> *)
| TOther (id : N).
Inductive retkind := RBare | RNoneConst | ROther (id : N).
Inductive simple :=
| KPass
| KLit (id : N)                      (* Expr(Constant number/str/bytes/True/False/None); id 0 is the literal 0 *)
| KAssert (id : N)
| KReturn (r : retkind)
| KImport (names : list N)
| KImportFrom (module level : N) (names : list N) (star : bool)
| KOther (id : N).
Inductive blockkind :=
| BIf (t : test) | BLoop (id : N) | BWith (id : N) | BTry | BFunc (id : N) | BClass (id : N) (bases : list (bool * N))   (* base: (is the name `object`, id) *)
| BUnhooked (id : N).                (* match, try*, ...: reached through generic_visit only *)
(* mand: suites always passed to suite() (body); opt: suites passed to suite() only when non-empty (orelse, finalbody);
   unh: suites whose statements are only visited (except-handler bodies, match-case bodies) *)
Inductive stmt :=
| Simple (k : simple)
| Block (k : blockkind) (mand opt unh : list (list stmt)).

Definition zero_stmt : stmt := Simple (KLit 0).

(* ---- the generic "filter the suite, keep it non-empty" transformer: RemovePass, RemoveAsserts, RemoveDebug,
        RemoveLiteralStatements are instances ---- *)
(* [self.visit(a) for a in filter(lambda n: not drop(n), node_list)] *)
Definition filter_visit (drop : stmt -> bool) (f : stmt -> stmt) : list stmt -> list stmt :=
  fix fv (l : list stmt) : list stmt :=
    match l with [] => [] | x :: l' => if drop x then fv l' else f x :: fv l' end.
Definition suite_with (drop : stmt -> bool) (f : stmt -> stmt) (l : list stmt) : list stmt :=
  match filter_visit drop f l with [] => [zero_stmt] | kept => kept end.
Definition opt_suite_with (drop : stmt -> bool) (f : stmt -> stmt) (l : list stmt) : list stmt :=
  match l with [] => [] | _ => suite_with drop f l end.

Section SuiteFilter.
  Variable drop : stmt -> bool.
  Fixpoint visit (s : stmt) : stmt :=
    match s with
    | Simple k => Simple k
    | Block k mand opt unh =>
        Block k (map (suite_with drop visit) mand) (map (opt_suite_with drop visit) opt) (map (map visit) unh)
    end.
  Definition vs (l : list stmt) : list stmt := filter_visit drop visit l.
  Definition suite (l : list stmt) : list stmt := suite_with drop visit l.
  Definition module_suite (l : list stmt) : list stmt := vs l.       (* an empty module stays empty *)
End SuiteFilter.

Definition drop_pass (s : stmt) : bool := match s with Simple KPass => true | _ => false end.
Definition drop_assert (s : stmt) : bool := match s with Simple (KAssert _) => true | _ => false end.
Definition drop_literal (s : stmt) : bool := match s with Simple (KLit _) => true | _ => false end.
(* RemoveLiteralStatements.__call__: the whole transform is skipped when `__doc__` occurs as a name or an attribute *)
Definition lit_transform (uses_doc : bool) (body : list stmt) : list stmt :=
  if uses_doc then body else module_suite drop_literal body.
(* RemoveDebug.can_remove, as written in the source (kept in sync by the correspondence leg) *)
Definition debug_test_removable (t : test) : bool :=
  match t with
  | TDebugName => true
  | TCmp true OIs CTrue | TCmp true OIsNot CFalse | TCmp true OEq CTrue => true
  | _ => false
  end.
Definition drop_debug (s : stmt) : bool :=
  match s with
  | Block (BIf t) _ opt _ => debug_test_removable t && match opt with [[]] | [] => true | _ => false end
  | _ => false
  end.

(* ---- RemoveExplicitReturnNone ---- *)
Fixpoint strip_last_bare_return (l : list stmt) : list stmt :=
  match l with
  | [] => []
  | [Simple (KReturn RBare)] => []
  | x :: l' => x :: strip_last_bare_return l'
  end.
Fixpoint ret_visit (s : stmt) : stmt :=
  match s with
  | Simple (KReturn RNoneConst) => Simple (KReturn RBare)
  | Simple k => Simple k
  | Block k mand opt unh =>
      let vall := map ret_visit in
      match k with
      | BFunc _ => Block k (map (fun l => match strip_last_bare_return (vall l) with [] => [zero_stmt] | b => b end) mand) (map vall opt) (map vall unh)
      | _ => Block k (map vall mand) (map vall opt) (map vall unh)
      end
  end.

(* ---- RemoveObject ---- *)
Fixpoint obj_visit (s : stmt) : stmt :=
  match s with
  | Simple k => Simple k
  | Block k mand opt unh =>
      let vall := map obj_visit in
      let k' := match k with BClass id bases => BClass id (filter (fun b => negb (fst b)) bases) | _ => k end in
      Block k' (map vall mand) (map vall opt) (map vall unh)
  end.

(* ---- CombineImports: _combine_import then _combine_import_from on every hooked suite ---- *)
Fixpoint combine_import (acc : list N) (l : list stmt) : list stmt :=
  match l with
  | [] => match acc with [] => [] | _ => [Simple (KImport acc)] end
  | Simple (KImport names) :: l' => combine_import (acc ++ names) l'
  | x :: l' => match acc with [] => x :: combine_import [] l' | _ => Simple (KImport acc) :: x :: combine_import [] l' end
  end.
(* prev: the last statement that was merged (module, level); it is NOT reset when the group is flushed *)
Fixpoint combine_from (prev : option (N * N)) (acc : list N) (l : list stmt) : list stmt :=
  let flush := match acc, prev with
               | [], _ => []
               | _, Some (m, lv) => [Simple (KImportFrom m lv acc false)]
               | _, None => []
               end in
  match l with
  | [] => flush
  | x :: l' =>
      let mergeable :=
        match x with
        | Simple (KImportFrom m lv names star) =>
            if star then None
            else match prev with
                 | None => Some (m, lv, names)
                 | Some (pm, plv) => if N.eqb m pm && N.eqb lv plv then Some (m, lv, names) else None
                 end
        | _ => None
        end in
      match mergeable with
      | Some (m, lv, names) => combine_from (Some (m, lv)) (acc ++ names) l'
      | None => flush ++ x :: combine_from prev [] l'
      end
  end.
Fixpoint imp_visit (s : stmt) : stmt :=
  match s with
  | Simple k => Simple k
  | Block k mand opt unh =>
      let vall := map imp_visit in
      let suite := fun l => combine_from None [] (combine_import [] (vall l)) in   (* visiting and combining commute: visit leaves simple statements alone *)
      Block k (map suite mand) (map (fun l => match l with [] => [] | _ => suite l end) opt) (map vall unh)
  end.
Definition imp_vall (l : list stmt) : list stmt := map imp_visit l.
Definition imp_suite (l : list stmt) : list stmt := combine_from None [] (combine_import [] (imp_vall l)).
