(* C16: the shebang logic of minify() / _find_shebang, over the regexes extracted into Gen/Pipeline.v *)
From Coq Require Import String.
From PM Require Import Model.Base Model.PipelineBase Gen.Pipeline.
Open Scope bool_scope.

Definition find_shebang_text (s : text) : option text := re_match shebang_regex_text s.
Definition find_shebang_bytes (b : bytes) : option bytes := re_match shebang_regex_bytes b.   (* before .decode() *)

(* `if preserve_shebang is True: l = _find_shebang(source); if l is not None: return l + '\n' + minified` ; return minified *)
Definition attach_shebang (preserve : bool) (found : option text) (minified : text) : text :=
  if preserve then match found with Some l => l ++ [10%N] ++ minified | None => minified end else minified.

(* SPECIFICATION: the first physical line under the interpreter's universal-newline rules ends at the first \n or \r *)
Fixpoint takewhile {A} (p : A -> bool) (l : list A) : list A :=
  match l with [] => [] | x :: l' => if p x then x :: takewhile p l' else [] end.
Definition is_eol (c : N) : bool := N.eqb c 10 || N.eqb c 13.
Definition first_line (s : text) : text := takewhile (fun c => negb (is_eol c)) s.
Definition starts_shebang (s : text) : bool := match s with c :: d :: _ => N.eqb c 35 && N.eqb d 33 | _ => false end.
