(* decidable comparison of MiniPy outcomes: used only by the correspondence legs *)
From PM Require Import Model.Base Model.MiniPy.
Open Scope bool_scope.
Definition val_eqb (a b : val) : bool := match a, b with VInt x, VInt y => Z.eqb x y | VStr x, VStr y => N.eqb x y | _, _ => false end.
Definition oval_eqb (a b : option val) : bool := match a, b with Some x, Some y => val_eqb x y | None, None => true | _, _ => false end.
Fixpoint vals_eqb (a b : list val) : bool := match a, b with [], [] => true | x :: a', y :: b' => val_eqb x y && vals_eqb a' b' | _, _ => false end.
Definition ending_eqb (a b : ending) : bool :=
  match a, b with Normal, Normal | Raised NameError, Raised NameError | Raised TypeError, Raised TypeError => true | _, _ => false end.
(* the model's outcome against what CPython did: events, ending, and the namespace restricted to the listed variables *)
Definition agrees (x : option outcome) (ev : list val) (en : ending) (ns : list (var * option val)) : bool :=
  match x with
  | None => false
  | Some o => vals_eqb (events o) ev && ending_eqb (ended o) en && forallb (fun p => oval_eqb (lookup (final o) (fst p)) (snd p)) ns
  end.
(* two model runs are observationally equal on the public variables *)
Definition same_observation (x y : option outcome) (public : list var) : bool :=
  match x, y with
  | Some a, Some b => vals_eqb (events a) (events b) && ending_eqb (ended a) (ended b) && forallb (fun v => oval_eqb (lookup (final a) v) (lookup (final b) v)) public
  | _, _ => false
  end.
