(* Hand-written support definitions for the generated CLI model (Gen/Cli.v).
   Nothing here describes /repo: these are the meanings given to the Python primitives that the
   translator (translator/cli.py) maps the restricted Python subset of __main__.py onto. *)
From PM Require Export Model.Base.

(* ---- Python truthiness and identity tests, by type ---- *)
Class Truthy (A : Type) := truthy : A -> bool.
#[global] Instance Truthy_bool : Truthy bool := fun b => b.
#[global] Instance Truthy_list {A} : Truthy (list A) := fun l => match l with [] => false | _ => true end.
#[global] Instance Truthy_option {A} `{Truthy A} : Truthy (option A) :=
  fun o => match o with Some x => truthy x | None => false end.

(* `x is False` for a value that argparse guarantees to be a bool *)
Definition is_False (b : bool) : bool := negb b.

(* unwrap an optional value after a truthiness guard (None ~ empty) *)
Definition opt_get {A} (o : option (list A)) : list A := match o with Some x => x | None => [] end.

(* ---- str.split(',') and str.strip() ---- *)
Fixpoint split_on (sep : N) (s : text) : list text :=
  match s with
  | [] => [[]]
  | c :: s' =>
      if N.eqb c sep then [] :: split_on sep s'
      else match split_on sep s' with
           | [] => [[c]]            (* unreachable: split_on never returns [] *)
           | w :: ws => (c :: w) :: ws
           end
  end.

(* Python's str.strip() with no argument removes Unicode whitespace. Code points CPython's str.isspace accepts. *)
Definition is_space (c : N) : bool :=
  existsb (N.eqb c) [9;10;11;12;13;28;29;30;31;32;133;160;5760;8192;8193;8194;8195;8196;8197;8198;8199;8200;8201;8202;8232;8233;8239;8287;12288]%N.
Fixpoint lstrip (s : text) : text :=
  match s with c :: s' => if is_space c then lstrip s' else s | [] => [] end.
Definition strip (s : text) : text := rev (lstrip (rev (lstrip s))).

(* ---- effects of the command line tool ---- *)
Inductive exn := OSError | ApiError (kind : N).
Inductive eff :=
| ERead (p : text)                 (* open(p,'rb').read() succeeded *)
| EWrite (p : text) (b : bytes)    (* open(p,'wb') ; write(b) *)
| EOutB (b : bytes)                (* sys.stdout.buffer.write(b) *)
| EOutT (s : text).                (* sys.stdout.write(s) *)
Inductive status := Done | Exit (code : Z) | Raised (e : exn).
Definition trace := (list eff * status)%type.
Definition emit (e : eff) (k : trace) : trace := (e :: fst k, snd k).

Inductive api_result := ApiOk (minified : text) | ApiRaise (kind : N).
Inductive dm_result := DmOk (b : bytes) | DmNotBeneficial | DmRaise (e : exn).

(* the file system as far as the tool looks at it *)
Inductive walk_item := WPath (p : text) | WErr.   (* a path yielded by os.walk/os.path.join, or os.walk's onerror raising *)
Record fsys := {
  fs_isdir : text -> bool;
  fs_walk : text -> list (text * list text + unit);   (* per directory: (root, files) in os.walk order, or an OSError *)
  fs_read : text -> option bytes;                     (* None: open/read raises OSError *)
}.
Definition path_join (root file : text) : text :=
  match rev root with
  | [] => file
  | c :: _ => if N.eqb c 47 then root ++ file else root ++ [47%N] ++ file
  end.
Definition endswith (s suf : text) : bool :=
  text_eqb (skipn (length s - length suf) s) suf && Nat.leb (length suf) (length s).
