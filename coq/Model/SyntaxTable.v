(* decidable equality for the syntax model: used only by the correspondence legs *)
From PM Require Import Model.Base Model.SyntaxBase Gen.PrecTable Model.Syntax.
Open Scope bool_scope.
Definition binop_eqb (a b : binop) : bool :=
  match a, b with
  | Add, Add | Sub, Sub | Mult, Mult | MatMult, MatMult | Div, Div | Mod, Mod | Pow, Pow | LShift, LShift | RShift, RShift
  | BitOr, BitOr | BitXor, BitXor | BitAnd, BitAnd | FloorDiv, FloorDiv => true
  | _, _ => false
  end.
Definition unop_eqb (a b : unop) : bool := match a, b with UAdd, UAdd | USub, USub | Invert, Invert | Not, Not => true | _, _ => false end.
Definition tok_eqb (a b : tok) : bool :=
  match a, b with
  | TName x, TName y | TNum x, TNum y => N.eqb x y
  | TOp x, TOp y => binop_eqb x y
  | TTilde, TTilde | TNot, TNot | TLP, TLP | TRP, TRP => true
  | _, _ => false
  end.
Fixpoint toks_eqb (a b : list tok) : bool :=
  match a, b with [], [] => true | x :: a', y :: b' => tok_eqb x y && toks_eqb a' b' | _, _ => false end.
Fixpoint expr_eqb (a b : expr) : bool :=
  match a, b with
  | EName x, EName y | ENum x, ENum y => N.eqb x y
  | EBin l o r, EBin l' o' r' => expr_eqb l l' && binop_eqb o o' && expr_eqb r r'
  | EUn o e, EUn o' e' => unop_eqb o o' && expr_eqb e e'
  | _, _ => false
  end.
(* the whole token list must be consumed *)
Definition parse_is (ts : list tok) (expected : option expr) : bool :=
  match pexpr (4 * length ts + 8) 0 ts, expected with
  | Some (e, []), Some e' => expr_eqb e e'
  | Some (_, _ :: _), None | None, None => true
  | _, _ => false
  end.
