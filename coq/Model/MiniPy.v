(* L-sem: MiniPy, a definitional interpreter for a core of Python module-level code:
   integers, opaque strings, booleans-as-integers, variables, arithmetic/comparison, assignment, print, pass,
   expression statements, del, if/else, while.  Outcome = events printed, how execution ended, final namespace.
   Fuel is consumed by loop iterations only, so removing or replacing statements does not change fuel needs. *)
From PM Require Import Model.Base.
Open Scope bool_scope.

Definition var := N.
Inductive val := VInt (z : Z) | VStr (id : N).
Inductive mop := OAdd | OSub | OMul | OLt | OEq.
Inductive mexpr :=
| MInt (z : Z) | MStr (id : N) | MVar (v : var) | MBin (o : mop) (a b : mexpr).
Inductive mstmt :=
| SPass
| SExpr (e : mexpr)
| SAssign (v : var) (e : mexpr)
| SDel (v : var)
| SPrint (e : mexpr)
| SIf (c : mexpr) (t f : list mstmt)
| SWhile (c : mexpr) (body : list mstmt).

Inductive exn := NameError | TypeError.
Definition store := list (var * val).          (* most recent binding first; del removes *)
Fixpoint lookup (st : store) (v : var) : option val :=
  match st with [] => None | (w, x) :: st' => if N.eqb v w then Some x else lookup st' v end.
Fixpoint remove (st : store) (v : var) : store :=
  match st with [] => [] | (w, x) :: st' => if N.eqb v w then remove st' v else (w, x) :: remove st' v end.
Definition update (st : store) (v : var) (x : val) : store := (v, x) :: remove st v.

Definition binop (o : mop) (a b : val) : val + exn :=
  match o, a, b with
  | OAdd, VInt x, VInt y => inl (VInt (x + y))
  | OSub, VInt x, VInt y => inl (VInt (x - y))
  | OMul, VInt x, VInt y => inl (VInt (x * y))
  | OLt, VInt x, VInt y => inl (VInt (if Z.ltb x y then 1 else 0))
  | OEq, VInt x, VInt y => inl (VInt (if Z.eqb x y then 1 else 0))
  | OEq, VStr x, VStr y => inl (VInt (if N.eqb x y then 1 else 0))
  | OEq, _, _ => inl (VInt 0)
  | _, _, _ => inr TypeError
  end.
Fixpoint eval (e : mexpr) (st : store) : val + exn :=
  match e with
  | MInt z => inl (VInt z)
  | MStr s => inl (VStr s)
  | MVar v => match lookup st v with Some x => inl x | None => inr NameError end
  | MBin o a b =>
      match eval a st with
      | inr x => inr x
      | inl va => match eval b st with inr x => inr x | inl vb => binop o va vb end
      end
  end.
Definition truthy (v : val) : bool := match v with VInt z => negb (Z.eqb z 0) | VStr _ => true end.

Inductive ending := Normal | Raised (e : exn).
Record outcome := { events : list val; ended : ending; final : store }.

(* run a suite; None = out of fuel.  `exec1` is parameterised by the suite runner for the nested bodies. *)
Definition seq_with (exec1 : mstmt -> list val -> store -> option outcome) : list mstmt -> list val -> store -> option outcome :=
  fix go (l : list mstmt) (ev : list val) (st : store) : option outcome :=
    match l with
    | [] => Some {| events := ev; ended := Normal; final := st |}
    | s :: l' =>
        match exec1 s ev st with
        | None => None
        | Some o => match ended o with Normal => go l' (events o) (final o) | Raised _ => Some o end
        end
    end.
Fixpoint exec (fuel : nat) (s : mstmt) (ev : list val) (st : store) : option outcome :=
  match s with
  | SPass => Some {| events := ev; ended := Normal; final := st |}
  | SExpr e => match eval e st with inl _ => Some {| events := ev; ended := Normal; final := st |} | inr x => Some {| events := ev; ended := Raised x; final := st |} end
  | SAssign v e => match eval e st with inl x => Some {| events := ev; ended := Normal; final := update st v x |} | inr x => Some {| events := ev; ended := Raised x; final := st |} end
  | SDel v => match lookup st v with Some _ => Some {| events := ev; ended := Normal; final := remove st v |} | None => Some {| events := ev; ended := Raised NameError; final := st |} end
  | SPrint e => match eval e st with inl x => Some {| events := ev ++ [x]; ended := Normal; final := st |} | inr x => Some {| events := ev; ended := Raised x; final := st |} end
  | SIf c t f =>
      match eval c st with
      | inr x => Some {| events := ev; ended := Raised x; final := st |}
      | inl x => if truthy x then seq_with (exec fuel) t ev st else seq_with (exec fuel) f ev st
      end
  | SWhile c body =>
      (fix loop (n : nat) (ev : list val) (st : store) : option outcome :=
         match n with
         | O => None
         | S n' =>
             match eval c st with
             | inr x => Some {| events := ev; ended := Raised x; final := st |}
             | inl x =>
                 if truthy x then
                   match seq_with (exec n') body ev st with
                   | None => None
                   | Some o => match ended o with Normal => loop n' (events o) (final o) | Raised _ => Some o end
                   end
                 else Some {| events := ev; ended := Normal; final := st |}
             end
         end) fuel ev st
  end.
Definition run (fuel : nat) (p : list mstmt) : option outcome := seq_with (exec fuel) p [] [].

(* ---- the transformations of the minifier, on MiniPy ---- *)
(* RemovePass: drop `pass` from every suite; an emptied nested suite becomes the expression statement 0 *)
Definition rp_suite_with (f : mstmt -> mstmt) (nested : bool) (l : list mstmt) : list mstmt :=
  match (fix go (l : list mstmt) : list mstmt := match l with [] => [] | SPass :: l' => go l' | s :: l' => f s :: go l' end) l with
  | [] => if nested then [SExpr (MInt 0)] else []
  | k => k
  end.
Fixpoint rp_stmt (s : mstmt) : mstmt :=
  match s with
  | SIf c t f => SIf c (rp_suite_with rp_stmt true t) (match f with [] => [] | _ => rp_suite_with rp_stmt true f end)
  | SWhile c b => SWhile c (rp_suite_with rp_stmt true b)
  | _ => s
  end.
Definition remove_pass (p : list mstmt) : list mstmt := rp_suite_with rp_stmt false p.

(* FoldConstants on integer arithmetic: a binary operation on two integer literals becomes its value *)
Fixpoint fold_expr (e : mexpr) : mexpr :=
  match e with
  | MBin o a b =>
      match fold_expr a, fold_expr b with
      | MInt x, MInt y => match o with OAdd => MInt (x + y) | OSub => MInt (x - y) | OMul => MInt (x * y) | _ => MBin o (MInt x) (MInt y) end
      | a', b' => MBin o a' b'
      end
  | _ => e
  end.

(* renaming of variables *)
Fixpoint ren_expr (r : var -> var) (e : mexpr) : mexpr :=
  match e with MVar v => MVar (r v) | MBin o a b => MBin o (ren_expr r a) (ren_expr r b) | _ => e end.
Fixpoint ren_stmt (r : var -> var) (s : mstmt) : mstmt :=
  match s with
  | SPass => SPass
  | SExpr e => SExpr (ren_expr r e)
  | SAssign v e => SAssign (r v) (ren_expr r e)
  | SDel v => SDel (r v)
  | SPrint e => SPrint (ren_expr r e)
  | SIf c t f => SIf (ren_expr r c) (map (ren_stmt r) t) (map (ren_stmt r) f)
  | SWhile c b => SWhile (ren_expr r c) (map (ren_stmt r) b)
  end.
Definition ren_store (r : var -> var) (st : store) : store := map (fun p => (r (fst p), snd p)) st.

(* HoistLiterals on MiniPy: a string literal is replaced by a fresh name bound once at the start of the module *)
Fixpoint sub_expr (A : var) (s : N) (e : mexpr) : mexpr :=
  match e with
  | MStr t => if N.eqb t s then MVar A else e
  | MBin o a b => MBin o (sub_expr A s a) (sub_expr A s b)
  | _ => e
  end.
Fixpoint sub_stmt (A : var) (s : N) (st : mstmt) : mstmt :=
  match st with
  | SPass => SPass
  | SExpr e => SExpr (sub_expr A s e)
  | SAssign v e => SAssign v (sub_expr A s e)
  | SDel v => SDel v
  | SPrint e => SPrint (sub_expr A s e)
  | SIf c t f => SIf (sub_expr A s c) (map (sub_stmt A s) t) (map (sub_stmt A s) f)
  | SWhile c b => SWhile (sub_expr A s c) (map (sub_stmt A s) b)
  end.
Definition hoist (A : var) (s : N) (p : list mstmt) : list mstmt := SAssign A (MStr s) :: map (sub_stmt A s) p.
(* the name does not occur in the program *)
Fixpoint fresh_expr (A : var) (e : mexpr) : bool :=
  match e with MVar v => negb (N.eqb v A) | MBin _ a b => fresh_expr A a && fresh_expr A b | _ => true end.
Fixpoint fresh_stmt (A : var) (st : mstmt) : bool :=
  match st with
  | SPass => true
  | SExpr e | SPrint e => fresh_expr A e
  | SAssign v e => negb (N.eqb v A) && fresh_expr A e
  | SDel v => negb (N.eqb v A)
  | SIf c t f => fresh_expr A c && forallb (fresh_stmt A) t && forallb (fresh_stmt A) f
  | SWhile c b => fresh_expr A c && forallb (fresh_stmt A) b
  end.
