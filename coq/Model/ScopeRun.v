(* executable checks evaluated by the correspondence legs of the scope family (harness/scope_leg.py, leg A):
   G  the model of get_binding, run on the REAL per-namespace data, finds the namespace the real resolve_names attached each reference to;
   B  the real per-namespace data (bindings, global_names, nonlocal_names) are the `view` of the block's symtable-level facts;
   S  the reference symtable pass (ref_owner) agrees with the reference resolver that is cross-checked against CPython's symtable. *)
From PM Require Import Model.Base Model.ScopeBase Gen.ResolveNames Model.Scope.
Open Scope bool_scope.

Definition mdflt : mframe := {| m_kind := KModule; m_bindings := []; m_globals := []; m_nonlocals := [] |}.
Definition sdflt : sframe := {| s_kind := KModule; s_bound := []; s_gdecl := []; s_ndecl := []; s_loads := [] |}.
(* a reference: the name, the indices of the namespaces from the one the reference is in up to the module, the depth of the owner *)
Definition ref := (text * list nat * nat)%type.

Definition check_G (F : list mframe) (refs : list ref) : bool :=
  forallb (fun r => match r with (x, ids, d) => Nat.eqb (min_owner x (map (fun i => nth i F mdflt) ids)) d end) refs.

Fixpoint check_B (F : list mframe) (S : list sframe) : bool :=
  match F, S with
  | [], [] => true
  | f :: F', s :: S' => frame_agrees f s && check_B F' S'
  | _, _ => false
  end.

Definition check_S (S : list sframe) (occs : list ref) : bool :=
  forallb (fun r => match r with
                    | (x, i :: up, d) => Nat.eqb (ref_owner (rev (map (fun j => nth j S sdflt) up)) (nth i S sdflt) x) d
                    | _ => false
                    end) occs.

(* the instance of the theorem on the same data: both sides computed (used to show the premises are met by real programs) *)
Definition check_T (S : list sframe) (occs : list ref) : bool :=
  forallb (fun r => match r with
                    | (x, i :: up, _) =>
                        let outer := rev (map (fun j => nth j S sdflt) up) in let f := nth i S sdflt in
                        wf_chain outer f && (merged_in_class f x || Nat.eqb (min_owner x (chain_view outer f)) (ref_owner outer f x))
                    | _ => false
                    end) occs.
