(* C06: mirrors of rename/util.py insert, rename_literals.py common_path / place_bindings / HoistedValue *)
From PM Require Import Model.Base.
Open Scope bool_scope.

(* a statement as util.insert sees it *)
Inductive istmt := IFuture | IDocStr (id : N) | IOther (id : N).
Definition is_prefix_stmt (s : istmt) : bool := match s with IFuture | IDocStr _ => true | IOther _ => false end.
(* insert(suite, new_node): as early as possible, after docstring-position string statements and __future__ imports *)
Fixpoint insert (new : istmt) (l : list istmt) : list istmt :=
  match l with
  | [] => [new]
  | x :: l' => if is_prefix_stmt x then x :: insert new l' else new :: x :: l'
  end.
Fixpoint takewhile {A} (p : A -> bool) (l : list A) : list A := match l with [] => [] | x :: l' => if p x then x :: takewhile p l' else [] end.
Fixpoint dropwhile {A} (p : A -> bool) (l : list A) : list A := match l with [] => [] | x :: l' => if p x then dropwhile p l' else l end.

(* namespace paths: function-namespace ids from the module (0) down to the nearest function namespace of a use *)
Fixpoint common_path (a b : list N) : list N :=
  match a, b with
  | x :: a', y :: b' => if N.eqb x y then x :: common_path a' b' else []
  | _, _ => []
  end.
(* place_bindings: fold the paths of all references; the binding goes to the last namespace of the result *)
Definition place (paths : list (list N)) : list N :=
  match paths with
  | [] => []
  | p :: rest => fold_left common_path rest p
  end.
Fixpoint is_prefix (a b : list N) : bool :=
  match a, b with [], _ => true | x :: a', y :: b' => N.eqb x y && is_prefix a' b' | _, _ => false end.

(* HoistedValue: key of a literal = (type, value) *)
Inductive ltype := TStr | TBytes | TBool | TNone.
Definition hv_eq (a b : ltype * list N) : bool :=
  match fst a, fst b with TStr, TStr | TBytes, TBytes | TBool, TBool | TNone, TNone => text_eqb (snd a) (snd b) | _, _ => false end.
