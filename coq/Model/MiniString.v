(* C12: mirror of python_minifier/ministring.py MiniString.to_short / to_long (the text that is passed to eval()
   between the chosen quotes), and a reference scanner for Python string literals. *)
From PM Require Import Model.Base.
Open Scope bool_scope.
Open Scope N_scope.

Definition hex_digit (n : N) : N := if n <? 10 then 48 + n else 87 + n.      (* format(..., 'x'): lowercase *)
Fixpoint hex_fixed (width : nat) (v : N) : text :=                           (* format(v, '0<width>x') for v < 16^width *)
  match width with
  | O => []
  | S w => hex_fixed w (v / 16) ++ [hex_digit (v mod 16)]
  end.

(* the entries of the `escaped` dict that both to_short and to_long share *)
Definition esc_common (c : N) : option text :=
  if c =? 92 then Some [92; 92]
  else if c =? 7 then Some [92; 97]
  else if c =? 8 then Some [92; 98]
  else if c =? 12 then Some [92; 102]
  else if c =? 13 then Some [92; 114]
  else if c =? 9 then Some [92; 116]
  else if c =? 11 then Some [92; 118]
  else if c =? 0 then Some [92; 120; 48; 48]
  else None.

(* the `else` branch of the loop: copy, or \uXXXX / \UXXXXXXXX in safe mode *)
Definition plain_char (safe : bool) (c : N) : text :=
  if negb safe then [c]
  else if c <=? 127 then [c]
  else if c <=? 65535 then [92; 117] ++ hex_fixed 4 c
  else [92; 85] ++ hex_fixed 8 c.

Definition short_char (safe : bool) (q c : N) : text :=
  if c =? 10 then [92; 110]
  else match esc_common c with
       | Some e => e
       | None => if c =? q then [92; q] else plain_char safe c
       end.
Definition to_short (safe : bool) (q : N) (s : text) : text := flat_map (short_char safe q) s.

Definition long_char (safe : bool) (q c : N) : text :=
  match esc_common c with
  | Some e => e
  | None => if c =? q then [92; q] else plain_char safe c
  end.
Definition to_long (safe : bool) (q : N) (s : text) : text := flat_map (long_char safe q) s.

(* ---- reference scanner (SPECIFICATION, from the Python lexical analysis: string and bytes literals) ----
   scan the inside of a literal opened with quote character q; the result is what follows the closing quote(s);
   None: unterminated, or a raw newline inside a short string *)
Fixpoint scan_short (q : N) (s : text) : option text :=
  match s with
  | [] => None
  | c :: s' =>
      if c =? q then Some s'
      else if c =? 10 then None
      else if c =? 92 then match s' with [] => None | _ :: s'' => scan_short q s'' end
      else scan_short q s'
  end.
Definition starts2 (q : N) (s : text) : bool := match s with a :: b :: _ => (a =? q) && (b =? q) | _ => false end.
Fixpoint scan_long (q : N) (s : text) : option text :=
  match s with
  | [] => None
  | c :: s' =>
      if c =? 92 then match s' with [] => None | _ :: s'' => scan_long q s'' end
      else if (c =? q) && starts2 q s' then Some (skipn 2 s')
      else scan_long q s'
  end.
