(* L-syn, operator core: expressions built from names, integer literals, the 13 binary and 4 unary operators.
   `pr` mirrors ExpressionPrinter (visit_BinOp/_lhs/_rhs, visit_UnaryOp) at the token level, reading every precedence
   from Gen/PrecTable.v (regenerated from the source).  `pexpr` is a REFERENCE parser written from the Python grammar
   (its binding powers are the grammar's levels, independent of the printer's table). *)
From PM Require Import Model.Base Model.SyntaxBase Gen.PrecTable.
Open Scope bool_scope.
Open Scope nat_scope.

Inductive expr :=
| EName (n : N)
| ENum (n : N)
| EBin (l : expr) (o : binop) (r : expr)
| EUn (o : unop) (e : expr).

Inductive tok := TName (n : N) | TNum (n : N) | TOp (o : binop) | TTilde | TNot | TLP | TRP.

(* ---- the printer ---- *)
Definition prec (e : expr) : nat :=
  match e with EName _ | ENum _ => 0 | EBin _ o _ => prec_binop o | EUn o _ => prec_unop o end.
Definition is_pow (o : binop) : bool := match o with Pow => true | _ => false end.
Definition paren (b : bool) (ts : list tok) : list tok := if b then TLP :: ts ++ [TRP] else ts.
(* _lhs: parentheses iff left_precedence != 0 and (op > left or (op == left and right-associative)) *)
Definition lparen (l : expr) (o : binop) : bool :=
  negb (prec l =? 0) && ((prec l <? prec_binop o) || ((prec l =? prec_binop o) && is_pow o)).
(* _rhs: `if isinstance(op, Pow) and right_precedence == 14: op_precedence = right_precedence` *)
Definition rparen (o : binop) (r : expr) : bool :=
  let po := if is_pow o && (prec r =? pow_rhs_special) then prec r else prec_binop o in
  negb (prec r =? 0) && ((prec r <? po) || ((prec r =? po) && negb (is_pow o))).
(* visit_UnaryOp: parentheses iff right_precedence != 0 and op_precedence > right_precedence *)
Definition uparen (o : unop) (x : expr) : bool := negb (prec x =? 0) && (prec x <? prec_unop o).
Definition untok (o : unop) : tok := match o with UAdd => TOp Add | USub => TOp Sub | Invert => TTilde | Not => TNot end.

Fixpoint pr (e : expr) : list tok :=
  match e with
  | EName n => [TName n]
  | ENum n => [TNum n]
  | EUn o x => untok o :: paren (uparen o x) (pr x)
  | EBin l o r => paren (lparen l o) (pr l) ++ TOp o :: paren (rparen o r) (pr r)
  end.

(* ---- reference parser (Python grammar: or_test .. power), precedence climbing on explicit fuel ---- *)
Definition lbp (o : binop) : nat :=
  match o with
  | BitOr => 8 | BitXor => 9 | BitAnd => 10 | LShift | RShift => 11 | Add | Sub => 12
  | Mult | MatMult | Div | Mod | FloorDiv => 13 | Pow => 15
  end.
Definition rbp (o : binop) : nat := match o with Pow => 14 | _ => S (lbp o) end.   (* u ** factor ; left-associative otherwise *)

Fixpoint pexpr (f : nat) (minp : nat) (ts : list tok) : option (expr * list tok) :=
  match f with 0 => None | S f' =>
    match ts with
    | TName n :: r => ploop f' (EName n) minp r
    | TNum n :: r => ploop f' (ENum n) minp r
    | TLP :: r => match pexpr f' 0 r with Some (e, TRP :: r') => ploop f' e minp r' | _ => None end
    | TOp Add :: r => if minp <=? 14 then match pexpr f' 14 r with Some (e, r') => ploop f' (EUn UAdd e) minp r' | None => None end else None
    | TOp Sub :: r => if minp <=? 14 then match pexpr f' 14 r with Some (e, r') => ploop f' (EUn USub e) minp r' | None => None end else None
    | TTilde :: r => if minp <=? 14 then match pexpr f' 14 r with Some (e, r') => ploop f' (EUn Invert e) minp r' | None => None end else None
    | TNot :: r => if minp <=? 6 then match pexpr f' 6 r with Some (e, r') => ploop f' (EUn Not e) minp r' | None => None end else None
    | _ => None
    end
  end
with ploop (f : nat) (lhs : expr) (minp : nat) (ts : list tok) : option (expr * list tok) :=
  match f with 0 => None | S f' =>
    match ts with
    | TOp o :: r =>
        if lbp o <? minp then Some (lhs, ts)
        else match pexpr f' (rbp o) r with
             | Some (rhs, r') => ploop f' (EBin lhs o rhs) minp r'
             | None => None
             end
    | _ => Some (lhs, ts)
    end
  end.
