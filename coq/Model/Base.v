(* Base types shared by every layer. Text and bytes are lists of code points / byte values (N). *)
From Coq Require Export List NArith ZArith Bool Lia.
Export ListNotations.

Definition text := list N.      (* Unicode code points *)
Definition bytes := list N.     (* values < 256 *)

Fixpoint text_eqb (a b : text) : bool :=
  match a, b with
  | [], [] => true
  | x :: a', y :: b' => N.eqb x y && text_eqb a' b'
  | _, _ => false
  end.

Lemma text_eqb_eq a b : text_eqb a b = true <-> a = b.
Proof.
  revert b; induction a as [|x a IH]; intros [|y b]; cbn [text_eqb]; split; intro H;
    try reflexivity; try discriminate.
  - apply andb_true_iff in H as [H1 H2]. apply N.eqb_eq in H1. apply IH in H2. congruence.
  - injection H as -> ->. rewrite N.eqb_refl. cbn. apply IH. reflexivity.
Qed.

Lemma text_eqb_refl a : text_eqb a a = true.
Proof. apply text_eqb_eq. reflexivity. Qed.

Definition mem_text (x : text) (l : list text) : bool := existsb (text_eqb x) l.

Lemma mem_text_In x l : mem_text x l = true <-> In x l.
Proof.
  unfold mem_text. rewrite existsb_exists. split.
  - intros [y [Hy He]]. apply text_eqb_eq in He. subst. exact Hy.
  - intro H. exists x. split; [exact H | apply text_eqb_refl].
Qed.

(* UTF-8 encoder (total; lone surrogates are encoded like any 3-byte code point, which CPython would reject:
   the printer never emits them, see DESIGN 5.14) *)
Definition utf8_cp (c : N) : bytes :=
  if (c <? 128)%N then [c]
  else if (c <? 2048)%N then [192 + c / 64; 128 + c mod 64]%N
  else if (c <? 65536)%N then [224 + c / 4096; 128 + (c / 64) mod 64; 128 + c mod 64]%N
  else [240 + c / 262144; 128 + (c / 4096) mod 64; 128 + (c / 64) mod 64; 128 + c mod 64]%N.

Definition utf8 (s : text) : bytes := flat_map utf8_cp s.

Lemma utf8_cp_length c : 1 <= length (utf8_cp c).
Proof. unfold utf8_cp. destruct (c <? 128)%N; [cbn [length]; lia|]. destruct (c <? 2048)%N; [cbn [length]; lia|].
  destruct (c <? 65536)%N; cbn [length]; lia. Qed.

Lemma utf8_length_ge s : length s <= length (utf8 s).
Proof.
  unfold utf8. induction s as [|c s IH]; cbn [flat_map length]; [lia|]. rewrite app_length. pose proof (utf8_cp_length c). lia.
Qed.

(* ASCII helper: Coq string -> text, used for readable literals in generated files *)
From Coq Require Import String Ascii.
Fixpoint t (s : string) : text :=
  match s with
  | EmptyString => []
  | String c s' => N_of_ascii c :: t s'
  end.
Arguments t s%string.
