(* L-scope, renamer core: mirror of rename/renamer.py NameAssigner.__call__ over the table of bindings that the
   analysis (mapper, bind_names, resolve_names, allow_rename_*, rename_literals) produces.
   The cost model `should` and the name source `pick` are arbitrary (Section variables). *)
From PM Require Import Model.Base.
Open Scope bool_scope.

Inductive bkind := KName | KBuiltin | KHoisted.     (* NameBinding | BuiltinBinding (a NameBinding) | HoistedBinding *)
Record binding := {
  b_id : N;                       (* position in all_bindings(module) order *)
  b_kind : bkind;
  b_name : option text;           (* binding.name: None for a literal that has not been given a name *)
  b_scope : list N;               (* reservation_scope(namespace, binding): namespace ids, the module is 0 *)
  b_allow : bool;                 (* binding.allow_rename *)
  b_reserved : option text;       (* binding.reserved *)
  b_module : bool;                (* the local namespace is the module *)
  b_mentions : N                  (* binding.new_mention_count(): the sort key *)
}.
Definition is_name_binding (b : binding) : bool := match b_kind b with KHoisted => false | _ => true end.
Definition opt_text_eqb (a b : option text) : bool :=
  match a, b with Some x, Some y => text_eqb x y | None, None => true | _, _ => false end.

Definition assigned := list (N * text).            (* namespace.assigned_names, as (namespace, name) pairs *)
Definition names_in (a : assigned) (sc : list N) : list text :=
  map snd (filter (fun p => existsb (N.eqb (fst p)) sc) a).
Definition reserve (n : text) (sc : list N) (a : assigned) : assigned := map (fun s => (s, n)) sc ++ a.
Definition available (n : text) (sc : list N) (a : assigned) : bool := negb (mem_text n (names_in a sc)).

(* stable sort, descending by mention count: sorted(..., key=new_mention_count, reverse=True) *)
Fixpoint insert_desc (x : binding) (l : list binding) : list binding :=
  match l with
  | [] => [x]
  | y :: l' => if N.leb (b_mentions y) (b_mentions x) then x :: l else y :: insert_desc x l'
  end.
Definition sort_desc (l : list binding) : list binding := fold_right insert_desc [] l.

Section Assign.
  Variable pick : bool -> list text -> text.    (* available_name(scope, prefix='_' if flag): first generated name not assigned in the scope *)
  Variable should : binding -> text -> bool.    (* binding.should_rename(candidate) *)
  Variable prefix_globals : bool.

  (* for binding in all_bindings: if binding.reserved is not None: reserve_name(binding.reserved, scope) ; then reserved_globals *)
  Definition init (bs : list binding) (reserved_globals : list text) : assigned :=
    map (fun n => (0%N, n)) reserved_globals ++
    fold_right (fun b a => match b_reserved b with Some r => reserve r (b_scope b) a | None => a end) [] bs.

  (* the name the binding ends up with *)
  Definition decide (b : binding) (a : assigned) : option text :=
    if b_allow b then
      let c := pick (b_module b && prefix_globals) (names_in a (b_scope b)) in
      if should b c then Some c
      else if is_name_binding b then
        match b_name b with
        | Some orig =>
            if opt_text_eqb (b_reserved b) (Some orig) then Some orig      (* already reserved (an argument) *)
            else if available orig (b_scope b) a then Some orig            (* keep the original *)
            else Some c                                                    (* original taken meanwhile: rename anyway *)
        | None => Some c
        end
      else b_name b
    else b_name b.

  Fixpoint run (bs : list binding) (a : assigned) : list (N * option text) :=
    match bs with
    | [] => []
    | b :: rest =>
        let n := decide b a in
        (b_id b, n) :: run rest (match n with Some x => reserve x (b_scope b) a | None => a end)
    end.

  Definition assign (bs : list binding) (reserved_globals : list text) : list (N * option text) :=
    run (sort_desc bs) (init bs reserved_globals).
End Assign.

(* ---- allow_rename_locals / allow_rename_globals (rename/util.py) on the table ---- *)
Definition disallow (b : binding) : binding :=       (* NameBinding.disallow_rename: also reserves the own name *)
  {| b_id := b_id b; b_kind := b_kind b; b_name := b_name b; b_scope := b_scope b; b_allow := false;
     b_reserved := match b_kind b with KHoisted => b_reserved b | _ => b_name b end; b_module := b_module b; b_mentions := b_mentions b |}.
Definition name_in (b : binding) (l : list text) : bool := match b_name b with Some n => mem_text n l | None => false end.
Definition allow_locals (rename_locals : bool) (preserve : list text) (b : binding) : binding :=
  if b_module b then b else if negb rename_locals || name_in b preserve then disallow b else b.
Definition allow_globals (rename_globals : bool) (preserve : list text) (b : binding) : binding :=
  if b_module b then (if negb rename_globals || name_in b preserve then disallow b else b) else b.
