(* vocabulary shared by Gen/ResolveNames.v (regenerated from rename/resolve_names.py, rename/util.py, rename/bind_names.py)
   and Model/Scope.v *)
Inductive kind := KModule | KFunction | KClass.      (* KFunction: def, async def, lambda, comprehension *)
(* the clauses of resolve_names.get_binding, in source order *)
Inductive clause :=
| CGlobalDecl      (* name in namespace.global_names and namespace is not the module: continue at the module *)
| CNonlocalDecl    (* name in namespace.nonlocal_names and namespace is not the module: continue at get_nonlocal_namespace *)
| COwn             (* a binding of this namespace has the name: found *)
| CUp.             (* not the module: continue at get_nonlocal_namespace; the module: create the binding there *)
