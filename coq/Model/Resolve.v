(* L-scope, abstract name resolution over a tree of namespaces: a name is looked up in the namespace of the reference,
   then in its parent, and so on (a superset of the scopes CPython visits: class scopes are not skipped here, which only
   makes the statement stronger).  Used to state that the names chosen by the renamer preserve which binding every
   reference resolves to. *)
From PM Require Import Model.Base Model.Renamer.
Open Scope bool_scope.

Record rb := { r_id : N; r_owner : N; r_orig : option text; r_final : option text; r_scope : list N }.
Definition parents := list (N * N).                       (* namespace -> enclosing namespace; the module has none *)
Fixpoint parent_of (par : parents) (n : N) : option N :=
  match par with [] => None | (c, p) :: rest => if N.eqb c n then Some p else parent_of rest n end.

Definition named (name_of : rb -> option text) (ns : N) (name : text) (b : rb) : bool :=
  N.eqb (r_owner b) ns && opt_text_eqb (name_of b) (Some name).
(* the binding a reference in namespace ns with the given spelling resolves to *)
Fixpoint resolve (fuel : nat) (par : parents) (bs : list rb) (name_of : rb -> option text) (ns : N) (name : text) : option N :=
  match fuel with
  | O => None
  | S f =>
      match find (named name_of ns name) bs with
      | Some b => Some (r_id b)
      | None => match parent_of par ns with Some p => resolve f par bs name_of p name | None => None end
      end
  end.
(* the namespaces walked from `from` up to and including `to` *)
Fixpoint chain (fuel : nat) (par : parents) (from to : N) : option (list N) :=
  match fuel with
  | O => None
  | S f => if N.eqb from to then Some [to]
           else match parent_of par from with Some p => option_map (cons from) (chain f par p to) | None => None end
  end.
Definition covered (fuel : nat) (par : parents) (from : N) (b : rb) : bool :=
  match chain fuel par from (r_owner b) with
  | Some l => forallb (fun n => existsb (N.eqb n) (r_scope b)) l
  | None => false
  end.

(* renamer.reservation_scope(namespace, binding): the owner, and every namespace walked from the site of each reference
   (`node.namespace`, then its parent, ...) until the owner is reached *)
Definition rscope (fuel : nat) (par : parents) (owner : N) (sites : list N) : list N :=
  owner :: flat_map (fun s => match chain fuel par s owner with Some l => l | None => [] end) sites.
